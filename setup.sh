#!/bin/sh
# MANIFEST.setup_cmd: build the Lean libraries and the driver from the committed
# sources, offline.  Idempotent.
set -e
here="$(cd "$(dirname "$0")" && pwd)"
cd "$here/lean"
export CARGO_NET_OFFLINE=true GOPROXY=off PIP_NO_INDEX=1
lake build PtModel ptdriver
lake build PtGen PtProofs
cd "$here"
/venv/bin/python -c "import sys; sys.path.insert(0,'/repo'); import pytato, numpy; print('pytato import ok, numpy', numpy.__version__)"
mkdir -p evidence replays

#!/bin/sh
# MANIFEST.setup_cmd: build the Lean libraries and the driver from the committed
# sources, offline.  Idempotent.
set -e
here="$(cd "$(dirname "$0")" && pwd)"
cd "$here/lean"
export CARGO_NET_OFFLINE=true GOPROXY=off PIP_NO_INDEX=1
lake build PtModel ptdriver
# Proof modules are (re)built by each check for its own property; a failure of one
# property's module must not prevent the others from being set up.
lake build PtGen PtProofs || echo "setup: some proof modules did not build; the checks of those properties will report it"
cd "$here"
/venv/bin/python -c "import sys; sys.path.insert(0,'/repo'); import pytato, numpy; print('pytato import ok, numpy', numpy.__version__)"
mkdir -p evidence replays

"""CLI of the checks: python -m harness.main C02 --tier quick"""
from __future__ import annotations

import argparse
import importlib
import os
import sys
import traceback

from . import common


def main(argv=None) -> int:
    ap = argparse.ArgumentParser()
    ap.add_argument("prop")
    ap.add_argument("--tier", default=os.environ.get("VERIF_TIER", "quick"),
                    choices=["quick", "thorough"])
    ap.add_argument("--replay", default=None)
    args = ap.parse_args(argv)
    prop = args.prop.upper()
    common.setup_repo_import()
    # scratch / cache dirs must be set before loopy is imported
    ctx = common.Ctx(prop=prop, tier=args.tier, seed=common.env_seed())
    sc = ctx.scratch
    os.environ["TMPDIR"] = str(sc)
    os.environ["XDG_CACHE_HOME"] = str(sc / "cache")
    import tempfile
    tempfile.tempdir = str(sc)
    try:
        mod = importlib.import_module(f"harness.props.{prop.lower()}")
    except ModuleNotFoundError as e:
        print(f"no check for property {prop}: {e}", file=sys.stderr)
        return 2
    try:
        if args.replay:
            rc = mod.replay(ctx, args.replay)
            import shutil
            shutil.rmtree(sc, ignore_errors=True)
            return rc
        mod.run(ctx)
        return ctx.finish()
    except common.LeanError as e:
        print(f"check infrastructure failure (Lean): {e}", file=sys.stderr)
        import shutil
        shutil.rmtree(sc, ignore_errors=True)
        return 2
    except Exception as e:
        tb = traceback.extract_tb(e.__traceback__)
        repo = str(common.REPO)
        in_pytato = [f for f in tb if f.filename.startswith(repo + "/pytato")]
        traceback.print_exc()
        if in_pytato:
            # the real code raised somewhere the harness does not expect (it does not on the tree this check was
            # built against): the correspondence can no longer be run — reported, with the traceback as replay
            where = in_pytato[-1]
            ctx.broken.append(f"harness-aborted:{type(e).__name__} raised in {where.filename[len(repo) + 1:]}:"
                              f"{where.name}: {str(e)[:120]}")
            ctx.coverage["aborted_traceback"] = traceback.format_exc()[-3000:]
            try:
                return ctx.finish()
            except Exception:   # noqa: BLE001
                traceback.print_exc()
        import shutil
        shutil.rmtree(sc, ignore_errors=True)
        return 2


if __name__ == "__main__":
    sys.exit(main())

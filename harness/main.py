"""CLI of the checks: python -m harness.main C02 --tier quick"""
from __future__ import annotations

import argparse
import importlib
import os
import sys
import traceback

from . import common


def _start_watchdog(ctx) -> None:
    """A single call into the real code that runs for minutes, or that makes this process grow by gigabytes, is
    an observation about the real code (on the tree these checks were built against no call takes more than a few
    seconds): it is reported as a violation with the stack as replay instead of letting the check hang until
    somebody kills it.  Only a call that is continuously on the stack is measured — the same FRAME OBJECT, held
    alive here so that its identity cannot be reused — never time spent in the harness, in lake or in children."""
    import threading
    import time
    repo = str(common.REPO) + "/pytato"
    main_id = threading.main_thread().ident
    call_budget = float(os.environ.get("VERIF_CALL_BUDGET_S", "300"))
    rss_budget = float(os.environ.get("VERIF_RSS_BUDGET_GB", "16")) * (1 << 30)
    page = os.sysconf("SC_PAGE_SIZE")

    def outermost_real_frame():
        f = sys._current_frames().get(main_id)
        found, chain = None, []
        while f is not None:
            chain.append(f)
            if f.f_code.co_filename.startswith(repo):
                found = f
            f = f.f_back
        return found, chain

    def loop():
        held, since = None, time.time()
        while True:
            time.sleep(2.0)
            try:
                fr, chain = outermost_real_frame()
                if fr is None or fr is not held:
                    held, since = fr, time.time()
                    continue
                with open("/proc/self/statm") as fh:
                    rss = int(fh.read().split()[1]) * page
                dur = time.time() - since
                why = None
                if dur > call_budget:
                    why = f"has been running for {int(dur)} s"
                elif rss > rss_budget and dur > 20:
                    why = f"has grown this process to {rss / (1 << 30):.1f} GiB"
                if why is None:
                    continue
                k = chain.index(fr)
                caller = chain[k + 1] if k + 1 < len(chain) else None
                inner = chain[0]
                stack = [f"{c.f_code.co_filename}:{c.f_lineno} {c.f_code.co_name}" for c in chain[max(0, k - 12):k + 4]]
                loc = {}
                if caller is not None:
                    for nm, v in list(caller.f_locals.items())[:40]:
                        try:
                            r = repr(v)
                        except Exception:   # noqa: BLE001
                            r = "<unrepresentable>"
                        if len(r) <= 200:
                            loc[nm] = r
                name = f"{fr.f_code.co_filename[len(repo) + 1:]}:{fr.f_code.co_name}"
                ctx.violation(f"resource:real-code-does-not-finish:{name}",
                              f"one call of {name} (from {caller.f_code.co_filename.split('/')[-1] if caller else '?'}:"
                              f"{caller.f_lineno if caller else '?'}) {why}; innermost frame "
                              f"{inner.f_code.co_filename.split('/')[-1]}:{inner.f_lineno} {inner.f_code.co_name}, stack "
                              f"depth {len(chain)} — on the tree this check was built against no call takes more than seconds",
                              {"stack_outer_to_inner": stack[::-1], "caller_locals": loc, "seed": ctx.seed,
                               "budget_s": call_budget, "rss_budget_bytes": rss_budget})
                ctx.coverage["aborted_by_watchdog"] = why
                rc = 1
                try:
                    rc = ctx.finish()
                finally:
                    sys.stdout.flush()
                    os._exit(rc or 1)
            except Exception:   # noqa: BLE001  (the watchdog must never take a healthy check down)
                traceback.print_exc()
                return
    threading.Thread(target=loop, name="verif-watchdog", daemon=True).start()


def main(argv=None) -> int:
    ap = argparse.ArgumentParser()
    ap.add_argument("prop")
    ap.add_argument("--tier", default=os.environ.get("VERIF_TIER", "quick"),
                    choices=["quick", "thorough"])
    ap.add_argument("--replay", default=None)
    args = ap.parse_args(argv)
    prop = args.prop.upper()
    common.setup_repo_import()
    # scratch / cache dirs must be set before loopy is imported
    ctx = common.Ctx(prop=prop, tier=args.tier, seed=common.env_seed())
    sc = ctx.scratch
    os.environ["TMPDIR"] = str(sc)
    os.environ["XDG_CACHE_HOME"] = str(sc / "cache")
    import tempfile
    tempfile.tempdir = str(sc)
    try:
        mod = importlib.import_module(f"harness.props.{prop.lower()}")
    except ModuleNotFoundError as e:
        print(f"no check for property {prop}: {e}", file=sys.stderr)
        return 2
    _start_watchdog(ctx)
    try:
        if args.replay:
            rc = mod.replay(ctx, args.replay)
            import shutil
            shutil.rmtree(sc, ignore_errors=True)
            return rc
        mod.run(ctx)
        return ctx.finish()
    except common.LeanError as e:
        print(f"check infrastructure failure (Lean): {e}", file=sys.stderr)
        import shutil
        shutil.rmtree(sc, ignore_errors=True)
        return 2
    except Exception as e:
        tb = traceback.extract_tb(e.__traceback__)
        repo = str(common.REPO)
        in_pytato = [f for f in tb if f.filename.startswith(repo + "/pytato")]
        traceback.print_exc()
        if in_pytato:
            # the real code raised somewhere the harness does not expect (it does not on the tree this check was
            # built against): the correspondence can no longer be run — reported, with the traceback as replay
            where = in_pytato[-1]
            ctx.broken.append(f"harness-aborted:{type(e).__name__} raised in {where.filename[len(repo) + 1:]}:"
                              f"{where.name}: {str(e)[:120]}")
            ctx.coverage["aborted_traceback"] = traceback.format_exc()[-3000:]
            try:
                return ctx.finish()
            except Exception:   # noqa: BLE001
                traceback.print_exc()
        import shutil
        shutil.rmtree(sc, ignore_errors=True)
        return 2


if __name__ == "__main__":
    sys.exit(main())

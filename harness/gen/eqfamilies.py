"""Deterministic graph families for C04 / C18 that the random DAG generator reaches rarely:
`build(name, tier)` is a pure function (same labels and graphs in every interpreter,
whatever the hash seed), so fresh interpreters can rebuild them from the name alone.

  callables   traced calls whose callable is a def, a lambda, a functools.partial, a callable
              instance, a bound method, a functools.wraps wrapper, a builtin; with the default,
              an explicit and no identifier.  Each label yields TWO graphs built from two
              separately created, equal callable objects.
  einsums     an exhaustive small family of einsum specifications (1..3 operands, <= 4
              letters, every assignment of letters to operand axes up to renaming incl.
              repeated letters and several new reduction letters in one operand, every subset
              of letters as output in two orders) + three consistent RENAMINGS of each.
"""
from __future__ import annotations

import functools
import itertools
import operator

import numpy as np

# ------------------------------------------------------------------ callables


def _scale(a, factor=2.0):
    return a * factor + 1


class _Scale:
    def __init__(self, factor):
        self.factor = factor

    def __call__(self, a):
        return a * self.factor + 1

    def method(self, a):
        return a * self.factor - 1


def _decorate(f):
    @functools.wraps(f)
    def wrapper(*a, **kw):
        return f(*a, **kw)
    return wrapper


@_decorate
def _wrapped(a):
    return a * 3 - 2


def _make_callables():
    """label -> thunk creating a NEW callable object (equal to the one of every other invocation)"""
    return {
        "def": lambda: _scale,
        "lambda": lambda: (lambda a: a * 2.0 + 1),
        "partial": lambda: functools.partial(_scale, factor=2.5),
        "partial-of-partial": lambda: functools.partial(functools.partial(_scale), factor=0.5),
        "callable-instance": lambda: _Scale(1.5),
        "bound-method": lambda: _Scale(1.5).method,
        "wraps-wrapper": lambda: _wrapped,
        "builtin": lambda: operator.neg,
        "partial-of-builtin": lambda: functools.partial(operator.mul, 3),
    }


def callables(tier="quick"):
    import pytato as pt
    x = pt.make_placeholder("x", (3,), np.float64)
    out = []
    for lbl, mk in _make_callables().items():
        for idmode in ("default", "explicit", "none"):
            graphs = []
            for _ in range(2):
                f = mk()
                kw = {} if idmode == "default" else {"identifier": "my_ident" if idmode == "explicit" else None}
                r = pt.trace_call(f, x, **kw)
                graphs.append(pt.make_dict_of_named_arrays({"o": r}))
            out.append((f"{lbl}:{idmode}-identifier", graphs[0], graphs[1]))
    return out


# ------------------------------------------------------------------ einsums

ALPHA = "abcd"


def _rgs(length, maxk):
    """restricted growth strings: letters numbered by first appearance"""
    def rec(prefix, used):
        if len(prefix) == length:
            yield tuple(prefix)
            return
        for k in range(min(used + 1, maxk)):
            yield from rec([*prefix, k], max(used, k + 1))
    yield from rec([], 0)


def einsum_specs(tier="quick"):
    """[(operand subscripts, output subscript)] in canonical letters a, b, c, d (first appearance)"""
    ranks = []
    for r in range(0, 4):
        ranks.append((r,))
    for r1, r2 in itertools.product(range(0, 4), repeat=2):
        if r1 + r2 >= 1:
            ranks.append((r1, r2))
    for rs in itertools.product(range(0, 3), repeat=3):
        if sum(rs) >= 2 and (tier != "quick" or sum(rs) <= 5):
            ranks.append(rs)
    specs = []
    for rs in ranks:
        total = sum(rs)
        for g in _rgs(total, 4):
            ops, pos = [], 0
            for r in rs:
                ops.append("".join(ALPHA[k] for k in g[pos:pos + r]))
                pos += r
            used = "".join(dict.fromkeys("".join(ops)))
            for m in range(len(used) + 1):
                for sub in itertools.combinations(used, m):
                    o = "".join(sub)
                    specs.append((tuple(ops), o))
                    if len(o) >= 2:
                        specs.append((tuple(ops), o[::-1]))
    # quick tier: the structurally interesting part — drop specs without any reduction letter when large
    if tier == "quick":
        specs = [s for s in specs if len(s[0]) == 1 or len("".join(s[0])) <= 5
                 or len(set("".join(s[0])) - set(s[1])) >= 2]
    extra = [(("abc", "bc"), "a"), (("ab", "ab"), ""), (("abc", "bdc", "bdc"), "da"), (("abcd",), "a"),
             (("abcd", "dcba"), ""), (("aab", "bcc"), "")]
    for e in extra:
        if e not in specs:
            specs.append(e)
    return specs


RENAMINGS = {
    "order-preserving": dict(zip(ALPHA, "pqrs")),
    "order-reversing": dict(zip(ALPHA, "zyxw")),
    "scrambled": dict(zip(ALPHA, "mczA")),
    "pytato-style": dict(zip(ALPHA, "ifje")),
}


def spec_text(ops, out, ren=None):
    r = (lambda s: "".join(ren[c] for c in s)) if ren else (lambda s: s)
    return ",".join(r(o) for o in ops) + "->" + r(out)


def reference_descriptors(ops, out):
    """my own normalisation: output letters are element-wise axes numbered by output position; every
    other letter is a reduction axis numbered by FIRST APPEARANCE (operands left to right)"""
    descr, nred = {}, 0
    for i, c in enumerate(out):
        descr[c] = ("e", i)
    for o in ops:
        for c in o:
            if c not in descr:
                descr[c] = ("r", nred)
                nred += 1
    return tuple(tuple(descr[c] for c in o) for o in ops)


def real_descriptors(e):
    from pytato.array import EinsumElementwiseAxis
    return tuple(tuple(("e" if isinstance(d, EinsumElementwiseAxis) else "r", d.dim) for d in op)
                 for op in e.access_descriptors)


def build_einsum(ops, out, ren=None):
    import pytato as pt
    args = [pt.make_placeholder(f"x{i}", (2,) * len(o), np.float64) for i, o in enumerate(ops)]
    return pt.einsum(spec_text(ops, out, ren), *args)


def einsums(tier="quick"):
    """[(label, graph)] — the base spelling of every spec"""
    out = []
    for ops, o in einsum_specs(tier):
        out.append((spec_text(ops, o), build_einsum(ops, o)))
    return out


# ------------------------------------------------------------------ graphs for key histories

def fresh_kernel(which="axpb"):
    """a NEW loopy kernel object (nothing cached on it yet), with inames, a value argument, two outputs"""
    import loopy as lp
    f64 = np.float64

    def vec(name, out=False):
        return lp.GlobalArg(name, dtype=f64, shape=(4,), is_input=not out)
    if which == "twice":
        return lp.make_kernel("{[i]: 0<=i<4}", "out[i] = 2*a[i]", [vec("a"), vec("out", True)],
                              name="twice", lang_version=(2018, 2))
    return lp.make_kernel(
        "{[i, j]: 0<=i<4 and 0<=j<3}", "out[i] = alpha*a[i] + sum(j, b[i]*j)\nout2[i] = a[i] - b[i]",
        [vec("a"), vec("b"), lp.ValueArg("alpha", dtype=f64), vec("out", True), vec("out2", True)],
        name="axpb", lang_version=(2018, 2))


def history_builders():
    """label -> thunk building a NEW graph (new node objects, new kernels) every time"""
    import pytato as pt
    from pytato.distributed.nodes import make_distributed_recv, staple_distributed_send
    from pytato.loopy import call_loopy

    from . import kinds

    def ph(n, shape=(4,)):
        return pt.make_placeholder(n, shape, np.float64)

    def loopy1():
        lc = call_loopy(fresh_kernel("axpb"), {"a": ph("a") * 2, "b": ph("b"), "alpha": 0.5})
        return pt.make_dict_of_named_arrays({"o": lc["out"] + 1, "p": lc["out2"]})

    def loopy2():
        r = call_loopy(fresh_kernel("twice"), {"a": ph("a")})["out"]
        return call_loopy(fresh_kernel("twice"), {"a": r.tagged(kinds.VFooTag())})["out"]

    def calls():
        def f(u, v):
            return {"s": pt.sin(u) + v, "t": u * v}
        r = pt.trace_call(f, ph("x"), ph("y") + 1)
        return pt.make_dict_of_named_arrays({"a": r["s"], "b": pt.trace_call(f, r["t"], ph("x"))["s"]})

    def data():
        d = pt.make_data_wrapper(np.arange(4.0)).tagged(kinds.VBarTag())
        return (d + ph("x")).with_tagged_axis(0, kinds.VFooTag()) * pt.make_data_wrapper(np.float64(2.5))

    def dist():
        r = make_distributed_recv(1, 7, (4,), np.float64)
        return staple_distributed_send(r * 2, 2, 9, stapled_to=r + ph("x"))

    def mixed():
        lc = call_loopy(fresh_kernel("twice"), {"a": pt.make_data_wrapper(np.ones(4))})["out"]
        return pt.make_dict_of_named_arrays({"l": lc, "e": pt.einsum("i,i->", lc, ph("x")),
                                             "r": pt.reshape(pt.stack([lc, ph("x")]), (2, 2, 2), order="F")})
    return {"loopy-call-two-results": loopy1, "loopy-call-chain": loopy2, "function-calls": calls,
            "data-wrappers-and-tags": data, "distributed": dist, "mixed": mixed}


def kind_instances():
    """[(spec name, node)] one instance of every node kind (harness.gen.kinds + the extra instances of
    extract/eqtable), DistributedSend included; deterministic"""
    from ..extract import eqtable
    return [(k, sp.base) for k, sp in sorted(eqtable.all_specs().items())]


def build(name, tier="quick"):
    if name == "kind-instances":
        return [(k, b, b) for k, b in kind_instances()]
    if name == "history-graphs":
        return [(lbl, g, g) for lbl, g in ((k, th()) for k, th in history_builders().items())]
    """[(label, graph, …)]"""
    if name == "callables":
        return callables(tier)
    if name == "einsums":
        return [(lbl, g, g) for lbl, g in einsums(tier)]
    raise KeyError(name)

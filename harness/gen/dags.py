"""Graph families for C13 / C20, all built through pytato's public API:
diamonds, ladders (2^depth paths), one node used through every kind of edge,
structurally equal duplicates, and seeded random DAGs (symbolic shapes,
multi-output dictionaries, functions, distributed nodes, duplicates)."""
from __future__ import annotations

import random
from typing import Any, Callable

import numpy as np

F64 = np.dtype("float64")
I64 = np.dtype("int64")


def _pt():
    import pytato as pt
    return pt


def diamond(tag=None):
    """out = (x+1) * (x+1 shared) … x reached over 2 paths, s over 2 paths"""
    pt = _pt()
    x = pt.make_placeholder("x", (4, 4), F64)
    s = x + 1
    if tag is not None:
        s = s.tagged(tag)
    a = pt.roll(s, 1, 0)
    b = pt.transpose(s, (1, 0))
    return a * b


def ladder(depth: int, name: str = "x", tag=None, tag_every: int = 3):
    """depth rungs; rung k has two distinct nodes both using both nodes of rung k-1:
    2^depth paths from the top to the leaf, 2*depth+2 nodes"""
    pt = _pt()
    x = pt.make_placeholder(name, (4, 4), F64)
    a, b = x, x
    for k in range(depth):
        na = a + b
        nb = a * b
        if tag is not None and k % tag_every == 0:
            na = na.tagged(tag)
        a, b = na, nb
    return a - b


def ladder_dict(depth: int, **kw):
    pt = _pt()
    top = ladder(depth, **kw)
    return pt.make_dict_of_named_arrays({"top": top, "again": top, "half": top.bindings["_in0"]})


def every_edge_kind(with_loopy: bool = False):
    """ONE int array `u` used through every kind of array edge, and ONE size parameter `n`
    used through every kind of shape edge; everything collected in one dictionary"""
    pt = _pt()
    from pytato.distributed.nodes import make_distributed_recv, staple_distributed_send
    from pytato.function import trace_call
    u = pt.make_placeholder("u", (4,), I64)
    n = pt.make_size_param("n")
    y = pt.make_placeholder("y", (4, 4), F64)
    outs: dict[str, Any] = {}
    outs["operand"] = u + u                                    # IndexLambda bindings (twice)
    outs["roll"] = pt.roll(u, 1, 0)
    outs["reshape"] = pt.reshape(u, (2, 2))
    outs["perm"] = pt.transpose(pt.reshape(u, (2, 2)), (1, 0))
    outs["basic"] = u[1:3]
    outs["adv_operand_and_index"] = u[u % 4]                   # operand and (derived) index
    outs["adv_index"] = y[u % 4]
    outs["adv_noncontig"] = pt.make_placeholder("t", (4, 3, 4), F64)[u % 4, :, u % 4]
    outs["stack"] = pt.stack([u, u], axis=0)
    outs["concat"] = pt.concatenate([u, u], axis=0)
    outs["einsum"] = pt.einsum("i,i->", u, u)
    uf = pt.make_placeholder("uf", (4,), F64)
    mat = pt.make_csr_matrix((3, 4), uf, u % 4, u[:4] * 0 + pt.make_placeholder("rs", (4,), I64))
    outs["csr"] = mat @ uf
    mat2 = pt.make_csr_matrix((3, 4), u, u, u)                 # u as all three CSR parts
    outs["csr_all"] = mat2 @ u
    outs["send"] = staple_distributed_send(u, dest_rank=1, comm_tag=5, stapled_to=u)
    outs["recv"] = make_distributed_recv(src_rank=1, comm_tag=6, shape=(n, 4), dtype=F64)
    # a send stapled to a stored-tagged array (the holder inherits the tags of what it passes through)
    from pytato.tags import ImplStored
    outs["send_stored"] = staple_distributed_send(u * 3, dest_rank=2, comm_tag=8,
                                                   stapled_to=(u + 2).tagged(ImplStored()))

    def f(a, b):
        return {"o1": a + b, "o2": a * 2}
    res = trace_call(f, u, u)
    outs["call_o1"] = res["o1"]
    outs["call_o2"] = res["o2"]
    # size parameter through every kind of shape edge
    ps = pt.make_placeholder("ps", (n, 4), F64)
    outs["sym_placeholder"] = ps
    outs["sym_il"] = ps + ps
    outs["sym_dw"] = pt.make_data_wrapper(np.zeros((5, 4)), shape=(n, 4))
    outs["sym_slice"] = ps[:, 0]
    outs["sym_stack"] = pt.stack([ps, ps], axis=0)
    outs["sym_concat"] = pt.concatenate([ps, ps], axis=1)
    outs["sym_einsum"] = pt.einsum("ij,ij->i", ps, ps)
    outs["sym_sum"] = pt.sum(ps, axis=1)
    outs["n_itself"] = n
    inner = pt.make_dict_of_named_arrays({"a": u + 1, "b": u})
    outs["named"] = inner["a"]
    if with_loopy:
        from pytato.loopy import call_loopy
        from .kinds import _lp_knl
        knl, _ = _lp_knl()
        outs["loopy"] = call_loopy(knl, {"a": pt.make_placeholder("a4", (4,), F64)})["out"]
    return pt.make_dict_of_named_arrays(outs)


def duplicated(build: Callable[[], Any]):
    """two structurally equal but distinct copies of a graph, side by side"""
    pt = _pt()
    g1, g2 = build(), build()
    from pytato.array import Array
    if isinstance(g1, Array):
        return pt.make_dict_of_named_arrays({"a": g1, "b": g2})
    d = {f"a_{k}": v for k, v in g1._data.items()}
    d.update({f"b_{k}": v for k, v in g2._data.items()})
    return pt.make_dict_of_named_arrays(d)


# --------------------------------------------------------------------------
# seeded random DAGs
# --------------------------------------------------------------------------

def random_dag(rng: random.Random, size: int = 25, *, symbolic=True, functions=True,
               distributed=True, duplicates=True, tags=(), n_outputs: int | None = None):
    """a DictOfNamedArrays (or a single Array when n_outputs == 0) over (4,4) float arrays
    ("C" family) and (n,4) arrays ("S" family)"""
    pt = _pt()
    from pytato.distributed.nodes import make_distributed_recv, staple_distributed_send
    from pytato.function import trace_call
    from pytato.tags import ImplStored
    n = pt.make_size_param("n")
    made: dict[str, int] = {}
    pool: dict[str, list] = {"C": [], "S": []}
    extras: list = []                                       # arrays of other shapes: outputs only

    def leaf(fam):
        k = made.setdefault("leaf", 0)
        made["leaf"] += 1
        c = rng.random()
        shape = (4, 4) if fam == "C" else (n, 4)
        if c < 0.2:
            return pt.make_data_wrapper(np.arange(20, dtype=np.float64).reshape(5, 4)[:4] + k,
                                        shape=shape)
        if c < 0.3 and distributed:
            return make_distributed_recv(src_rank=rng.randint(0, 3), comm_tag=100 + k,
                                         shape=shape, dtype=F64)
        return pt.make_placeholder(f"p{k}", shape, F64)

    idx = pt.make_placeholder("ridx", (4,), I64)
    for fam in ("C", "S") if symbolic else ("C",):
        for _ in range(2):
            pool[fam].append(leaf(fam))

    def pick(fam):
        return rng.choice(pool[fam])

    def step():
        fam = "S" if (symbolic and rng.random() < 0.3) else "C"
        a, b = pick(fam), pick(fam)
        ops = ["add", "mul", "roll", "sumbc", "leaf", "tag"]
        if fam == "C":
            ops += ["adv", "stack", "concat", "transpose", "reshape", "einsum", "csr", "slice"]
        else:
            # these give shapes derived from `n` (not `n` itself): outputs only
            ops += ["symslice", "symadv", "symstack", "symconcat", "symeinsum"]
        if functions:
            ops.append("call")
        if distributed:
            ops.append("send")
        op = rng.choice(ops)

        def build(op=op, a=a, b=b, fam=fam, shift=rng.randint(1, 3), which=rng.random()):
            if op == "add":
                return a + b
            if op == "mul":
                return a * b
            if op == "roll":
                return pt.roll(a, shift, 1)
            if op == "transpose":
                return pt.transpose(a, (1, 0))
            if op == "reshape":
                return pt.reshape(pt.reshape(a, (16,)), (4, 4))
            if op == "adv":
                return a[:, idx] if fam == "S" else a[idx]
            if op == "slice":
                return pt.concatenate([a, b], axis=0)[2:6]
            if op == "symslice":
                return a[:, 0:2] * b[:, 1:3]
            if op == "symadv":
                return a[:, idx]
            if op == "symstack":
                return pt.stack([a, b], axis=0)
            if op == "symconcat":
                return pt.concatenate([a, b], axis=1)
            if op == "symeinsum":
                return pt.einsum("ij,ij->i", a, b)
            if op == "stack":
                return pt.stack([a, b], axis=0)[0]
            if op == "concat":
                return pt.concatenate([a, b], axis=1)[:, 2:6]
            if op == "einsum":
                return pt.einsum("ij,jk->ik", a, b)
            if op == "csr":
                ev = pt.make_placeholder("ev", (6,), F64)
                ec = pt.make_placeholder("ec", (6,), I64)
                rs = pt.make_placeholder("rs", (5,), I64)
                return pt.make_csr_matrix((4, 4), ev, ec, rs) @ a
            if op == "sumbc":
                if fam == "C":
                    return a + pt.sum(b, axis=1).reshape(4, 1)
                sb = pt.sum(b, axis=1)
                return a * pt.stack([sb, sb, sb, sb], axis=1)
            if op == "leaf":
                return leaf(fam)
            if op == "tag":
                t = rng.choice(list(tags) + [ImplStored()]) if which < 0.7 or not tags else tags[0]
                return (a + b).tagged(t)
            if op == "call":
                def f(p, q):
                    r = p * q
                    return {"o1": r + p, "o2": pt.roll(r, 1, 1)}
                f.__name__ = f"fn{shift}"
                res = trace_call(f, a, b)
                return res["o1"] + res["o2"] if which < 0.5 else res["o1"]
            if op == "send":
                return staple_distributed_send(a, dest_rank=shift, comm_tag=200 + shift, stapled_to=b)
            raise AssertionError(op)
        node = build()
        dest = extras if op.startswith("sym") else pool[fam]
        dest.append(node)
        if duplicates and rng.random() < 0.12 and op not in ("leaf",):
            dest.append(build())           # an equal but distinct object
    for _ in range(size):
        step()
    if n_outputs is None:
        n_outputs = rng.randint(1, 4)
    cands = (pool["C"][2:] + pool["S"][2:] + extras) or pool["C"]
    rng.shuffle(cands)
    if n_outputs == 0:
        return cands[-1]
    outs = {f"out{i}": rng.choice(cands[-8:]) for i in range(n_outputs)}
    outs["last"] = cands[-1]
    return pt.make_dict_of_named_arrays(outs)


# --------------------------------------------------------------------------
# nested, shared functions
# --------------------------------------------------------------------------

def _call(fdef, *args):
    """a NEW call site of an EXISTING FunctionDefinition object (trace_call would make a new,
    merely equal, definition)"""
    names = sorted(fdef.parameters)
    assert len(names) == len(args)
    return fdef(**dict(zip(names, args)))


def _fdef_of(named_result):
    return named_result._container.function


def nested_calls(depth: int = 2, order: str = "outer-first", repeat: int = 2, tag=None):
    """Traced functions calling traced functions: `f1` (innermost) is called from inside `f2`'s body
    (several times, different arguments), `f2` from inside `f3`'s body, … up to `depth`; the SAME
    definitions are also called at top level, `repeat` times with different arguments.
    `order`: which the traversal of the output dictionary meets first —
      "outer-first": the outermost function (so inner definitions are first met inside a body),
      "inner-first": the innermost function at top level (so bodies later hit cached definitions),
      "mixed": alternating.
    No array is shared between namespaces (concrete shapes, no data wrappers)."""
    pt = _pt()
    from pytato.function import trace_call
    xs = [pt.make_placeholder(f"nx{i}", (4, 4), F64) for i in range(4)]

    def f1(a):
        r = a * 2 + 1
        if tag is not None:
            r = r.tagged(tag)
        return {"o": r, "p": pt.roll(r, 1, 0)}
    _sh: dict = {}

    def shifted(i, rep):                 # one object per distinct argument expression
        return _sh.setdefault((i, rep), xs[i] + rep)
    top: dict[str, list] = {}
    r1 = trace_call(f1, xs[0])
    defs = [_fdef_of(r1["o"])]
    top["f1"] = [r1["o"], r1["p"]]
    for lvl in range(2, depth + 1):
        inner = defs[-1]
        ninner = len(inner.parameters)

        def body(a, b, inner=inner, ninner=ninner, lvl=lvl):
            def ci(*args):
                return _call(inner, *args[:ninner])
            c1 = ci(a, b)             # same inner definition, three call sites, different arguments
            c2 = ci(b, a)
            c3 = ci(a + b, a)
            s = c1["o"] + c2["p"] * c3["o"]
            if tag is not None and lvl % 2 == 0:
                s = s.tagged(tag)
            return {"o": s, "p": c1["o"] - c3["p"]}
        body.__name__ = f"f{lvl}"
        r = trace_call(body, xs[lvl % 4], xs[(lvl + 1) % 4])
        defs.append(_fdef_of(r["o"]))
        top[f"f{lvl}"] = [r["o"], r["p"]]
    # repeated top-level calls of every definition with different arguments
    for k, d in enumerate(defs):
        n = len(d.parameters)
        for rep in range(1, repeat):
            args = [shifted((k + rep + j) % 4, rep) for j in range(n)]
            c = _call(d, *args)
            top[f"f{k + 1}"] += [c["o"] * (rep + 1)]
    names = [f"f{k + 1}" for k in range(len(defs))]
    if order == "outer-first":
        names = names[::-1]
    elif order == "mixed":
        names = names[1::2] + names[0::2]
    outs = {}
    for nm in names:
        for j, a in enumerate(top[nm]):
            outs[f"{len(outs):02d}_{nm}_{j}"] = a
    return pt.make_dict_of_named_arrays(outs)


# --------------------------------------------------------------------------
# two DISTINCT inputs with EQUAL results, the later one shared by several users
# --------------------------------------------------------------------------

def twin_graph(mode: str = "tag", order: str = "plain-first", fan: int = 3, levels: int = 2, tag=None):
    """Per level: `plain = base + 1` and its twin — `mode="tag"`: the same expression carrying `tag`
    (unequal now, equal once the tag is stripped); `mode="dup"`: a structurally equal distinct object.
    Each of the two is used by `fan` different users and reached over several paths (directly from
    the output dictionary, through a node that uses it twice, through users of users).
    `order` decides which of the two a left-to-right traversal meets first."""
    pt = _pt()
    x = pt.make_placeholder("tw", (4, 4), F64)
    base = x
    outs = {}
    for lvl in range(levels):
        plain = base + 1
        twin = base + 1
        if mode == "tag":
            twin = twin.tagged(tag)
        up = [plain * (k + 2) for k in range(fan)]
        ut = [twin * (k + 12) for k in range(fan)]
        jp = up[0] + up[1] if fan > 1 else up[0] + plain
        jt = ut[0] + ut[1] if fan > 1 else ut[0] + twin
        twice_t = twin - twin                      # one user, two edges to the twin
        twice_p = plain - plain
        if order == "plain-first":
            sides = [("p", plain, up, jp, twice_p), ("t", twin, ut, jt, twice_t)]
        else:
            sides = [("t", twin, ut, jt, twice_t), ("p", plain, up, jp, twice_p)]
        for nm, node, users, join, twice in sides:
            outs[f"{len(outs):02d}_l{lvl}{nm}_direct"] = node
            outs[f"{len(outs):02d}_l{lvl}{nm}_twice"] = twice
            for k, u in enumerate(users[2:]):
                outs[f"{len(outs):02d}_l{lvl}{nm}_u{k}"] = u
            outs[f"{len(outs):02d}_l{lvl}{nm}_join"] = join
        a, b = (jp, jt) if order == "plain-first" else (jt, jp)
        base = a * b                                # _in0 is met first
    outs[f"{len(outs):02d}_top"] = base
    return pt.make_dict_of_named_arrays(outs)


# --------------------------------------------------------------------------
# reconverging ladders through every edge class
# --------------------------------------------------------------------------

EDGE_LADDERS = ["bind", "index", "index-expr", "stack", "concatenate", "where", "shape", "call", "send",
                "einsum", "remap", "csr", "container", "newaxis-basic"]


def edge_ladder(cls: str, depth: int, name: str = "e"):
    """A ladder of `depth` rungs whose rungs reconverge THROUGH the given edge class: every rung uses
    the previous rung over (at least) two paths, one of them through an edge of class `cls`, so the
    number of paths to the bottom is >= 2^depth while the number of nodes is linear in `depth`.
    Returns one root (Array or DictOfNamedArrays); all built through the public API."""
    pt = _pt()
    from pytato.distributed.nodes import make_distributed_recv, staple_distributed_send
    from pytato.function import trace_call
    if cls in ("index", "index-expr", "csr"):
        a = pt.make_placeholder(name + "i", (4,), I64)
        b = pt.make_placeholder(name + "f", (4,), F64)
    elif cls == "shape":
        a = pt.make_size_param(name + "n")
        b = pt.make_size_param(name + "m")
        arrs = []
    else:
        a = pt.make_placeholder(name, (4, 4), F64)
        b = pt.make_placeholder(name + "2", (4, 4), F64) if cls in ("stack", "concatenate", "einsum", "where") else a
    fdef = None
    for k in range(depth):
        if cls == "bind":
            a, b = a + b, a * b
        elif cls == "index":
            a = a[a % 4]                               # operand AND (through a % 4) index of the same node
        elif cls == "index-expr":
            a = a[(a + 1) % 4]
        elif cls == "stack":
            a, b = pt.stack([a, b], axis=0)[0] + a, pt.stack([b, a], axis=0)[1] * b
        elif cls == "concatenate":
            # (+ a / * b: an IndexLambda STORES its shape; Concatenate / BasicIndex derive theirs from
            # their operands on every access, which is itself per-path — see the C13 report)
            a, b = pt.concatenate([a, b], axis=0)[0:4] + a, pt.concatenate([b, a], axis=0)[2:6] * b
        elif cls == "where":
            a, b = pt.where(pt.greater(a, b), a, b), pt.where(pt.greater(b, 1), b, a)
        elif cls == "shape":
            # shape components may only depend on size parameters: the ladder is a ladder of scalar
            # size expressions, and EVERY rung is also the (stored) shape component of two arrays
            sm = a + b
            a, b = sm, sm + 1
            arrs += [pt.make_placeholder(f"{name}p{k}", (a, 4), F64) + pt.make_placeholder(f"{name}q{k}", (a, 4), F64),
                     make_distributed_recv(src_rank=0, comm_tag=2000 + k, shape=(b, 4), dtype=F64)]
        elif cls == "call":
            if fdef is None:
                def f(p, q):
                    return {"o1": p + q, "o2": p * q}
                r = trace_call(f, a, b)
                fdef = r["o1"]._container.function
            else:
                r = _call(fdef, a, b)
            a, b = r["o1"], r["o2"]
        elif cls == "send":
            a, b = staple_distributed_send(a, dest_rank=1, comm_tag=1000 + k, stapled_to=b), a - b
        elif cls == "einsum":
            a, b = pt.einsum("ij,ij->ij", a, b), pt.einsum("ij,jk->ik", b, a)
        elif cls == "remap":
            a, b = (pt.roll(a, 1, 0) + pt.transpose(b, (1, 0)),
                    pt.reshape(pt.reshape(a, (16,)), (4, 4)) * pt.roll(b, 2, 1))
        elif cls == "csr":
            rs = pt.concatenate([a, a[0:1]], axis=0)      # 5 row starts
            am = a % 4
            b = pt.make_csr_matrix((4, 4), b, am, rs) @ b
            a = a[am]
        elif cls == "container":
            d = pt.make_dict_of_named_arrays({"x": a, "y": b})
            a, b = d["x"] * d["y"], d["y"] + d["x"]
        elif cls == "newaxis-basic":
            a, b = (a + b)[0:4, 0:4], (a * b)[::1, ::-1]
        else:
            raise ValueError(cls)
    if cls in ("index", "index-expr"):
        return a
    if cls == "shape":
        return pt.make_dict_of_named_arrays({f"o{i}": x for i, x in enumerate(arrs)})
    return pt.make_dict_of_named_arrays({"a": a, "b": b})

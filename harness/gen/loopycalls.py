"""Graphs that call loopy kernels (pt.call_loopy): the part of code generation that keeps a table of callee kernels
(names seen, renames on clashes).  `generate(j)` is deterministic in j; `history_graph(w)` are unrelated graphs whose
callees have the SAME names as the ones of `generate` but different bodies — code generated for them earlier in the
process must leave no trace in what `generate(j)` produces afterwards."""
from __future__ import annotations

import numpy as np

COUNT = 10


def _knl(name: str, body: str, n: int = 4, extra_out: bool = False):
    import loopy as lp
    from pytato.target.loopy import LoopyPyOpenCLTarget
    args = [lp.GlobalArg("a", dtype=np.float64, shape=(n,)),
            lp.GlobalArg("y", dtype=np.float64, shape=(n,), is_input=False)]
    insns = [f"y[i] = {body}"]
    if extra_out:
        args.append(lp.GlobalArg("z", dtype=np.float64, shape=(n,), is_input=False))
        insns.append("z[i] = a[i] - 1")
    return lp.make_kernel(f"{{[i]: 0<=i<{n}}}", insns, args, name=name, lang_version=(2018, 2),
                          target=LoopyPyOpenCLTarget().get_loopy_target())


def history_graph(w: int):
    import pytato as pt
    from pytato.loopy import call_loopy
    u = pt.make_placeholder("h", (4,), np.float64)
    bodies = ["7*a[i] - 3", "a[i]*a[i]"]
    r = call_loopy(_knl("callee", bodies[w % 2]), {"a": u}, "callee")["y"]
    r2 = call_loopy(_knl("twice", "a[i] + 11"), {"a": r}, "twice")["y"]
    return pt.make_dict_of_named_arrays({"hout": r2 + 1})


def generate(j: int):
    import pytato as pt
    from pytato.loopy import call_loopy
    from pytato.tags import ImplStored, PrefixNamed
    j = j % COUNT
    u = pt.make_placeholder("u", (4,), np.float64)
    v = pt.make_placeholder("v", (4,), np.float64)
    kA = _knl("callee", "2*a[i] + 1")
    kB = _knl("callee", "3*a[i] - 2")          # same name, different kernel: must be renamed on a clash
    kT = _knl("twice", "2*a[i]")
    kZ = _knl("callee", "a[i] + 5", extra_out=True)
    if j == 0:
        return pt.make_dict_of_named_arrays({"out": 5 * call_loopy(kA, {"a": u}, "callee")["y"]})
    if j == 1:
        return pt.make_dict_of_named_arrays({"out": call_loopy(kA, {"a": u}, "callee")["y"]
                                             + call_loopy(kB, {"a": v}, "callee")["y"]})
    if j == 2:
        return pt.make_dict_of_named_arrays({"p": call_loopy(kA, {"a": u}, "callee")["y"] * 2,
                                             "q": call_loopy(kA, {"a": v}, "callee")["y"] + 1})
    if j == 3:
        t = (call_loopy(kT, {"a": u + v}, "twice")["y"] + 1).tagged((ImplStored(), PrefixNamed("mid")))
        return pt.make_dict_of_named_arrays({"out": t * 3, "mid_out": t})
    if j == 4:
        c = call_loopy(kZ, {"a": u}, "callee")
        return pt.make_dict_of_named_arrays({"o1": c["y"] + c["z"], "o2": c["z"] * v})
    if j == 5:
        inner = call_loopy(kA, {"a": u}, "callee")["y"]
        return pt.make_dict_of_named_arrays({"out": call_loopy(kT, {"a": inner}, "twice")["y"] - v})
    if j == 6:
        inner = call_loopy(kB, {"a": u}, "callee")["y"]
        return pt.make_dict_of_named_arrays({"out": call_loopy(kA, {"a": inner * v}, "callee")["y"]})
    if j == 7:
        return pt.make_dict_of_named_arrays({"b": call_loopy(kB, {"a": v}, "callee")["y"],
                                             "a": call_loopy(kA, {"a": u}, "callee")["y"],
                                             "t": call_loopy(kT, {"a": u}, "twice")["y"]})
    if j == 8:
        c = call_loopy(kZ, {"a": u * 2}, "callee")
        d = call_loopy(kA, {"a": c["z"]}, "callee")
        return pt.make_dict_of_named_arrays({"out": d["y"] + c["y"]})
    t = call_loopy(kT, {"a": u}, "twice")["y"]
    return pt.make_dict_of_named_arrays({"out": pt.sum(t) + call_loopy(kT, {"a": t}, "twice")["y"]})

"""gen/multiout.py — multi-output programs whose outputs are sub-expressions of other outputs
(C17): k mutually independent outputs plus outputs that combine several of them (and outputs
that combine those), under several naming schemes whose string hashes order differently.
`generate(index)` is deterministic; `COUNT` programs."""
from __future__ import annotations

import itertools

import numpy as np

_SCHEMES = {
    "greek": ["alpha", "bravo", "charlie", "delta", "echo", "foxtrot"],
    "letters": ["q", "e", "z", "a", "m", "c"],
    "numbered": ["out_5", "out_4", "out_3", "out_2", "out_1", "out_0"],
    "mixed": ["u", "velocity", "T", "rho_e", "p2", "momentum_x"],
}
_SHAPES = ["total", "pairs", "layers"]
_CASES = [(k, scheme, shape) for k, scheme, shape in itertools.product((2, 3, 4, 5, 6), sorted(_SCHEMES), _SHAPES)]
COUNT = len(_CASES)


def describe(index):
    k, scheme, shape = _CASES[index % COUNT]
    return {"independent_outputs": k, "names": scheme, "combinations": shape}


def generate(index):
    import pytato as pt
    k, scheme, shape = _CASES[index % COUNT]
    names = _SCHEMES[scheme][:k]
    x = pt.make_placeholder("x", (4,), np.float64)
    y = pt.make_placeholder("y", (4,), np.float64)
    base = [x * float(j + 2) + y * float(j % 3 + 1) if j % 2 == 0 else y * float(j + 3) - x for j in range(k)]
    outs = dict(zip(names, base))
    if shape == "total":
        # one output using all k others
        acc = base[0]
        for b in base[1:]:
            acc = acc + b
        outs["total"] = acc
    elif shape == "pairs":
        # every pair of outputs combined into a further output; then one output using all pairs
        pairs = []
        for (i, a), (j, b) in itertools.combinations(enumerate(base), 2):
            if len(pairs) >= 4:
                break
            pairs.append(a * b)
            outs[f"{names[i]}_x_{names[j]}"] = pairs[-1]
        acc = pairs[0]
        for pz in pairs[1:]:
            acc = acc + pz
        outs["sum_of_pairs"] = acc + base[-1]
    else:
        # layers: users of users — s1 uses two outputs, s2 uses s1 and a third, grand uses all
        s1 = base[0] + base[-1]
        outs["s1"] = s1
        s2 = s1 * base[len(base) // 2]
        outs["s2"] = s2
        acc = s2
        for b in base:
            acc = acc - b
        outs["grand"] = acc + s1
    # dict insertion order varies with the index, too
    items = list(outs.items())
    if (index // COUNT + index) % 2:
        items = items[::-1]
    return pt.make_dict_of_named_arrays(dict(items))

"""Seeded random expression DAGs over the public pytato API for C04 / C18:
every node kind incl. named results, function calls, loopy calls, sparse
products and distributed nodes, with sharing; plus one-field mutations at a
random node.  `build(seed, i)` is a pure function of its arguments (no set/dict
iteration, no ids), so another interpreter with another PYTHONHASHSEED rebuilds
the very same graph from the recipe (seed, i)."""
from __future__ import annotations

import dataclasses
import random
from typing import Any, Callable

import numpy as np

from . import kinds

SHAPES = [(4, 3), (4,), (3,), (4, 4), (3, 4), (2, 6), (12,), (4, 1)]
DTYPES = ["float64", "float64", "int64", "float32"]


def _fn_addmul(a, b):
    return {"o1": a + b, "o2": a * 2}


def _fn_sub(a, b):
    return {"o1": a - b, "o2": b}


def _fn_single(a, b):
    return a * b + 1


def _fn_tuple(a, b):
    return (a + 1, b - a)


FUNCS = [_fn_addmul, _fn_sub, _fn_single, _fn_tuple]


class DagGen:
    def __init__(self, seed: int, with_loopy=True, with_data=True, nops=None):
        self.rng = random.Random(seed)
        self.with_loopy = with_loopy
        self.with_data = with_data
        self.pool: list[Any] = []
        self.nleaf = 0
        self.nops = nops
        self.n = None

    # ---- leaves ---------------------------------------------------------
    def leaf(self, shape=None, dtype=None):
        import pytato as pt
        r = self.rng
        shape = shape if shape is not None else r.choice(SHAPES)
        dtype = np.dtype(dtype if dtype is not None else r.choice(DTYPES))
        self.nleaf += 1
        c = r.random()
        if self.with_data and c < 0.2 and all(isinstance(d, int) for d in shape):
            size = int(np.prod(shape)) if shape else 1
            data = np.array([r.randint(-9, 9) for _ in range(size)], dtype=dtype).reshape(shape)
            return pt.make_data_wrapper(data)
        if c < 0.35 and len(shape) == 2 and shape[0] == 4:
            if self.n is None:
                self.n = pt.make_size_param("n")
            return pt.make_placeholder(f"s{self.nleaf}", (self.n, shape[1]), dtype)
        return pt.make_placeholder(f"p{self.nleaf}", shape, dtype)

    def pick(self, pred: Callable[[Any], bool] | None = None):
        r = self.rng
        cands = [a for a in self.pool if pred is None or pred(a)]
        if not cands or r.random() < 0.15:
            return None
        # prefer recent values (deeper graphs), keep sharing likely
        k = len(cands)
        i = min(k - 1, int(r.triangular(0, k, k)))
        return cands[i]

    def operand(self, shape=None, dtype=None):
        def ok(a):
            return ((shape is None or tuple(a.shape) == tuple(shape))
                    and (dtype is None or a.dtype == np.dtype(dtype)))
        a = self.pick(ok)
        if a is None:
            a = self.leaf(shape, dtype)
            self.pool.append(a)
        return a

    # ---- operations -------------------------------------------------------
    def step(self):
        import pytato as pt
        from pytato.distributed.nodes import make_distributed_recv, staple_distributed_send
        from pytato.function import trace_call
        r = self.rng
        a = self.operand()
        nd = a.ndim
        concrete = all(isinstance(d, int) for d in a.shape)
        op = r.choice(["bin", "bin", "bin", "unary", "red", "roll", "transpose", "reshape", "bidx",
                       "aidx", "stack", "concat", "einsum", "csr", "tag", "axtag", "named",
                       "call", "call", "loopy", "send", "recv", "where", "scalar"])
        if op == "bin":
            b = self.operand(a.shape)
            f = r.choice([lambda x, y: x + y, lambda x, y: x - y, lambda x, y: x * y,
                          lambda x, y: pt.maximum(x, y), lambda x, y: x / y])
            return f(a, b)
        if op == "scalar":
            c = r.choice([2, 3.5, -1])
            return r.choice([lambda x: x + c, lambda x: c * x, lambda x: x ** 2])(a)
        if op == "where":
            b = self.operand(a.shape)
            return pt.where(a > b, a, b)
        if op == "unary":
            return r.choice([lambda x: pt.sin(x), lambda x: -x, lambda x: pt.exp(x),
                             lambda x: x.astype(np.float32), lambda x: pt.abs(x)])(a)
        if op == "red" and nd >= 1:
            ax = r.randrange(nd)
            return r.choice([pt.sum, pt.amax, pt.prod])(a, axis=ax) if r.random() < 0.8 else pt.sum(a)
        if op == "roll" and nd >= 1:
            return pt.roll(a, r.choice([1, 2, -1]), r.randrange(nd))
        if op == "transpose" and nd >= 2:
            perm = list(range(nd))
            r.shuffle(perm)
            return pt.transpose(a, tuple(perm))
        if op == "reshape" and concrete and nd >= 1:
            size = int(np.prod(a.shape))
            opts = [s for s in SHAPES + [(size,)] if int(np.prod(s)) == size and tuple(s) != tuple(a.shape)]
            if opts:
                return pt.reshape(a, r.choice(opts), order=r.choice("CF"))
        if op == "bidx" and nd >= 1 and concrete:
            idx = []
            for d in a.shape:
                c = r.random()
                if c < 0.3 and d > 0:
                    idx.append(r.randrange(d))
                elif c < 0.8:
                    lo = r.randrange(0, max(1, d))
                    idx.append(slice(lo, r.randrange(lo, d + 1), r.choice([1, 1, 2])))
                else:
                    idx.append(slice(None, None, -1))
            return a[tuple(idx)]
        if op == "aidx" and nd >= 1 and concrete and a.shape[0] > 0:
            i1 = self.operand((2,), "int64")
            if nd >= 3 or (nd == 2 and r.random() < 0.5):
                return a[(i1,) + (slice(None),) * (nd - 2) + (i1,)] if nd >= 2 else a[i1]
            return a[i1]
        if op == "stack":
            b = self.operand(a.shape, a.dtype)
            return pt.stack([a, b], axis=r.randrange(nd + 1))
        if op == "concat" and nd >= 1:
            b = self.operand(a.shape, a.dtype)
            return pt.concatenate([a, b, a] if r.random() < 0.3 else [a, b], axis=r.randrange(nd))
        if op == "einsum" and nd == 2:
            b = self.operand(a.shape)
            return pt.einsum(r.choice(["ij,ij->i", "ij,ij->j", "ij,ij->", "ij,ij->ij"]), a, b)
        if op == "einsum" and nd == 1:
            b = self.operand(a.shape)
            return pt.einsum(r.choice(["i,i->", "i,j->ij"]), a, b)
        if op == "csr":
            v = self.operand((4,)) if r.random() < 0.5 else self.operand((4, 3))
            ev = self.operand((5,), "float64")
            ec = self.operand((5,), "int64")
            rs = self.operand((5,), "int64")
            return pt.make_csr_matrix((4, 4), ev, ec, rs) @ v
        if op == "tag":
            return a.tagged(r.choice([kinds.VFooTag(), kinds.VBarTag()]))
        if op == "axtag" and nd >= 1:
            return a.with_tagged_axis(r.randrange(nd), r.choice([kinds.VFooTag(), kinds.VBarTag()]))
        if op == "named":
            b = self.operand()
            d = pt.make_dict_of_named_arrays({"u": a, "v": b})
            return d[r.choice(["u", "v"])]
        if op == "call" and concrete:
            b = self.operand(a.shape, a.dtype)
            f = r.choice(FUNCS)
            res = trace_call(f, a, b)
            if isinstance(res, tuple):
                return res[r.randrange(len(res))]
            if isinstance(res, dict) or hasattr(res, "keys"):
                return res[r.choice(sorted(res.keys()))]
            return res
        if op == "loopy" and self.with_loopy:
            from pytato.loopy import call_loopy
            from ..extract.eqtable import lp_kernels
            k = lp_kernels()
            v = self.operand((4,), "float64")
            if r.random() < 0.5:
                return call_loopy(k["twice"], {"a": v})["out"]
            w = self.operand((4,), "float64")
            lc = call_loopy(k["axpb"], {"a": v, "b": w, "alpha": r.choice([2.0, 0.5])})
            return lc[r.choice(["out", "out2"])]
        if op == "send":
            b = self.operand()
            return staple_distributed_send(a, dest_rank=r.randrange(3), comm_tag=r.randrange(100),
                                           stapled_to=b)
        if op == "recv" and concrete:
            return make_distributed_recv(src_rank=r.randrange(3), comm_tag=r.randrange(100),
                                         shape=a.shape, dtype=a.dtype) + a
        return None

    def build(self):
        import pytato as pt
        r = self.rng
        nops = self.nops if self.nops is not None else r.randint(4, 30)
        made = 0
        tries = 0
        while made < nops and tries < 20 * nops:
            tries += 1
            try:
                v = self.step()
            except (ValueError, TypeError, IndexError, NotImplementedError, AssertionError,
                    ZeroDivisionError):
                # the constructor rejected the combination; the random stream has
                # advanced deterministically, so just continue
                continue
            if v is None:
                continue
            self.pool.append(v)
            made += 1
        from pytato.array import Array
        outs = [a for a in self.pool if isinstance(a, Array)]
        c = r.random()
        if c < 0.35 or len(outs) < 2:
            return outs[-1]
        k = min(len(outs), r.randint(2, 5))
        chosen = outs[-k:]
        return pt.make_dict_of_named_arrays({f"out{i}": a for i, a in enumerate(chosen)})


def build(seed: int, i: int, with_loopy=True, with_data=True):
    """the i-th graph of the family `seed` (retry with the next sub-seed while the
    tree unfolding is too large for the Lean term model)"""
    from .. import eqterm
    for attempt in range(50):
        g = DagGen(seed * 1_000_003 + i * 101 + attempt, with_loopy=with_loopy,
                   with_data=with_data).build()
        hs = eqterm.HeapSer(check_reflect=False)
        root = hs.add(g)
        if hs.sizes[root] <= 4000:
            return g
    raise RuntimeError("no small enough graph")


# --------------------------------------------------------------------------
# one-field mutations
# --------------------------------------------------------------------------

def _toggle(tags, t):
    return frozenset(tags ^ {t})


def _fresh_like(a, tag: str):
    import pytato as pt
    return pt.make_placeholder(f"mut_{tag}", a.shape, a.dtype)


def mutations(node, rng: random.Random) -> list[tuple[str, Callable[[], Any]]]:
    """[(row name, thunk building a copy of `node` differing in exactly that row)]"""
    from constantdict import constantdict
    from pytato.array import (
        Array, AxisPermutation, Axis, BasicIndex, Concatenate, CSRMatmul, DataWrapper,
        DictOfNamedArrays, Einsum, IndexBase, IndexLambda, NamedArray, NormalizedSlice,
        Placeholder, ReductionDescriptor, Reshape, Roll, SizeParam, Stack)
    from pytato.distributed.nodes import DistributedRecv, DistributedSendRefHolder
    from pytato.function import Call, FunctionDefinition, NamedCallResult
    rep = dataclasses.replace
    T = kinds.VFooTag()
    out: list[tuple[str, Callable[[], Any]]] = []
    fields = {f.name for f in dataclasses.fields(node)}
    internal_tags = isinstance(node, NamedCallResult)
    if isinstance(node, DictOfNamedArrays):
        out.append(("tags", lambda: DictOfNamedArrays(node._data, tags=_toggle(node.tags, T))))
        k0 = sorted(node._data)[0]
        out.append(("_data", lambda: DictOfNamedArrays(
            constantdict({(k + "_r" if k == k0 else k): v for k, v in node._data.items()}),
            tags=node.tags)))
        out.append(("_data", lambda: DictOfNamedArrays(
            constantdict({**node._data, "zz_extra": node._data[k0]}), tags=node.tags)))
        if len(node._data) >= 2:
            out.append(("_data", lambda: DictOfNamedArrays(
                constantdict({k: v for k, v in node._data.items() if k != k0}), tags=node.tags)))
        return out
    if "tags" in fields and not internal_tags:
        out.append(("tags", lambda: rep(node, tags=_toggle(node.tags, T))))
    if "non_equality_tags" in fields:
        out.append(("non_equality_tags",
                    lambda: rep(node, non_equality_tags=_toggle(node.non_equality_tags, T))))
    if "axes" in fields and not internal_tags and len(node.axes) > 0:
        i = rng.randrange(len(node.axes))

        def ax():
            axes = list(node.axes)
            axes[i] = Axis(_toggle(axes[i].tags, T))
            return rep(node, axes=tuple(axes))
        out.append(("axes", ax))
    if isinstance(node, Placeholder):
        out.append(("name", lambda: rep(node, name=node.name + "_m")))
        out.append(("dtype", lambda: rep(node, dtype=np.dtype(
            "float32" if node.dtype != np.float32 else "float64"))))
        if node.shape and isinstance(node.shape[0], int):
            out.append(("shape", lambda: rep(node, shape=(node.shape[0] + 1, *node.shape[1:]))))
    elif isinstance(node, SizeParam):
        out.append(("name", lambda: rep(node, name=node.name + "_m")))
    elif isinstance(node, DataWrapper):
        def dat():
            d = np.array(node.data, copy=True)
            flat = d.reshape(-1)
            if flat.size:
                flat[rng.randrange(flat.size)] += 1
            return rep(node, data=d)
        if node.data.size:
            out.append(("data.contents", dat))
    elif isinstance(node, IndexLambda):
        out.append(("dtype", lambda: rep(node, dtype=np.dtype(
            "float32" if node.dtype != np.float32 else "float64"))))
        import pymbolic.primitives as prim
        out.append(("expr", lambda: rep(node, expr=prim.Sum((node.expr, 1)))))
        if node.var_to_reduction_descr:
            k0 = sorted(node.var_to_reduction_descr)[0]
            out.append(("var_to_reduction_descr", lambda: rep(
                node, var_to_reduction_descr=constantdict({
                    k: (ReductionDescriptor(_toggle(v.tags, T)) if k == k0 else v)
                    for k, v in node.var_to_reduction_descr.items()}))))
        if node.bindings:
            k0 = sorted(node.bindings)[rng.randrange(len(node.bindings))]
            out.append(("bindings", lambda: rep(node, bindings=constantdict({
                k: (_fresh_like(v, "b") if k == k0 else v) for k, v in node.bindings.items()}))))
    elif isinstance(node, Roll):
        out.append(("shift", lambda: rep(node, shift=node.shift + 1)))
        if node.ndim > 1:
            out.append(("axis", lambda: rep(node, axis=(node.axis + 1) % node.ndim)))
        out.append(("array", lambda: rep(node, array=_fresh_like(node.array, "a"))))
    elif isinstance(node, AxisPermutation):
        p = tuple(reversed(node.axis_permutation))
        if p != tuple(node.axis_permutation):
            out.append(("axis_permutation", lambda: rep(node, axis_permutation=p)))
        out.append(("array", lambda: rep(node, array=_fresh_like(node.array, "a"))))
    elif isinstance(node, Reshape):
        out.append(("order", lambda: rep(node, order="F" if node.order == "C" else "C")))
        ns = tuple(reversed(node.newshape))
        if ns != tuple(node.newshape):
            out.append(("newshape", lambda: rep(node, newshape=ns)))
        out.append(("array", lambda: rep(node, array=_fresh_like(node.array, "a"))))
    elif isinstance(node, IndexBase):
        for i, ix in enumerate(node.indices):
            if isinstance(ix, NormalizedSlice) and isinstance(ix.step, int):
                def idx(i=i, ix=ix):
                    ind = list(node.indices)
                    ind[i] = NormalizedSlice(ix.start, ix.stop, ix.step * 2)
                    return rep(node, indices=tuple(ind))
                out.append(("indices", idx))
                break
        out.append(("array", lambda: rep(node, array=_fresh_like(node.array, "a"))))
    elif isinstance(node, (Stack, Concatenate)):
        if any(a is not node.arrays[0] for a in node.arrays):
            out.append(("arrays", lambda: rep(node, arrays=tuple(reversed(node.arrays)))))
        out.append(("arrays", lambda: rep(node, arrays=(
            _fresh_like(node.arrays[0], "s"), *node.arrays[1:]))))
        # another LENGTH: extension by an equal operand, proper prefix
        out.append(("arrays", lambda: rep(node, arrays=(*node.arrays, node.arrays[-1]))))
        if len(node.arrays) >= 2:
            out.append(("arrays", lambda: rep(node, arrays=node.arrays[:-1])))
        if isinstance(node, Stack) or node.ndim > 1:
            nax = node.ndim
            if nax > 1:
                out.append(("axis", lambda: rep(node, axis=(node.axis + 1) % nax)))
    elif isinstance(node, Einsum):
        if node.redn_axis_to_redn_descr:
            ks = list(node.redn_axis_to_redn_descr)
            k0 = ks[0]
            out.append(("redn_axis_to_redn_descr", lambda: rep(
                node, redn_axis_to_redn_descr=constantdict({
                    k: (ReductionDescriptor(_toggle(v.tags, T)) if k is k0 else v)
                    for k, v in node.redn_axis_to_redn_descr.items()}))))
        out.append(("args", lambda: rep(node, args=(
            _fresh_like(node.args[0], "e"), *node.args[1:]))))
    elif isinstance(node, CSRMatmul):
        m = node.matrix
        out.append(("matrix.tags", lambda: rep(node, matrix=rep(m, tags=_toggle(m.tags, T)))))
        out.append(("matrix.axes", lambda: rep(node, matrix=rep(
            m, axes=(Axis(_toggle(m.axes[0].tags, T)), *m.axes[1:])))))
        out.append(("matrix.elem_values", lambda: rep(node, matrix=rep(
            m, elem_values=_fresh_like(m.elem_values, "ev")))))
        out.append(("matrix.row_starts", lambda: rep(node, matrix=rep(
            m, row_starts=_fresh_like(m.row_starts, "rs")))))
        out.append(("reduction_descr", lambda: rep(node, reduction_descr=ReductionDescriptor(
            _toggle(node.reduction_descr.tags, T)))))
        out.append(("reduction_var", lambda: rep(node, reduction_var=node.reduction_var + "x")))
        out.append(("array", lambda: rep(node, array=_fresh_like(node.array, "a"))))
    elif isinstance(node, NamedCallResult):
        others = sorted(set(node._container.keys()) - {node.name})
        if others:
            out.append(("name", lambda: rep(node, name=others[0])))
    elif isinstance(node, NamedArray) and type(node).__name__ == "LoopyCallResult":
        others = sorted(set(node._container.keys()) - {node.name})
        if others:
            out.append(("name", lambda: rep(node, name=others[0])))
    elif isinstance(node, NamedArray):
        others = sorted(set(node._container.keys()) - {node.name})
        if others:
            out.append(("name", lambda: rep(node, name=others[0])))
    elif isinstance(node, Call):
        ks = sorted(node.bindings)
        k0 = ks[rng.randrange(len(ks))]
        out.append(("bindings", lambda: rep(node, bindings=constantdict({
            k: (_fresh_like(v, "c") if k == k0 else v) for k, v in node.bindings.items()}))))
    elif isinstance(node, FunctionDefinition):
        pass        # tags (above); changing `parameters` would invalidate the enclosing Call
    elif isinstance(node, DistributedRecv):
        out.append(("src_rank", lambda: rep(node, src_rank=node.src_rank + 1)))
        out.append(("comm_tag", lambda: rep(node, comm_tag=node.comm_tag + 1000)))
        out.append(("dtype", lambda: rep(node, dtype=np.dtype(
            "float32" if node.dtype != np.float32 else "float64"))))
    elif isinstance(node, DistributedSendRefHolder):
        s = node.send
        out.append(("send.dest_rank", lambda: rep(node, send=rep(s, dest_rank=s.dest_rank + 1))))
        out.append(("send.comm_tag", lambda: rep(node, send=rep(s, comm_tag=s.comm_tag + 1000))))
        out.append(("send.tags", lambda: rep(node, send=rep(s, tags=_toggle(s.tags, T)))))
        out.append(("send.data", lambda: rep(node, send=rep(s, data=_fresh_like(s.data, "sd")))))
        out.append(("passthrough_data", lambda: rep(
            node, passthrough_data=_fresh_like(node.passthrough_data, "pd"))))
    elif type(node).__name__ == "LoopyCall":
        scal = sorted(k for k, v in node.bindings.items() if not isinstance(v, Array))
        if scal:
            out.append(("bindings", lambda: rep(node, bindings=constantdict({
                k: (v + 1.0 if k == scal[0] else v) for k, v in node.bindings.items()}))))
        arrs = sorted(k for k, v in node.bindings.items() if isinstance(v, Array))
        if arrs:
            out.append(("bindings", lambda: rep(node, bindings=constantdict({
                k: (_fresh_like(v, "l") if k == arrs[0] else v) for k, v in node.bindings.items()}))))
    return out

"""One instance of every pytato node kind, with every kind of edge populated, plus
for every dataclass field alternative values that yield a *valid* node differing
in exactly that field (used for probing ==, hash, persistent key, mappers)."""
from __future__ import annotations

import dataclasses
from dataclasses import dataclass, field
from typing import Any

import numpy as np


@dataclass
class KindSpec:
    name: str
    base: Any
    # field -> list of alternative values (each must give a valid node via dataclasses.replace)
    variants: dict[str, list[Any]] = field(default_factory=dict)
    # fields the property statements exempt from equality (creation tracebacks)
    non_semantic: tuple[str, ...] = ("non_equality_tags",)


def _tags():
    from pytools.tag import Tag, UniqueTag

    class FooTag(Tag):
        pass

    class BarTag(Tag):
        pass

    class BazTag(UniqueTag):
        pass
    return FooTag, BarTag, BazTag


from pytools.tag import Tag as _Tag


class VFooTag(_Tag):
    """user tag for probes"""


class VBarTag(_Tag):
    """second user tag for probes"""


def _lp_knl():
    import loopy as lp
    knl = lp.make_kernel(
        "{[i]: 0<=i<4}",
        "out[i] = 2*a[i]",
        [lp.GlobalArg("a", dtype=np.float64, shape=(4,)),
         lp.GlobalArg("out", dtype=np.float64, shape=(4,), is_input=False)],
        name="twice", lang_version=(2018, 2))
    knl2 = lp.make_kernel(
        "{[i]: 0<=i<4}",
        "out[i] = 3*a[i]",
        [lp.GlobalArg("a", dtype=np.float64, shape=(4,)),
         lp.GlobalArg("out", dtype=np.float64, shape=(4,), is_input=False)],
        name="twice", lang_version=(2018, 2))
    return knl, knl2


def specs(with_loopy=True) -> dict[str, KindSpec]:
    import pytato as pt
    from constantdict import constantdict
    from pytato.array import (
        Axis, CSRMatrix, NormalizedSlice, ReductionDescriptor, _get_default_axes)
    from pytato.tags import ImplStored

    out: dict[str, KindSpec] = {}
    f64, i64 = np.dtype("float64"), np.dtype("int64")
    x = pt.make_placeholder("x", (4, 3), f64)
    x2 = pt.make_placeholder("x2", (4, 3), f64)
    y = pt.make_placeholder("y", (4, 3), f64)
    v = pt.make_placeholder("v", (4,), f64)
    v2 = pt.make_placeholder("v2", (4,), f64)
    n = pt.make_size_param("n")
    m = pt.make_size_param("m")
    xs = pt.make_placeholder("xs", (n, 3), f64)       # array-valued shape component
    xs2 = pt.make_placeholder("xs2", (m, 3), f64)
    idx = pt.make_placeholder("idx", (2,), i64)
    idx2 = pt.make_placeholder("idx2", (2,), i64)

    def tagged_axes(nd, which=0):
        ax = list(_get_default_axes(nd))
        ax[which] = Axis(frozenset({VFooTag()}))
        return tuple(ax)

    def common(node, nd):
        d = {"tags": [frozenset({VFooTag()}), frozenset({VBarTag()})],
             "non_equality_tags": [frozenset({VFooTag()})]}
        if nd > 0:
            d["axes"] = [tagged_axes(nd, 0)]
        return d

    def add(name, base, variants, nd=None):
        if nd is None:
            nd = getattr(base, "ndim", 0)
        allv = {}
        fields = {f.name for f in dataclasses.fields(base)}
        for k, vals in common(base, nd).items():
            if k in fields:
                allv[k] = vals
        allv.update(variants)
        out[name] = KindSpec(name, base, allv)

    # ---- inputs
    add("Placeholder", x, {"name": ["x_other"], "shape": [(4, 2), (n, 3)], "dtype": [np.dtype("float32")]})
    add("SizeParam", n, {"name": ["m"]})
    data = np.arange(12, dtype=np.float64).reshape(4, 3)
    data_b = np.arange(12, dtype=np.float64).reshape(4, 3)
    dw = pt.make_data_wrapper(data)
    add("DataWrapper", dw, {"data": [data_b], "shape": [(n, 3)]})
    # ---- index lambda
    il = x + y
    il_other = x - y
    add("IndexLambda", il, {
        "expr": [il_other.expr],
        "bindings": [constantdict({"_in0": x, "_in1": x2})],
        "shape": [(4, 1 * 3 + 0) if False else (n, 3)],
        "dtype": [np.dtype("float32")],
        "var_to_reduction_descr": [],
    })
    red = pt.sum(x, axis=1)
    rd = dict(red.var_to_reduction_descr)
    k0 = next(iter(rd))
    add("IndexLambda_reduction", red, {
        "var_to_reduction_descr": [constantdict({k0: ReductionDescriptor(frozenset({VFooTag()}))})],
    })
    # ---- index remapping
    add("Roll", pt.roll(x, 1, 0), {"array": [x2], "shift": [2], "axis": [1]})
    add("AxisPermutation", pt.transpose(pt.make_placeholder("c", (3, 3), f64), (1, 0)),
        {"array": [pt.make_placeholder("c2", (3, 3), f64)], "axis_permutation": [(0, 1)]})
    add("Reshape", pt.reshape(x, (2, 6), order="C"), {"array": [x2], "newshape": [(6, 2)], "order": ["F"]})
    add("BasicIndex", x[1:3, 0], {"array": [x2],
                                 "indices": [(NormalizedSlice(1, 3, 1), 1), (NormalizedSlice(0, 3, 1), 0)]})
    add("BasicIndex_symbolic", xs[:, 0], {"array": [xs2]})
    add("AdvancedIndexInContiguousAxes", x[idx, :], {"array": [x2],
        "indices": [(idx2, NormalizedSlice(0, 3, 1))]})
    add("AdvancedIndexInNoncontiguousAxes",
        pt.make_placeholder("t", (4, 3, 4), f64)[idx, :, idx],
        {"array": [pt.make_placeholder("t2", (4, 3, 4), f64)],
         "indices": [(idx2, NormalizedSlice(0, 3, 1), idx), (idx, NormalizedSlice(0, 3, 1), idx2)]})
    # ---- multi-operand
    add("Stack", pt.stack([x, y], axis=0), {"arrays": [(x, x2), (y, x)], "axis": [1]})
    add("Concatenate", pt.concatenate([x, y], axis=0), {"arrays": [(x, x2)], "axis": [1]})
    es = pt.einsum("ij,ij->i", x, y)
    es2 = pt.einsum("ij,ij->j", x, y)
    _rax = next(iter(es.redn_axis_to_redn_descr))
    es3 = es.with_tagged_reduction(_rax, VFooTag())
    add("Einsum", es, {"args": [(x, x2)], "access_descriptors": [es2.access_descriptors],
                       "redn_axis_to_redn_descr": [es3.redn_axis_to_redn_descr]})
    # ---- sparse
    ev = pt.make_placeholder("ev", (5,), f64)
    ec = pt.make_placeholder("ec", (5,), i64)
    rs = pt.make_placeholder("rs", (5,), i64)
    mat = pt.make_csr_matrix((4, 4), ev, ec, rs)
    mm = mat @ v
    ev2 = pt.make_placeholder("ev2", (5,), f64)
    ec2 = pt.make_placeholder("ec2", (5,), i64)
    rs2 = pt.make_placeholder("rs2", (5,), i64)
    add("CSRMatmul", mm, {
        "array": [v2],
        "matrix": [pt.make_csr_matrix((4, 4), ev2, ec, rs), pt.make_csr_matrix((4, 4), ev, ec2, rs),
                   pt.make_csr_matrix((4, 4), ev, ec, rs2),
                   dataclasses.replace(mat, tags=frozenset({VFooTag()})),
                   dataclasses.replace(mat, axes=tagged_axes(2, 0)),
                   dataclasses.replace(mat, shape=(n, 4)),
                   dataclasses.replace(mat, dtype=np.dtype("float32")),
                   dataclasses.replace(mat, non_equality_tags=frozenset({VFooTag()}))],
        "reduction_var": ["_r7"],
        "reduction_descr": [ReductionDescriptor(frozenset({VFooTag()}))],
    })
    # ---- containers
    d = pt.make_dict_of_named_arrays({"a": x + 1, "b": y})
    d2 = pt.make_dict_of_named_arrays({"a": x + 2, "b": y})
    add("DictOfNamedArrays", d, {"_data": [d2._data], "tags": [frozenset({VFooTag()})]}, nd=0)
    add("NamedArray", d["a"], {"_container": [d2], "name": ["b"]})
    # ---- functions
    from pytato.function import trace_call

    def f(a, b):
        return {"o1": a + b, "o2": a * 2}

    def g(a, b):
        return {"o1": a - b, "o2": a * 2}
    res = trace_call(f, x, y)
    res_g = trace_call(g, x, y)
    call = res["o1"]._container
    call_g = res_g["o1"]._container
    add("Call", call, {"function": [call_g.function],
                       "bindings": [constantdict({k: (x2 if vv is x else vv) for k, vv in call.bindings.items()})],
                       "tags": [frozenset({VFooTag()})]}, nd=0)
    add("NamedCallResult", res["o1"], {"_container": [call_g], "name": ["o2"]})
    fd = call.function
    fd_g = call_g.function
    add("FunctionDefinition", fd, {"returns": [fd_g.returns], "tags": [frozenset({VFooTag()})],
                                   "return_type": [],
                                   "parameters": [fd.parameters | frozenset({"unused_param"})]}, nd=0)
    # ---- distributed
    from pytato.distributed.nodes import (
        make_distributed_recv, make_distributed_send, make_distributed_send_ref_holder)
    recv = make_distributed_recv(src_rank=1, comm_tag=42, shape=(4, 3), dtype=f64)
    add("DistributedRecv", recv, {"src_rank": [2], "comm_tag": [43], "shape": [(4, 2), (n, 3)],
                                  "dtype": [np.dtype("float32")]})
    send = make_distributed_send(x, dest_rank=1, comm_tag=7)
    add("DistributedSend", send, {"data": [x2], "dest_rank": [2], "comm_tag": [8],
                                  "tags": [frozenset({VFooTag()})]}, nd=0)
    holder = make_distributed_send_ref_holder(send, y)
    add("DistributedSendRefHolder", holder, {
        "send": [make_distributed_send(x2, dest_rank=1, comm_tag=7),
                 make_distributed_send(x, dest_rank=2, comm_tag=7),
                 make_distributed_send(x, dest_rank=1, comm_tag=8),
                 make_distributed_send(x, dest_rank=1, comm_tag=7, send_tags=frozenset({VFooTag()}))],
        "passthrough_data": [pt.make_placeholder("y2", (4, 3), f64)]})
    # ---- loopy
    if with_loopy:
        from pytato.loopy import call_loopy
        knl, knl2 = _lp_knl()
        a4 = pt.make_placeholder("a4", (4,), f64)
        b4 = pt.make_placeholder("b4", (4,), f64)
        lc = call_loopy(knl, {"a": a4})
        lc2 = call_loopy(knl2, {"a": a4})
        add("LoopyCall", lc, {"translation_unit": [lc2.translation_unit],
                              "bindings": [constantdict({"a": b4})],
                              "tags": [frozenset({VFooTag()})], "entrypoint": []}, nd=0)
        add("LoopyCallResult", lc["out"], {"_container": [lc2, call_loopy(knl, {"a": b4})], "name": []})
    return out


def mutate(base, fld: str, value):
    """a copy of `base` differing in exactly one dataclass field"""
    from pytato.array import DictOfNamedArrays
    if isinstance(base, DictOfNamedArrays):
        data = value if fld == "_data" else base._data
        tags = value if fld == "tags" else base.tags
        return DictOfNamedArrays(data, tags=tags)
    return dataclasses.replace(base, **{fld: value})


def all_kind_graph():
    """one DictOfNamedArrays containing at least one node of every Array kind,
    every edge kind populated, with sharing (each leaf reached over several paths)"""
    import pytato as pt
    s = specs(with_loopy=False)
    outs = {}
    for k, spec in s.items():
        b = spec.base
        from pytato.array import Array
        if isinstance(b, Array):
            outs[k] = b
    return pt.make_dict_of_named_arrays(outs)

"""Seeded generator of array programs over pytato's public API (the program space
of C01's quantifier).  Bottom-up with a sharing pool: every new node draws its
operands from the nodes built so far (diamonds and ladders are the norm).

Deterministic in (seed, index, config): a child interpreter can rebuild exactly
the same program by calling `generate` again (used for replays and for the
process-independence checks).  Nothing here iterates over a set or dict whose
order depends on hashing.

Each node carries a conservative magnitude bound so that integer arithmetic
never overflows its dtype and floating-point intermediates stay small enough for
a scale-aware comparison (no false alarms from wrap-around or cancellation)."""
from __future__ import annotations

import random
from dataclasses import dataclass, field
from typing import Any

import numpy as np

DTYPES = ["bool", "int32", "int64", "float32", "float64", "complex128"]
INT_LIMIT = {"int32": 2 ** 30, "int64": 2 ** 60}
FLOAT_LIMIT = 1e6


@dataclass
class Config:
    max_rank: int = 3
    max_len: int = 4
    min_len: int = 0
    steps: tuple[int, int] = (2, 9)
    n_outputs: tuple[int, int] = (1, 3)
    dtypes: tuple[str, ...] = tuple(DTYPES)
    families: tuple[str, ...] | None = None      # restrict op families
    exclude: tuple[str, ...] = ()
    data_wrappers: bool = True
    allow_zero_size: bool = True
    loopy_calls: bool = False
    float_only: bool = False
    input_namer: Any = None      # k -> name of the k-th placeholder (default in<k>)
    output_namer: Any = None     # k -> key of the k-th output (default out<k>)


@dataclass
class Program:
    index: int
    outputs: dict            # name -> Array
    inputs: dict             # placeholder name -> (shape, dtype str)
    ops: list[str]           # constructor families used (for distribution statistics)
    log: list[str] = field(default_factory=list)

    def expr(self):
        import pytato as pt
        return pt.make_dict_of_named_arrays(self.outputs)

    single: bool = False     # some node computes in single precision

    def uses_single(self) -> bool:
        return self.single

    def make_inputs(self, rng: np.random.Generator) -> dict:
        return {nm: draw_data(rng, shape, dt) for nm, (shape, dt) in self.inputs.items()}


def draw_data(rng: np.random.Generator, shape, dt: str):
    dt = np.dtype(dt)
    if dt.kind == "b":
        return rng.integers(0, 2, size=shape).astype(bool)
    if dt.kind in "iu":
        return rng.integers(-3, 5, size=shape).astype(dt)
    if dt.kind == "f":
        return (rng.integers(-8, 9, size=shape) / 4.0).astype(dt)
    if dt.kind == "c":
        return ((rng.integers(-4, 5, size=shape) / 2.0) + 1j * (rng.integers(-4, 5, size=shape) / 2.0)).astype(dt)
    raise ValueError(dt)


@dataclass
class Info:
    shape: tuple
    dtype: np.dtype
    bound: float


class _Gen:
    def __init__(self, rng: random.Random, cfg: Config, index: int, tagger=None):
        self.tagger = tagger
        self.nnodes = 0
        self.rng = rng
        self.cfg = cfg
        self.index = index
        self.pool: list[Any] = []
        self.info: dict[int, Info] = {}
        self.inputs: dict[str, tuple] = {}
        self.ops: list[str] = []
        self.log: list[str] = []
        self.nph = 0
        self.dwrng = np.random.default_rng(rng.randrange(2 ** 31))

    # ------------------------------------------------------------ helpers
    def rand_shape(self, rank=None):
        c = self.cfg
        r = self.rng.randint(0, c.max_rank) if rank is None else rank
        lo = c.min_len if c.allow_zero_size and self.rng.random() < 0.12 else max(1, c.min_len)
        return tuple(self.rng.randint(lo, c.max_len) for _ in range(r))

    def rand_dtype(self, kinds=None):
        c = [d for d in self.cfg.dtypes if kinds is None or np.dtype(d).kind in kinds]
        if self.cfg.float_only:
            c = [d for d in c if np.dtype(d).kind == "f"] or ["float64"]
        return np.dtype(self.rng.choice(c))

    def add(self, node, bound, op):
        from pytato.array import Array
        assert isinstance(node, Array)
        if self.tagger is not None:
            # the tagger has its own random source: the program structure is the same for every variant
            node = self.tagger(node, self.nnodes, op)
        self.nnodes += 1
        shape = tuple(int(d) for d in node.shape)
        self.info[id(node)] = Info(shape, node.dtype, float(bound))
        self.pool.append(node)
        self.ops.append(op)
        return node

    def leaf(self, shape=None, dtype=None):
        import pytato as pt
        shape = self.rand_shape() if shape is None else tuple(shape)
        dtype = self.rand_dtype() if dtype is None else np.dtype(dtype)
        r = self.rng.random()
        b0 = {"b": 1, "i": 4, "u": 4, "f": 2, "c": 3}[dtype.kind]
        if self.cfg.data_wrappers and r < 0.15:
            data = draw_data(self.dwrng, shape, dtype.name)
            return self.add(pt.make_data_wrapper(data), b0, "data_wrapper")
        if r < 0.25 and dtype.kind != "c":
            which = self.rng.choice(["zeros", "ones", "full"])
            if which == "zeros":
                return self.add(pt.zeros(shape, dtype), 0, "zeros")
            if which == "ones":
                return self.add(pt.ones(shape, dtype), 1, "ones")
            v = {"b": True, "i": 3, "u": 3, "f": 1.5}[dtype.kind]
            return self.add(pt.full(shape, v, dtype), 3, "full")
        if r < 0.30 and dtype.kind in "if" and len(shape) <= 1:
            n = shape[0] if shape else self.rng.randint(1, self.cfg.max_len)
            if n > 0:
                return self.add(pt.arange(n, dtype=dtype), n, "arange")
        if r < 0.34 and dtype.kind == "f" and len(shape) == 2 and min(shape) > 0:
            return self.add(pt.eye(shape[0], shape[1], k=self.rng.randint(-1, 1), dtype=dtype), 1, "eye")
        nm = self.cfg.input_namer(self.nph) if self.cfg.input_namer else f"in{self.nph}"
        self.nph += 1
        self.inputs[nm] = (shape, dtype.name)
        return self.add(pt.make_placeholder(nm, shape, dtype), b0, "placeholder")

    def pick(self, pred=None):
        c = [n for n in self.pool if pred is None or pred(self.info[id(n)])]
        if not c or self.rng.random() < 0.15:
            return None
        # prefer recent nodes (deeper programs), but keep sharing
        if self.rng.random() < 0.6:
            return c[-1 - min(len(c) - 1, int(abs(self.rng.gauss(0, 2))))]
        return self.rng.choice(c)

    def pick_or_leaf(self, pred=None, shape=None, dtype=None):
        n = self.pick(pred)
        if n is None:
            n = self.leaf(shape, dtype)
            if pred is not None and not pred(self.info[id(n)]):
                return None
        return n

    def compat_operand(self, a_info: Info, dtype_kinds=None):
        """an operand broadcast-compatible with a_info.shape: from the pool or a new leaf"""
        def ok(i: Info):
            if dtype_kinds and i.dtype.kind not in dtype_kinds:
                return False
            try:
                np.broadcast_shapes(i.shape, a_info.shape)
            except ValueError:
                return False
            return True
        n = self.pick(ok)
        if n is not None and self.rng.random() < 0.6:
            return n
        shp = tuple(d if self.rng.random() < 0.75 else 1 for d in a_info.shape)
        if shp and self.rng.random() < 0.25:
            shp = shp[self.rng.randint(1, len(shp)):]
        dt = self.rand_dtype(dtype_kinds)
        return self.leaf(shp, dt)

    def fits(self, dtype, bound):
        k = np.dtype(dtype).kind
        if k == "b":
            return True
        if k in "iu":
            return bound < INT_LIMIT.get(np.dtype(dtype).name, 2 ** 30)
        return bound < FLOAT_LIMIT

    # ------------------------------------------------------------ op families
    def op_arith(self):
        import pytato as pt
        a = self.pick_or_leaf(lambda i: i.dtype.kind != "b" or self.rng.random() < 0.3)
        if a is None:
            return
        ia = self.info[id(a)]
        op = self.rng.choice(["+", "-", "*", "/", "//", "%", "**", "neg", "rsub", "scalar+", "scalar*",
                              "rscalar-", "scalar/"])
        if op == "neg":
            if ia.dtype.kind == "b":
                return
            return self.add(-a, ia.bound, "neg")
        if op in ("scalar+", "scalar*", "rscalar-", "scalar/"):
            if ia.dtype.kind == "b":
                return
            s = self.rng.choice([2, -3, 1.5, np.int32(2), np.float64(0.5), 2]) if ia.dtype.kind != "c" else \
                self.rng.choice([2, 1.5, 1 + 2j])
            if ia.dtype.kind in "iu" and op == "scalar/":
                pass
            if op == "scalar+":
                e, b = (a + s) if self.rng.random() < 0.5 else (s + a), ia.bound + 3
            elif op == "scalar*":
                e, b = (a * s) if self.rng.random() < 0.5 else (s * a), ia.bound * 3
            elif op == "rscalar-":
                e, b = s - a, ia.bound + 3
            else:
                e, b = a / s, ia.bound * 2
            if not self.fits(e.dtype, b):
                return
            return self.add(e, b, "scalar_" + op[-1])
        if op == "**":
            if ia.dtype.kind == "b":
                return
            p = self.rng.choice([0, 1, 2, 3])
            b = max(1.0, ia.bound) ** p
            if not self.fits(ia.dtype, b):
                return
            return self.add(a ** p, b, "pow")
        b_ = self.compat_operand(ia, "iuf" if ia.dtype.kind != "c" else "fc")
        ib = self.info[id(b_)]
        if ia.dtype.kind == "b" and ib.dtype.kind == "b":
            return
        if op == "rsub":
            a, b_, ia, ib, op = b_, a, ib, ia, "-"
        if op in "+-":
            e = a + b_ if op == "+" else a - b_
            bound = ia.bound + ib.bound
        elif op == "*":
            e, bound = a * b_, ia.bound * ib.bound
        elif op == "/":
            # keep the divisor away from zero: |b|+1 (float) — division by exact zero is covered
            # separately in the NaN/inf stream
            if ib.dtype.kind == "c" or ia.dtype.kind == "c":
                return
            den = abs(b_) + 1
            e, bound = a / den, ia.bound
            self.ops.append("abs")
        else:  # // or %
            # loopy: "remainder and floordiv for floating-point types" not implemented -> outside the fragment
            if ia.dtype.kind not in "iu" or ib.dtype.kind not in "iu":
                return
            den = b_ * b_ + 1
            if not self.fits(den.dtype, ib.bound ** 2 + 1):
                return
            e = a // den if op == "//" else a % den
            bound = ia.bound + ib.bound ** 2 + 1
        if not self.fits(e.dtype, bound):
            return
        return self.add(e, bound, {"+": "add", "-": "sub", "*": "mul", "/": "truediv", "//": "floordiv",
                                   "%": "mod"}[op])

    def op_compare_logical(self):
        import pytato as pt
        a = self.pick_or_leaf(lambda i: i.dtype.kind != "c")
        if a is None:
            return
        ia = self.info[id(a)]
        which = self.rng.choice(["cmp", "cmp", "cmp_scalar", "land", "lor", "bitand", "bitor", "bitxor"])
        if which == "cmp_scalar":
            f = self.rng.choice([pt.less, pt.greater_equal, pt.equal, pt.not_equal])
            s = self.rng.choice([0, 1, 1.5, -1])
            e = f(a, s) if self.rng.random() < 0.5 else f(s, a)
            return self.add(e, 1, "compare_scalar")
        b = self.compat_operand(ia, "biuf")
        ib = self.info[id(b)]
        if which == "cmp":
            f = self.rng.choice([pt.less, pt.less_equal, pt.greater, pt.greater_equal, pt.equal, pt.not_equal])
            return self.add(f(a, b), 1, "compare")
        if which in ("land", "lor"):
            f = pt.logical_and if which == "land" else pt.logical_or
            return self.add(f(a, b), 1, "logical")
        if ia.dtype.kind not in "bi" or ib.dtype.kind not in "bi":
            return
        if which == "bitand":
            e = a & b
        elif which == "bitor":
            e = a | b
        else:
            e = a ^ b
        return self.add(e, max(ia.bound, ib.bound) * 2 + 1, "bitwise")

    def op_where_minmax(self):
        import pytato as pt
        a = self.pick_or_leaf(lambda i: i.dtype.kind != "c")
        if a is None:
            return
        ia = self.info[id(a)]
        b = self.compat_operand(ia, "iuf" if ia.dtype.kind != "b" else "biuf")
        ib = self.info[id(b)]
        which = self.rng.choice(["where", "where", "maximum", "minimum"])
        if which == "where":
            c = self.compat_operand(ia, "biuf")
            if ia.dtype.kind == "b" and ib.dtype.kind == "b" and self.rng.random() < 0.5:
                return
            try:
                e = pt.where(c, a, b)
            except Exception:
                return
            return self.add(e, max(ia.bound, ib.bound), "where")
        if ia.dtype.kind == "b" or ib.dtype.kind == "b":
            return
        f = pt.maximum if which == "maximum" else pt.minimum
        return self.add(f(a, b), max(ia.bound, ib.bound), which)

    def op_math(self):
        import pytato as pt
        a = self.pick_or_leaf(lambda i: i.dtype.kind in "fc")
        if a is None:
            return
        ia = self.info[id(a)]
        if ia.dtype.kind == "c":
            which = self.rng.choice(["abs", "real", "imag", "conj"])
            f = getattr(pt, which)
            return self.add(f(a), ia.bound * 2, which)
        which = self.rng.choice(["sin", "cos", "exp", "sqrtabs", "logabs", "abs", "tanh", "isnan", "arctan"])
        if which == "exp":
            if ia.bound > 6:
                return
            return self.add(pt.exp(a), float(np.exp(ia.bound)), "exp")
        if which == "sqrtabs":
            self.ops.append("abs")
            return self.add(pt.sqrt(abs(a)), ia.bound + 1, "sqrt")
        if which == "logabs":
            self.ops.append("abs")
            return self.add(pt.log(abs(a) + 1), ia.bound + 1, "log")
        if which == "abs":
            return self.add(abs(a), ia.bound, "abs")
        if which == "isnan":
            return self.add(pt.isnan(a), 1, "isnan")
        return self.add(getattr(pt, which)(a), 2, which)

    def op_astype(self):
        a = self.pick_or_leaf()
        if a is None:
            return
        ia = self.info[id(a)]
        if ia.dtype.kind == "c":
            return
        tgt = self.rand_dtype("biuf" if ia.dtype.kind in "biu" else "f")
        if tgt.kind == "b":
            return   # loopy's TypeCast does not support bool -> outside the fragment
        if not self.fits(tgt, ia.bound):
            return
        try:
            e = a.astype(tgt)
        except Exception:
            return
        from pytato.array import Array
        if e is a:
            return
        return self.add(e, ia.bound, "astype")

    def op_reduce(self):
        import pytato as pt
        a = self.pick_or_leaf(lambda i: len(i.shape) >= 1)
        if a is None:
            return
        ia = self.info[id(a)]
        nd = len(ia.shape)
        axes = [ax for ax in range(nd) if self.rng.random() < 0.5]
        axis = None if (not axes and self.rng.random() < 0.5) or len(axes) == nd and self.rng.random() < 0.3 \
            else (tuple(axes) if len(axes) != 1 or self.rng.random() < 0.5 else axes[0])
        if axis == ():
            axis = None
        red_axes = range(nd) if axis is None else ([axis] if isinstance(axis, int) else axis)
        count = int(np.prod([ia.shape[ax] for ax in red_axes]))
        which = self.rng.choice(["sum", "sum", "prod", "amax", "amin", "all", "any"])
        if ia.dtype.kind == "c" and which in ("amax", "amin", "all", "any"):
            return
        if ia.dtype.kind == "b" and which in ("amax", "amin"):
            return   # loopy has no neutral element for max/min over bool -> outside the fragment
        if which in ("sum", "prod") and ia.dtype.kind == "b":
            return   # pytato keeps bool where NumPy counts: a C03 matter, kept out of value comparisons
        if which in ("all", "any") and ia.dtype.kind != "b":
            return   # ditto (result dtype)
        kw = {}
        if count == 0:
            if which in ("amax", "amin"):
                return
            # zero-size reduction needs the neutral element as `initial`
            kw["initial"] = {"sum": 0, "prod": 1, "all": True, "any": False}[which]
        if which == "sum":
            bound = ia.bound * max(count, 1)
        elif which == "prod":
            if count > 12:
                return
            bound = max(1.0, ia.bound) ** max(count, 1)
        else:
            bound = ia.bound
        if not self.fits(ia.dtype, bound):
            return
        try:
            e = getattr(pt, which)(a, axis=axis, **kw)
        except Exception:
            return
        return self.add(e, bound, "reduce_" + which)

    def op_einsum(self):
        import pytato as pt
        a = self.pick_or_leaf(lambda i: 1 <= len(i.shape) <= 3 and i.dtype.kind in "iufc")
        if a is None:
            return
        ia = self.info[id(a)]
        which = self.rng.choice(["matmul", "einsum", "einsum", "dot", "trace_like"])
        letters = "ijkl"
        la = letters[:len(ia.shape)]
        if which == "trace_like":
            # repeated index inside one operand needs equal lengths
            if len(ia.shape) < 2 or ia.shape[0] != ia.shape[1]:
                return
            spec = "ii" + la[2:] + "->" + la[2:] + ("i" if self.rng.random() < 0.5 else "")
            e = pt.einsum(spec, a)
            bound = ia.bound * max(ia.shape[0], 1)
            if not self.fits(e.dtype, bound):
                return
            return self.add(e, bound, "einsum_repeated")
        # second operand shares the last letter of a (contracted) and maybe others
        contract = la[-1]
        klen = ia.shape[-1]
        extra = self.rng.randint(0, 2)
        lb = contract + "".join(self.rng.sample([c for c in letters if c not in la] + list(la[:-1]),
                                                 min(extra, 2)))
        lb = "".join(self.rng.sample(lb, len(lb)))
        dims = dict(zip(la, ia.shape))
        shp_b = tuple(dims.get(c, None) if c in dims else self.rng.randint(1, self.cfg.max_len) for c in lb)
        # broadcast-unit axis in b (also on the contracted index: the other operand then fixes its extent)
        shp_b = tuple((1 if self.rng.random() < 0.12 else d) for c, d in zip(lb, shp_b))
        if klen == 1 and self.rng.random() < 0.5:
            # ... or in a: the FIRST operand is the one that broadcasts along the contraction
            klen = self.rng.randint(2, max(2, self.cfg.max_len))
            shp_b = tuple(klen if c == contract else d for c, d in zip(lb, shp_b))
        b = None
        if shp_b == tuple(ia.shape) and self.rng.random() < 0.3:
            b = a       # one operand twice
        b = b or self.pick(lambda i: i.shape == shp_b and i.dtype.kind in "iufc") or \
            self.leaf(shp_b, self.rand_dtype("iuf" if ia.dtype.kind != "c" else "fc"))
        ib = self.info[id(b)]
        bound = ia.bound * ib.bound * max(klen, 1)
        if which == "matmul":
            if len(ia.shape) > 2 or len(ib.shape) > 2:
                return
            try:
                e = a @ b
            except Exception:
                return
        elif which == "dot":
            if len(ia.shape) != 1 or len(ib.shape) != 1:
                return
            try:
                e = pt.dot(a, b)
            except Exception:
                return
        else:
            allc = []
            for c in la + lb:
                if c not in allc:
                    allc.append(c)
            out = [c for c in allc if c != contract or self.rng.random() < 0.2]
            out = [c for c in out if self.rng.random() < 0.8]
            self.rng.shuffle(out)
            spec = f"{la},{lb}->{''.join(out)}"
            nred = int(np.prod([dict(zip(lb, shp_b)).get(c, dims.get(c, 1)) for c in allc if c not in out]))
            bound = ia.bound * ib.bound * max(nred, 1)
            try:
                e = pt.einsum(spec, a, b)
            except Exception:
                return
        if not self.fits(e.dtype, bound):
            return
        return self.add(e, bound, "einsum" if which == "einsum" else which)

    def op_remap(self):
        import pytato as pt
        a = self.pick_or_leaf()
        if a is None:
            return
        ia = self.info[id(a)]
        nd = len(ia.shape)
        which = self.rng.choice(["stack", "concatenate", "roll", "transpose", "reshape", "reshape",
                                 "expand_dims", "squeeze", "pad", "broadcast_to"])
        try:
            if which == "stack":
                others = [self.pick(lambda i: i.shape == ia.shape and i.dtype == ia.dtype) or
                          self.leaf(ia.shape, ia.dtype) for _ in range(self.rng.randint(0, 2))]
                arrs = [a, *others]
                if self.rng.random() < 0.25:
                    arrs.append(self.rng.choice(arrs))      # one operand several times
                self.rng.shuffle(arrs)
                if nd >= self.cfg.max_rank + 1:
                    return
                e = pt.stack(arrs, axis=self.rng.randint(0, nd))
                b = max(self.info[id(x)].bound for x in arrs)
            elif which == "concatenate":
                if nd == 0:
                    return
                ax = self.rng.randrange(nd)
                arrs = [a]
                for _ in range(self.rng.randint(0, 2)):
                    shp = list(ia.shape)
                    shp[ax] = self.rng.randint(0 if self.cfg.allow_zero_size else 1, self.cfg.max_len)
                    arrs.append(self.pick(lambda i: i.shape == tuple(shp) and i.dtype == ia.dtype)
                                or self.leaf(tuple(shp), ia.dtype))
                if self.rng.random() < 0.25:
                    arrs.append(self.rng.choice(arrs))      # one operand several times (z, x, z)
                self.rng.shuffle(arrs)
                e = pt.concatenate(arrs, axis=ax)
                b = max(self.info[id(x)].bound for x in arrs)
            elif which == "roll":
                if nd == 0:
                    return
                ax = self.rng.randrange(nd)
                e = pt.roll(a, self.rng.randint(-2 * ia.shape[ax] - 1, 2 * ia.shape[ax] + 1), ax)
                b = ia.bound
            elif which == "transpose":
                if nd < 2:
                    return
                p = list(range(nd))
                self.rng.shuffle(p)
                e = pt.transpose(a, p) if self.rng.random() < 0.8 else a.T
                b = ia.bound
            elif which == "reshape":
                size = int(np.prod(ia.shape)) if nd else 1
                cands = _reshape_targets(size, self.cfg.max_rank + 1, max(self.cfg.max_len, 6) ** 2)
                if not cands:
                    return
                new = self.rng.choice(cands)
                if self.rng.random() < 0.2 and new and 0 not in new:
                    k = self.rng.randrange(len(new))
                    new = new[:k] + (-1,) + new[k + 1:]
                e = pt.reshape(a, new, order=self.rng.choice(["C", "F"]))
                b = ia.bound
            elif which == "expand_dims":
                if nd > self.cfg.max_rank:
                    return
                e = pt.expand_dims(a, self.rng.randint(0, nd))
                b = ia.bound
            elif which == "squeeze":
                if 1 not in ia.shape:
                    return
                e = pt.squeeze(a)
                b = ia.bound
            elif which == "pad":
                if nd == 0 or ia.dtype.kind in "bc":
                    return
                pw = [(self.rng.randint(0, 2), self.rng.randint(0, 2)) for _ in range(nd)]
                cv = self.rng.choice([0, 1, 2])
                e = pt.pad(a, pw, constant_values=cv) if cv else pt.pad(a, pw)
                b = max(ia.bound, 2)
            else:
                lead = tuple(self.rng.randint(1, 3) for _ in range(self.rng.randint(0, 1)))
                if nd + len(lead) > self.cfg.max_rank + 1:
                    return
                tgt = lead + tuple(d if d != 1 else self.rng.randint(1, 3) for d in ia.shape)
                e = pt.broadcast_to(a, tgt)
                b = ia.bound
        except (ValueError, TypeError, NotImplementedError, IndexError):
            return
        if e is a:
            return
        return self.add(e, b, which)

    def op_index(self):
        import pytato as pt
        a = self.pick_or_leaf(lambda i: len(i.shape) >= 1)
        if a is None:
            return
        ia = self.info[id(a)]
        nd = len(ia.shape)
        adv = self.rng.random() < 0.4 and all(d > 0 for d in ia.shape)
        idx = []
        bshape = tuple(self.rng.randint(1, 3) for _ in range(self.rng.randint(0, 2)))
        n_adv = 0
        for ax, n in enumerate(ia.shape):
            c = self.rng.random()
            if adv and c < 0.5:
                ish = tuple(d if self.rng.random() < 0.7 else 1 for d in bshape)
                if self.rng.random() < 0.5:
                    vals = np.array([self.rng.randint(-n, n - 1) for _ in range(int(np.prod(ish)) if ish else 1)],
                                    dtype=self.rng.choice([np.int64, np.int32])).reshape(ish)
                    ix = pt.make_data_wrapper(vals)
                    self.info[id(ix)] = Info(ish, vals.dtype, n)
                else:
                    # an index *expression*: clip an integer input into range via modulo
                    raw = self.leaf(ish, self.rng.choice(["int64", "int32"]))
                    ix = raw % n
                    self.info[id(ix)] = Info(ish, ix.dtype, n)
                idx.append(ix)
                n_adv += 1
            elif c < 0.65 and n > 0:
                idx.append(self.rng.randint(-n, n - 1))
            elif c < 0.72 and ax == nd - 1 and not idx:
                idx.append(Ellipsis)
                break
            else:
                cc = lambda: self.rng.choice([None, None, *range(-6, 7)])
                idx.append(slice(cc(), cc(), self.rng.choice([None, None, 1, -1, 2, -2, 3])))
        if self.rng.random() < 0.25 and len(idx) > 1 and Ellipsis not in idx:
            idx = idx[:self.rng.randint(1, len(idx))]
        try:
            e = a[tuple(idx)]
        except (IndexError, ValueError, NotImplementedError, TypeError):
            return
        if e is a:
            return
        return self.add(e, ia.bound, "adv_index" if n_adv else "basic_index")

    def op_csr(self):
        import pytato as pt
        a = self.pick_or_leaf(lambda i: 1 <= len(i.shape) <= 2 and i.dtype.kind in "if" and i.shape[0] > 0)
        if a is None:
            return
        ia = self.info[id(a)]
        ncols = ia.shape[0]
        nrows = self.rng.randint(1, self.cfg.max_len)
        vals, cols, rows = [], [], [0]
        for _ in range(nrows):
            for j in range(ncols):
                if self.rng.random() < 0.4:
                    vals.append(self.rng.choice([1, 2, -1, 3]))
                    cols.append(j)
            rows.append(len(vals))
        vdt = np.dtype(self.rng.choice(["float64", "int64"]))
        ev = pt.make_data_wrapper(np.array(vals, dtype=vdt))
        ec = pt.make_data_wrapper(np.array(cols, dtype=np.int64))
        rs = pt.make_data_wrapper(np.array(rows, dtype=np.int64))
        try:
            m = pt.make_csr_matrix((nrows, ncols), ev, ec, rs)
            e = m @ a
        except Exception:
            return
        bound = ia.bound * 3 * ncols
        if not self.fits(e.dtype, bound):
            return
        return self.add(e, bound, "csr_matmul")

    def op_like(self):
        import pytato as pt
        a = self.pick_or_leaf()
        if a is None:
            return
        if self.rng.random() < 0.5:
            return self.add(pt.zeros_like(a), 0, "zeros_like")
        return self.add(pt.ones_like(a), 1, "ones_like")

    FAMILIES = {
        "arith": (op_arith, 6), "compare": (op_compare_logical, 2), "where": (op_where_minmax, 2),
        "math": (op_math, 2), "astype": (op_astype, 1), "reduce": (op_reduce, 3),
        "einsum": (op_einsum, 3), "remap": (op_remap, 5), "index": (op_index, 4),
        "csr": (op_csr, 1), "like": (op_like, 1),
    }

    def run(self) -> Program:
        fam = [f for f in self.FAMILIES if (self.cfg.families is None or f in self.cfg.families)
               and f not in self.cfg.exclude]
        weights = [self.FAMILIES[f][1] for f in fam]
        for _ in range(self.rng.randint(1, 2)):
            self.leaf()
        nsteps = self.rng.randint(*self.cfg.steps)
        tries = 0
        made = 0
        while made < nsteps and tries < nsteps * 8:
            tries += 1
            f = self.rng.choices(fam, weights)[0]
            before = len(self.pool)
            try:
                self.FAMILIES[f][0](self)
            except (ValueError, TypeError, NotImplementedError, IndexError) as e:
                # the constructor rejected this operand combination (allowed); recorded for the distribution
                self.log.append(f"rejected:{f}:{type(e).__name__}")
                del self.pool[before:]
            if len(self.pool) > before and self.ops[-1] not in ("placeholder", "data_wrapper", "zeros", "ones",
                                                               "full", "arange", "eye"):
                made += 1
        # outputs: prefer late nodes; sometimes an input or an intermediate of another output
        nout = self.rng.randint(*self.cfg.n_outputs)
        outs = {}
        cands = list(self.pool)
        for k in range(nout):
            for _ in range(6):
                if self.rng.random() < 0.7:
                    n = cands[-1 - min(len(cands) - 1, int(abs(self.rng.gauss(0, 1.5))))]
                else:
                    n = self.rng.choice(cands)
                # mostly distinct outputs; the same array under two keys stays possible
                if all(n is not o for o in outs.values()) or self.rng.random() < 0.12:
                    break
            outs[self.cfg.output_namer(k) if self.cfg.output_namer else f"out{k}"] = n
        single = any(i.dtype in (np.dtype("float32"), np.dtype("complex64")) for i in self.info.values())
        return Program(self.index, outs, dict(self.inputs), list(self.ops), self.log, single)


def _reshape_targets(size, max_rank, cap):
    out = []
    if size > cap:
        return out

    def rec(prefix, rem, rank):
        if rank == 0:
            if rem == 1:
                out.append(tuple(prefix))
            return
        if rem == 1:
            out.append(tuple(prefix))
        for d in range(1, rem + 1):
            if rem % d == 0:
                rec([*prefix, d], rem // d, rank - 1)
    if size == 0:
        return [(0,), (0, 1), (1, 0), (0, 2), (2, 0), (0, 3, 1)]
    rec([], size, max_rank)
    return sorted(set(out))


def generate(seed: int, index: int, cfg: Config | None = None, tagger=None) -> Program:
    """the index-th program of the stream identified by `seed` (deterministic).
    `tagger(node, ordinal, op) -> node` may attach tags to every node as it is built."""
    cfg = cfg or Config()
    rng = random.Random((seed * 1_000_003 + index) * 7919 + 13)
    for attempt in range(20):
        g = _Gen(rng, cfg, index, tagger)
        try:
            return g.run()
        except RecursionError:
            continue
    raise RuntimeError("generator failed")

"""gen/comm.py — seeded generator of multi-rank communication programs, their fault-injected
mutants, and a *global reference evaluation* that never touches pytato.

A program ("spec") is plain JSON-able data:

    {"nranks": 3, "n": 3, "topology": "ring", "tags": [<tagdesc>...],
     "ranks": [{"nodes": [<node>...], "outputs": [[name, node_index]...]}...]}

    <node> ::= {"op": "input", "name": s}
             | {"op": "data", "values": [int…]}             (an unnamed DataWrapper)
             | {"op": "recv", "src": rank, "tag": tag_index, "variant": k}
             | {"op": "add"|"sub"|"mul", "a": i, "b": j}
             | {"op": "addc"|"mulc", "a": i, "c": int}
             | {"op": "alias", "a": i}                      (the same array again)
             | {"op": "send", "data": i, "dst": rank, "tag": tag_index, "pass": j}
                    (a DistributedSendRefHolder: its value is node j's value)
       every node may carry "stored": true (tagged ImplStored).

Nodes only refer to earlier nodes of the same rank, so each rank's graph is a DAG; the
generator creates the receive of a message after its send, so the global data flow is
acyclic by construction.  All arrays are int64 vectors of length `n`.

Everything is a function of (seed, index, profile) — `generate(seed, index, profile)` —
and specs are small enough to be stored verbatim in replays.
"""
from __future__ import annotations

import copy
import random
from typing import Any

import numpy as np

def operands(nd):
    """operand node indices of a computing node (not the edges of a send holder)"""
    out = [nd[k] for k in ("a", "b") if k in nd]
    out += list(nd.get("args", ()))
    return out


def edges(nd):
    """every child node index: operands, and payload + pass-through of a send holder"""
    return operands(nd) + [nd[k] for k in ("data", "pass") if k in nd]


DTYPES = ["int64", "float64", "float32", "complex128"]
KINDS = ["concatenate", "stack", "reshape", "axis_permutation", "roll", "basic_index", "adv_index",
         "einsum", "index_lambda", "sum", "where", "pad"]
CTORS = ["zeros", "ones", "full", "arange", "eye"]


VEC_KINDS = ("roll", "basic_index", "adv_index", "einsum", "index_lambda", "where")


def spec_dtype(nodes, i, memo=None):
    """NumPy dtype name of node i, by NumPy's promotion rules"""
    if memo is None:
        memo = {}
    if i in memo:
        return memo[i]
    nd = nodes[i]
    op = nd["op"]
    if op in ("input", "data", "recv", "ctor"):
        d = np.dtype(nd.get("dtype", "int64"))
    elif op in ("bcast", "call"):
        d = np.dtype(spec_dtype(nodes, nd["args"][0], memo))
    elif op in ("add", "sub", "mul"):
        d = np.result_type(spec_dtype(nodes, nd["a"], memo), spec_dtype(nodes, nd["b"], memo))
    elif op in ("addc", "mulc", "alias"):
        d = np.dtype(spec_dtype(nodes, nd["a"], memo))
    elif op == "send":
        d = np.dtype(spec_dtype(nodes, nd["pass"], memo))
    elif op == "flat":
        d = np.dtype(spec_dtype(nodes, nd["args"][0], memo))
    elif op == "kind":
        if nd["kind"] == "adv_index":
            d = np.dtype(spec_dtype(nodes, nd["args"][0], memo))
        else:
            d = np.result_type(*[spec_dtype(nodes, c, memo) for c in nd["args"]])
    else:
        raise ValueError(op)
    memo[i] = str(d)
    return memo[i]


def spec_is_vec(nodes, i, n):
    nd = nodes[i]
    op = nd["op"]
    if op == "recv":
        return list(nd.get("shape", [n])) == [n]
    if op == "kind":
        return nd["kind"] in VEC_KINDS
    if op == "ctor":
        return nd["ctor"] != "eye"
    if op == "send":
        return spec_is_vec(nodes, nd["pass"], n)
    if op == "alias":
        return spec_is_vec(nodes, nd["a"], n)
    return True


TOPOLOGIES = ["none", "ring", "star", "chain", "multi", "random", "pingpong"]
MAG_LIMIT = 1 << 40


# --------------------------------------------------------------------------- tags

def tag_to_py(desc):
    """tag description -> the hashable Python object used as comm_tag"""
    k, v = desc
    if k == "i":
        return int(v)
    if k == "s":
        return str(v)
    if k == "t":
        return tuple(tag_to_py(x) for x in v)
    if k == "f":
        return frozenset(int(x) for x in v)
    if k == "F":
        return frozenset(str(x) for x in v)
    if k == "b":
        return bytes.fromhex(v)
    if k == "c":
        return _TagClass(int(v))
    raise ValueError(desc)


class _TagClass:
    """a user-defined hashable tag type (equality by value)"""
    def __init__(self, k):
        self.k = k

    def __eq__(self, other):
        return isinstance(other, _TagClass) and other.k == self.k

    def __hash__(self):
        return hash(("_TagClass", self.k))

    def __repr__(self):
        return f"_TagClass({self.k})"


def _fresh_tag_desc(rng: random.Random, k: int, style: str):
    """the k-th tag of a program; pairwise distinct under == by construction (k is embedded)"""
    if style == "int":
        return ["i", 100 + k]
    if style == "str":
        return ["s", f"tag{k}"]
    c = rng.randrange(6)
    if c == 0:
        return ["i", 100 + k]
    if c == 1:
        return ["s", f"tag{k}"]
    if c == 2:
        return ["t", [["s", "t"], ["i", k]]]
    if c == 3:
        return ["f", [k, k + 50]]
    if c == 4:
        return ["b", bytes([k, 255 - k]).hex()]
    return ["c", k]


# --------------------------------------------------------------------------- generation

def _dummy_value(nodes, i, n):
    """shape-carrying dummy evaluation of node i (zeros), for shapes of high-level kinds"""
    nd = nodes[i]
    op = nd["op"]
    if op == "kind":
        args = [_dummy_value(nodes, c, n) for c in nd["args"]]
        if nd["kind"] == "adv_index":
            args[1] = np.zeros(n, dtype=np.int64)
        return kind_value(nd["kind"], args, n)
    if op == "recv":
        return np.zeros(tuple(nd.get("shape", [n])))
    if op == "send":
        return _dummy_value(nodes, nd["pass"], n)
    if op in ("alias", "addc", "mulc", "add", "sub", "mul"):
        return _dummy_value(nodes, nd["a"], n)
    if op in ("flat", "bcast", "call"):
        return np.zeros(n)
    if op == "ctor":
        return np.zeros((n, n)) if nd["ctor"] == "eye" else np.zeros(n)
    if op == "data":
        return np.zeros(len(nd["values"]))
    return np.zeros(n)


class _Builder:
    def __init__(self, rng, nranks, n, tagstyle):
        self.rng = rng
        self.nranks = nranks
        self.n = n
        self.tagstyle = tagstyle
        self.ranks = [{"nodes": [], "outputs": []} for _ in range(nranks)]
        self.mag = [[] for _ in range(nranks)]      # magnitude bound per node
        self.tags: list = []
        self.ncomm = 0
        self.used = [set() for _ in range(nranks)]   # node indices with a user
        self.kind_prob = 0.0
        self.ctor_prob = 0.0
        self.scalar = False

    def add(self, r, node, mag):
        self.ranks[r]["nodes"].append(node)
        self.mag[r].append(mag)
        for c in edges(node):
            self.used[r].add(c)
        return len(self.ranks[r]["nodes"]) - 1

    def new_tag(self, reuse_ok=True):
        self.tags.append(_fresh_tag_desc(self.rng, len(self.tags), self.tagstyle))
        return len(self.tags) - 1

    def pool(self, r):
        nodes = self.ranks[r]["nodes"]
        return [i for i in range(len(nodes)) if spec_is_vec(nodes, i, self.n)]

    def dtype(self, r, i):
        return spec_dtype(self.ranks[r]["nodes"], i)

    def pick(self, r, prefer_recent=True):
        p = self.pool(r)
        if prefer_recent and len(p) > 2 and self.rng.random() < 0.6:
            return self.rng.choice(p[-3:])
        return self.rng.choice(p)

    def ctor_node(self, r, like=None, ctor=None):
        """a node WITHOUT array operands: zeros / ones / full / arange (/ eye)"""
        rng = self.rng
        ctor = ctor or rng.choice(["zeros", "ones", "full", "arange"] if not self.scalar else ["zeros", "ones", "full"])
        dt = self.dtype(r, like) if like is not None else rng.choice(DTYPES)
        nd = {"op": "ctor", "ctor": ctor}
        if dt != "int64":
            nd["dtype"] = dt
        if ctor == "full":
            nd["c"] = rng.choice([-2, 2, 3])
        if rng.random() < 0.2:
            nd["stored"] = True
        return self.add(r, nd, {"zeros": 1, "ones": 1, "full": 3, "arange": max(self.n, 1), "eye": 1}[ctor])

    def compute(self, r, depth=1):
        """add a random arithmetic node on rank r; returns its index"""
        rng = self.rng
        a = self.pick(r)
        if self.ctor_prob and rng.random() < self.ctor_prob:
            # a constructor without operands joins the computation (as operand or on its own)
            c = self.ctor_node(r, like=a if rng.random() < 0.7 else None)
            if rng.random() < 0.3:
                return c
            node = {"op": rng.choice(["add", "sub", "mul"]), "a": a, "b": c}
            if rng.random() < 0.5:
                node["a"], node["b"] = node["b"], node["a"]
            m = self.mag[r][a] * max(self.mag[r][c], 1) + self.mag[r][c]
            if m <= (1 << 18):
                return self.add(r, node, m)
        if self.kind_prob and rng.random() < self.kind_prob / 2:
            # a high-level node consumes local / received data (and stays on this rank)
            k = self.kind_node(r, a, stored=rng.random() < 0.2)
            nodes = self.ranks[r]["nodes"]
            if not spec_is_vec(nodes, k, self.n):
                shape = list(np.shape(_dummy_value(nodes, k, self.n)))
                k = self.add(r, {"op": "bcast" if shape == [] else "flat", "args": [k]}, self.mag[r][k])
            return k
        op = rng.choice(["add", "sub", "addc", "mulc", "add", "mul"])
        if op in ("add", "sub", "mul"):
            b = self.pick(r, prefer_recent=False)
            ma, mb = self.mag[r][a], self.mag[r][b]
            m = ma * mb if op == "mul" else ma + mb
            if m > MAG_LIMIT:
                op, m = "addc", ma + 3
                node = {"op": "addc", "a": a, "c": rng.choice([-3, -2, -1, 1, 2, 3])}
            else:
                node = {"op": op, "a": a, "b": b}
        elif op == "addc":
            node, m = {"op": "addc", "a": a, "c": rng.choice([-3, -2, -1, 1, 2, 3])}, self.mag[r][a] + 3
        else:
            c = rng.choice([-2, -1, 2, 3])
            m = self.mag[r][a] * abs(c)
            if m > MAG_LIMIT:
                node, m = {"op": "addc", "a": a, "c": c}, self.mag[r][a] + 3
            else:
                node = {"op": "mulc", "a": a, "c": c}
        if rng.random() < 0.3:
            node["stored"] = True
        idx = self.add(r, node, m)
        if self.dtype(r, idx) == "float32" and m > (1 << 20):
            # keep float32 arithmetic exact: replace by a small step
            nodes = self.ranks[r]["nodes"]
            nodes[idx] = {"op": "addc", "a": a, "c": 1, **({"stored": True} if node.get("stored") else {})}
            self.mag[r][idx] = self.mag[r][a] + 1
        return idx

    def comm(self, src, dst, data=None, tag=None, fresh_compute=None, stored_recv=None):
        """one message src -> dst; returns (send holder index on src, recv index on dst)"""
        rng = self.rng
        if data is None:
            if fresh_compute is None:
                fresh_compute = rng.random() < 0.5
            data = self.compute(src) if fresh_compute else self.pick(src)
        if tag is None:
            tag = self.new_tag()
        # the holder is stapled to some existing node (often the sent data, an input or a receive)
        c = rng.random()
        if c < 0.3:
            pas = data
        else:
            pas = self.pick(src, prefer_recent=False)
        if self.ctor_prob and rng.random() < self.ctor_prob / 2:
            # the send buffer is a constructor without operands
            data = self.ctor_node(src, ctor=None if (self.scalar or self.n == 0 or rng.random() < 0.6) else "eye")
        elif self.kind_prob and rng.random() < self.kind_prob:
            # the send buffer itself is a high-level node ("bare" payload)
            data = self.kind_node(src, data, stored=rng.random() < 0.3)
        h = self.add(src, {"op": "send", "data": data, "dst": dst, "tag": tag, "pass": pas},
                     self.mag[src][pas])
        snodes = self.ranks[src]["nodes"]
        shape = list(np.shape(_dummy_value(snodes, data, self.n)))
        rnode = {"op": "recv", "src": src, "tag": tag, "variant": 0}
        dt = self.dtype(src, data)
        if dt != "int64":
            rnode["dtype"] = dt
        if shape != [self.n]:
            rnode["shape"] = shape
        if stored_recv if stored_recv is not None else rng.random() < 0.15:
            rnode["stored"] = True
        v = self.add(dst, rnode, self.mag[src][data])
        if shape != [self.n]:
            v = self.add(dst, {"op": "bcast" if shape == [] else "flat", "args": [v]}, self.mag[src][data])
        self.ncomm += 1
        return h, v

    def kind_node(self, r, a, kind=None, stored=False):
        """a high-level node (Concatenate, Stack, Reshape, …) over vector `a` of rank r"""
        rng = self.rng
        kind = kind or rng.choice(KINDS)
        if kind == "where" and np.dtype(self.dtype(r, a)).kind == "c":
            kind = "roll"
        if kind == "adv_index" and rng.random() < 0.4:
            b = self.add(r, {"op": "ctor", "ctor": "arange"}, max(self.n, 1))      # constructed index array
        elif kind == "adv_index":
            perm = list(range(self.n))
            rng.shuffle(perm)
            b = self.add(r, {"op": "data", "values": perm}, self.n)
        else:
            same = [i for i in self.pool(r) if self.dtype(r, i) == self.dtype(r, a) and self.mag[r][i] <= (1 << 18)]
            b = rng.choice(same) if same and rng.random() < 0.5 else a
        m = self.mag[r][a]
        if kind == "einsum":
            m = m * self.mag[r][b]
        elif kind == "index_lambda":
            m = m + self.mag[r][b]
        elif kind == "sum":
            m = m * max(self.n, 1)
        if m > MAG_LIMIT or (self.dtype(r, a) == "float32" and m > (1 << 20)):
            kind, b, m = "roll", a, self.mag[r][a]
        node = {"op": "kind", "kind": kind,
                "args": [a, b] if kind not in ("reshape", "roll", "basic_index", "sum", "pad") else [a]}
        if stored:
            node["stored"] = True
        return self.add(r, node, m)

    def finish(self, collide_names=False):
        """outputs: every node without a user that must stay alive (holders, receives) is
        tied to an output; plus random extra outputs (incl. inputs / receives unchanged)"""
        rng = self.rng
        for r, rk in enumerate(self.ranks):
            nodes = rk["nodes"]
            dangling = [i for i, nd in enumerate(nodes)
                        if nd["op"] in ("send", "recv") and i not in self.used[r]]
            outs = []
            mode = rng.random()
            if dangling and mode < 0.4 and len(dangling) > 1:
                # sum them all into one output
                acc = dangling[0]
                for d in dangling[1:]:
                    acc = self.add(r, {"op": "add", "a": acc, "b": d}, self.mag[r][acc] + self.mag[r][d])
                outs.append(acc)
            else:
                outs.extend(dangling)
            # extra outputs
            for _ in range(rng.choice([0, 1, 1, 2])):
                c = rng.random()
                if c < 0.3:
                    cands = [i for i, nd in enumerate(nodes) if nd["op"] in ("input", "recv")]
                    outs.append(rng.choice(cands))
                elif c < 0.6:
                    outs.append(self.compute(r))
                else:
                    outs.append(self.pick(r, prefer_recent=False))
            if not outs:
                outs.append(self.pick(r))
            # every communication node must stay live (dead code is eliminated by the partitioner)
            while True:
                rk["outputs"] = [[f"o{k}", o] for k, o in enumerate(outs)]
                live = set(live_nodes(rk))
                dead = [i for i, nd in enumerate(nodes) if nd["op"] in ("send", "recv") and i not in live]
                if not dead:
                    break
                outs.append(dead[-1])
            names = []
            for k, o in enumerate(outs):
                nm = f"out{k}"
                names.append([nm, o])
            if rng.random() < 0.2 and len(names) >= 1:
                # one array under two output names
                names.append([f"out{len(names)}", names[0][1]])
            if collide_names and rng.random() < 0.5:
                # an output that carries the name of a user input
                names[rng.randrange(len(names))][0] = "x"
            rk["outputs"] = names

    def spec(self, topology):
        return {"nranks": self.nranks, "n": self.n, "topology": topology, "tags": self.tags,
                "ranks": self.ranks}


def generate(seed: int, index: int, profile: str = "default") -> dict:
    """the index-th program of stream `seed`"""
    rng = random.Random(f"comm:{seed}:{index}:{profile}")
    if profile == "small":          # small enough for exhaustive schedule enumeration
        nranks = rng.choice([1, 2, 2, 3, 3])
        maxcomm = 4
    else:
        nranks = rng.choice([1, 2, 2, 3, 3, 3, 4, 4])
        maxcomm = 6
    n = rng.choice([1, 2, 3, 1, 2, 3, 1, 2, 3, 2, 3, 0])       # zero-size arrays now and then
    scalar = n > 0 and rng.random() < 0.07                       # 0-d arrays: every array has shape ()
    if scalar:
        n = 1
    tagstyle = rng.choice(["int", "str", "mixed", "mixed"])
    b = _Builder(rng, nranks, n, tagstyle)
    dstyle = rng.choice(["int", "int", "mixed", "mixed", "float64", "complex128", "float32"])
    b.kind_prob = 0.0 if scalar else rng.choice([0.0, 0.0, 0.3, 0.6])
    b.ctor_prob = rng.choice([0.0, 0.15, 0.3])
    b.scalar = scalar
    for r in range(nranks):
        for nm in rng.choice([["x"], ["x", "y"]]):
            nd = {"op": "input", "name": nm}
            dt = "int64" if dstyle == "int" else rng.choice(DTYPES) if dstyle == "mixed" else dstyle
            if dt != "int64":
                nd["dtype"] = dt
            if rng.random() < 0.1:
                nd["stored"] = True
            b.add(r, nd, 4)
        for _ in range(rng.randint(0, 2)):
            b.compute(r)
    if nranks == 1:
        topo = "none"
    else:
        topo = rng.choice(TOPOLOGIES[1:] + (["none"] if rng.random() < 0.15 else []))
    ncomm = 0 if topo == "none" else rng.randint(1, maxcomm)

    def interleave():
        for _ in range(rng.choice([0, 0, 1, 2])):
            b.compute(rng.randrange(nranks))

    if topo == "ring":
        start = rng.randrange(nranks)
        prev_recv = None
        for k in range(ncomm):
            src = (start + k) % nranks
            dst = (start + k + 1) % nranks
            data = None
            if prev_recv is not None and rng.random() < 0.8:
                # data sent depends on (or is) the data just received
                if rng.random() < 0.3:
                    data = prev_recv
                else:
                    other = b.pick(src, False)
                    data = b.add(src, {"op": rng.choice(["add", "sub"]), "a": prev_recv, "b": other},
                                 b.mag[src][prev_recv] + b.mag[src][other])
            _, prev_recv = b.comm(src, dst, data=data)
            interleave()
    elif topo == "star":
        centre = rng.randrange(nranks)
        others = [r for r in range(nranks) if r != centre]
        k = 0
        recvd = {}
        while k < ncomm:
            o = others[k % len(others)]
            if k < len(others) or rng.random() < 0.5:
                _, v = b.comm(centre, o)
                recvd[o] = v
            else:
                data = recvd.get(o) if rng.random() < 0.5 else None
                b.comm(o, centre, data=data)
            k += 1
            interleave()
    elif topo == "chain":
        prev = None
        pos = 0
        for k in range(ncomm):
            if pos + 1 >= nranks:
                # restart the chain at rank 0 without closing the ring
                pos, prev = 0, None
            src, dst = pos, pos + 1
            data = None
            if prev is not None and rng.random() < 0.7:
                data = b.add(src, {"op": "addc", "a": prev, "c": rng.choice([-2, -1, 1, 2])}, b.mag[src][prev] + 2)
            _, prev = b.comm(src, dst, data=data)
            pos += 1
            interleave()
    elif topo == "multi":
        src = rng.randrange(nranks)
        dst = rng.choice([r for r in range(nranks) if r != src])
        for k in range(ncomm):
            if rng.random() < 0.8:
                b.comm(src, dst, data=(b.pick(src) if rng.random() < 0.3 else None))
            else:
                s2 = rng.randrange(nranks)
                d2 = rng.choice([r for r in range(nranks) if r != s2])
                b.comm(s2, d2)
            interleave()
    elif topo == "pingpong":
        a = rng.randrange(nranks)
        c = rng.choice([r for r in range(nranks) if r != a])
        prev = None
        for k in range(ncomm):
            src, dst = (a, c) if k % 2 == 0 else (c, a)
            data = None
            if prev is not None:
                data = prev if rng.random() < 0.3 else \
                    b.add(src, {"op": "mulc", "a": prev, "c": rng.choice([-1, 2])}, b.mag[src][prev] * 2)
            _, prev = b.comm(src, dst, data=data)
            interleave()
    elif topo == "random":
        for k in range(ncomm):
            src = rng.randrange(nranks)
            dst = rng.choice([r for r in range(nranks) if r != src])
            # same symbolic tag between different rank pairs is legal: reuse sometimes
            tag = None
            if b.tags and rng.random() < 0.25:
                t = rng.randrange(len(b.tags))
                pairs = {(s, nd["dst"]) for s, rk in enumerate(b.ranks) for nd in rk["nodes"]
                         if nd["op"] == "send" and nd["tag"] == t}
                if (src, dst) not in pairs:
                    tag = t
            b.comm(src, dst, tag=tag)
            interleave()
    for r in range(nranks):
        for _ in range(rng.randint(0, 2)):
            b.compute(r)
    b.finish(collide_names=rng.random() < 0.08)
    s = b.spec(topo)
    s["seed"], s["index"], s["profile"] = seed, index, profile
    if scalar:
        s["scalar"] = True
    return s


# --------------------------------------------------------------------------- structure of a spec

def live_nodes(rk) -> list[int]:
    """indices reachable from the outputs (through operands, sent data and pass-through)"""
    nodes = rk["nodes"]
    seen = set()
    stack = [o for _, o in rk["outputs"]]
    while stack:
        i = stack.pop()
        if i in seen:
            continue
        seen.add(i)
        nd = nodes[i]
        stack.extend(edges(nd))
    return sorted(seen)


def node_key(rk, i, memo=None):
    """structural identity of node i (pytato arrays are compared structurally, and the graphs
    are deduplicated before partitioning: equal keys = one node)"""
    if memo is None:
        memo = {}
    if i in memo:
        return memo[i]
    nd = rk["nodes"][i]
    op = nd["op"]
    st = bool(nd.get("stored"))
    if op == "input":
        k = ("input", nd["name"], st)
    elif op == "data":
        k = ("data", i, st)          # data wrappers are compared by identity of their buffer
    elif op == "kind" and nd["kind"] == "index_lambda":
        # `a + b` is the same array whether it was asked for as a "kind" or as an "add"
        k = ("add", node_key(rk, nd["args"][0], memo), node_key(rk, nd["args"][-1], memo), i if st else False)
    elif op in ("kind", "flat", "bcast", "call"):
        k = (op, nd.get("kind"), tuple(node_key(rk, c, memo) for c in nd["args"]), i if st else False)
    elif op == "ctor":
        k = ("ctor", nd["ctor"], nd.get("dtype", "int64"), nd.get("c", 2), i if st else False)
    elif op == "recv":
        k = ("recv", nd["src"], nd["tag"], nd.get("variant", 0), st, nd.get("dtype", "int64"),
             tuple(nd.get("shape", ())))
    elif op == "alias":
        k = node_key(rk, nd["a"], memo)
    elif op == "send":
        k = ("send", node_key(rk, nd["data"], memo), nd["dst"], nd["tag"], node_key(rk, nd["pass"], memo))
    elif op in ("add", "sub", "mul"):
        k = (op, node_key(rk, nd["a"], memo), node_key(rk, nd["b"], memo), i if st else False)
    else:
        k = (op, node_key(rk, nd["a"], memo), nd["c"], i if st else False)
    memo[i] = k
    return k


def comm_ops(spec):
    """live sends and receives (structurally distinct nodes): dicts with rank/node/peer/tag"""
    sends, recvs = [], []
    for r, rk in enumerate(spec["ranks"]):
        memo: dict = {}
        seen = set()
        for i in live_nodes(rk):
            nd = rk["nodes"][i]
            if nd["op"] not in ("send", "recv"):
                continue
            k = node_key(rk, i, memo)
            if k in seen:
                continue
            seen.add(k)
            if nd["op"] == "send":
                sends.append({"rank": r, "node": i, "dst": nd["dst"], "tag": nd["tag"]})
            else:
                recvs.append({"rank": r, "node": i, "src": nd["src"], "tag": nd["tag"],
                              "variant": nd.get("variant", 0)})
    return sends, recvs


def recv_deps(rk, i, memo=None):
    """receive nodes the *value* of node i depends on (a holder's value is its pass-through)"""
    if memo is None:
        memo = {}
    if i in memo:
        return memo[i]
    nd = rk["nodes"][i]
    if nd["op"] == "recv":
        res = frozenset([i])
    elif nd["op"] == "send":
        res = recv_deps(rk, nd["pass"], memo)
    else:
        res = frozenset()
        for c in operands(nd):
            res |= recv_deps(rk, c, memo)
    memo[i] = res
    return res


def comm_graph(spec):
    """the communication graph of the program as the Lean model reads it:
    sends [(rank, dst, tag, [(src, tag) of the local receives the payload depends on])],
    recvs [(rank, src, tag)] — one entry per distinct live node."""
    sends, recvs = comm_ops(spec)
    gs, gr = [], []
    for s in sends:
        rk = spec["ranks"][s["rank"]]
        deps = recv_deps(rk, rk["nodes"][s["node"]]["data"])
        gs.append((s["rank"], s["dst"], s["tag"],
                   sorted({(rk["nodes"][d]["src"], rk["nodes"][d]["tag"]) for d in deps})))
    for v in recvs:
        gr.append((v["rank"], v["src"], v["tag"]))
    return gs, gr


def resolve_alias(rk, i):
    while rk["nodes"][i]["op"] == "alias":
        i = rk["nodes"][i]["a"]
    return i


def _all_recvs_below(rk, i, memo):
    """receive nodes reachable from node i through every edge (operands, aliases, pass-through
    AND the payload of stapled sends) — what a structural dependency walk sees"""
    if i in memo:
        return memo[i]
    nd = rk["nodes"][i]
    res = frozenset([i]) if nd["op"] == "recv" else frozenset()
    for c in edges(nd):
        res |= _all_recvs_below(rk, c, memo)
    memo[i] = res
    return res


def _reach(rk, i):
    """all nodes reachable from node i through every edge"""
    seen = set()
    stack = [i]
    while stack:
        j = stack.pop()
        if j in seen:
            continue
        seen.add(j)
        nd = rk["nodes"][j]
        stack.extend(edges(nd))
    return seen


def known_patterns(spec):
    """spec-level predicates naming the program shapes of the defects found on the unchanged tree"""
    sends, _ = comm_ops(spec)
    fwd = holder = False
    for s in sends:
        rk = spec["ranks"][s["rank"]]
        data = rk["nodes"][s["node"]]["data"]
        if rk["nodes"][resolve_alias(rk, data)]["op"] == "recv":
            fwd = True
        if _all_recvs_below(rk, data, {}) != recv_deps(rk, data):
            holder = True
    nested = False
    for a in sends:
        for b in sends:
            if a is not b and (a["rank"], a["dst"], a["tag"]) == (b["rank"], b["dst"], b["tag"]):
                rk = spec["ranks"][a["rank"]]
                if b["node"] in _reach(rk, rk["nodes"][a["node"]]["data"]):
                    nested = True
    out_in = False
    for rk in spec["ranks"]:
        live = live_nodes(rk)
        innames = {rk["nodes"][i]["name"] for i in live if rk["nodes"][i]["op"] == "input"}
        if any(nm in innames for nm, _ in rk["outputs"]):
            out_in = True
    return {"send_of_unmodified_recv": fwd, "payload_through_send_holder": holder,
            "output_named_like_input": out_in, "duplicate_send_nested_in_payload": nested}


def stats(spec):
    sends, recvs = comm_ops(spec)
    return {"nranks": spec["nranks"], "ncomm": len(sends), "topology": spec.get("topology"),
            "stored": sum(1 for rk in spec["ranks"] for nd in rk["nodes"] if nd.get("stored")),
            "send_of_recv": sum(1 for s in sends
                                if recv_deps(spec["ranks"][s["rank"]],
                                             spec["ranks"][s["rank"]]["nodes"][s["node"]]["data"])),
            "forwarded_unchanged": sum(
                1 for s in sends
                if spec["ranks"][s["rank"]]["nodes"][resolve_alias(
                    spec["ranks"][s["rank"]], spec["ranks"][s["rank"]]["nodes"][s["node"]]["data"])]["op"] == "recv"),
            "holder_on_recv": sum(
                1 for s in sends
                if spec["ranks"][s["rank"]]["nodes"][spec["ranks"][s["rank"]]["nodes"][s["node"]]["pass"]]["op"] == "recv"),
            "passthrough_outputs": sum(
                1 for rk in spec["ranks"] for _, o in rk["outputs"]
                if _strip(rk, o) in ("input", "recv")),
            "repeated_peer": int(len({(s["rank"], s["dst"]) for s in sends}) < len(sends))}


def _strip(rk, i):
    nd = rk["nodes"][i]
    while nd["op"] in ("send", "alias"):
        nd = rk["nodes"][nd["pass"] if nd["op"] == "send" else nd["a"]]
    return nd["op"]


# --------------------------------------------------------------------------- reference evaluation

def cast_small(vals, dtype):
    """small integers as an array of `dtype` (complex: with an imaginary part, bool: parity)"""
    a = np.array(vals, dtype=np.int64)
    dt = np.dtype(dtype)
    if dt.kind == "c":
        return (a + 1j * ((a[::-1] if a.ndim else a) + 1)).astype(dt)
    if dt.kind == "b":
        return a % 2 == 0
    return a.astype(dt)


def input_dtype(spec, rank, name):
    for nd in spec["ranks"][rank]["nodes"]:
        if nd["op"] == "input" and nd["name"] == name:
            return nd.get("dtype", "int64")
    return "int64"


def input_value(spec, rank, name):
    """deterministic small data for input `name` of `rank`, of the input's dtype"""
    salt = (spec.get("input_salt") or {}).get(f"{rank}:{name}")     # the caller replaced this input
    rng = random.Random(f"in:{spec.get('seed', 0)}:{spec.get('index', 0)}:{rank}:{name}"
                        + (f":{salt}" if salt else ""))
    vals = [rng.randint(-3, 3) for _ in range(spec["n"])]
    if spec.get("scalar"):
        vals = vals[0]
    return cast_small(vals, input_dtype(spec, rank, name))


def kind_value(kind, args, n):
    """NumPy meaning of a high-level node kind applied to vectors"""
    a = args[0]
    b = args[1] if len(args) > 1 else args[0]
    if kind == "concatenate":
        return np.concatenate([a, b])
    if kind == "stack":
        return np.stack([a, b])
    if kind == "reshape":
        return a.reshape(n, 1)
    if kind == "axis_permutation":
        return np.transpose(np.stack([a, b]))
    if kind == "roll":
        return np.roll(a, 1)
    if kind == "basic_index":
        return a[::-1]
    if kind == "adv_index":
        return a[b]                      # b: integer index vector
    if kind == "einsum":
        return np.einsum("i,i->i", a, b)
    if kind == "index_lambda":
        return a + b
    if kind == "sum":
        return np.sum(a).astype(a.dtype)          # pytato keeps the operand dtype
    if kind == "where":
        return np.where(a > b, a, b)
    if kind == "pad":
        return np.pad(a, 1)
    raise ValueError(kind)


def ctor_value(nd, n, scalar=False):
    dt = np.dtype(nd.get("dtype", "int64"))
    shape = () if scalar else (n,)
    c = nd["ctor"]
    if c == "zeros":
        return np.zeros(shape, dt)
    if c == "ones":
        return np.ones(shape, dt)
    if c == "full":
        return np.full(shape, nd.get("c", 2), dt)
    if c == "arange":
        return np.arange(n, dtype=dt)
    if c == "eye":
        return np.eye(n, dtype=dt)
    raise ValueError(c)


def input_args(spec, rank):
    names = sorted({nd["name"] for nd in spec["ranks"][rank]["nodes"] if nd["op"] == "input"})
    return {nm: input_value(spec, rank, nm) for nm in names}


class RefUndefined(Exception):
    pass


def reference(spec, with_nodes=False):
    """Evaluate the unpartitioned global data-flow graph across ranks.  Returns
    [ {output name: ndarray} per rank ].  Independent of pytato."""
    memo: dict[tuple[int, int], np.ndarray] = {}
    active: set = set()

    def ev(r, i):
        key = (r, i)
        if key in memo:
            return memo[key]
        if key in active:
            raise RefUndefined("cyclic data flow")
        active.add(key)
        rk = spec["ranks"][r]
        nd = rk["nodes"][i]
        op = nd["op"]
        if op == "input":
            v = input_value(spec, r, nd["name"])
        elif op == "data":
            v = cast_small(nd["values"], nd.get("dtype", "int64"))
        elif op == "kind":
            v = kind_value(nd["kind"], [ev(r, c) for c in nd["args"]], spec["n"])
        elif op == "flat":
            v = ev(r, nd["args"][0]).reshape(-1)[:spec["n"]]
        elif op == "call":
            v = ev(r, nd["args"][0]) * 2
        elif op == "bcast":
            a0 = ev(r, nd["args"][0])
            v = np.zeros(spec["n"], a0.dtype) + a0
        elif op == "ctor":
            v = ctor_value(nd, spec["n"], bool(spec.get("scalar")))
        elif op == "recv":
            src = nd["src"]
            if not (0 <= src < spec["nranks"]):
                raise RefUndefined("receive from a nonexistent rank")
            live = set(live_nodes(spec["ranks"][src]))
            cands = [j for j, s in enumerate(spec["ranks"][src]["nodes"])
                     if s["op"] == "send" and s["dst"] == r and s["tag"] == nd["tag"] and j in live]
            if len(cands) != 1:
                raise RefUndefined(f"{len(cands)} sends for a receive")
            v = ev(src, spec["ranks"][src]["nodes"][cands[0]]["data"])
        elif op == "add":
            v = ev(r, nd["a"]) + ev(r, nd["b"])
        elif op == "sub":
            v = ev(r, nd["a"]) - ev(r, nd["b"])
        elif op == "mul":
            v = ev(r, nd["a"]) * ev(r, nd["b"])
        elif op == "addc":
            v = ev(r, nd["a"]) + nd["c"]
        elif op == "mulc":
            v = ev(r, nd["a"]) * nd["c"]
        elif op == "alias":
            v = ev(r, nd["a"])
        elif op == "send":
            v = ev(r, nd["pass"])
        else:
            raise ValueError(op)
        active.discard(key)
        memo[key] = v
        return v

    res = [{nm: ev(r, o) for nm, o in rk["outputs"]} for r, rk in enumerate(spec["ranks"])]
    if with_nodes:
        for r, rk in enumerate(spec["ranks"]):
            for i in live_nodes(rk):
                ev(r, i)
        return res, memo
    return res


# --------------------------------------------------------------------------- pytato construction

_VARIANT = None


def _variant_class():
    """a pytools Tag that makes a second receive node distinct from the first (module-level
    class so that collective payloads containing it can be pickled)"""
    global _VARIANT, CommVariantTag
    if _VARIANT is None:
        from pytools.tag import Tag

        class CommVariantTag(Tag):
            def __init__(self, k):
                self.k = k

            def __eq__(self, o):
                return type(o) is type(self) and o.k == self.k

            def __hash__(self):
                return hash(("CommVariantTag", self.k))

            def __repr__(self):
                return f"CommVariantTag({self.k})"

            def __reduce__(self):
                return (_make_variant, (self.k,))
        CommVariantTag.__qualname__ = "CommVariantTag"
        _VARIANT = CommVariantTag
    return _VARIANT


def _make_variant(k):
    return _variant_class()(k)


_NODEID = None


def _nodeid_class():
    """a pytools Tag naming the spec node a stored computing array was built from (lets the
    harness map generated part-output names back to program nodes)"""
    global _NODEID, CommNodeId
    if _NODEID is None:
        from pytools.tag import Tag

        class CommNodeId(Tag):
            def __init__(self, k):
                self.k = k

            def __eq__(self, o):
                return type(o) is type(self) and o.k == self.k

            def __hash__(self):
                return hash(("CommNodeId", self.k))

            def __repr__(self):
                return f"CommNodeId({self.k})"

            def __reduce__(self):
                return (_make_nodeid, (self.k,))
        CommNodeId.__qualname__ = "CommNodeId"
        _NODEID = CommNodeId
    return _NODEID


def _make_nodeid(k):
    return _nodeid_class()(k)


def _build_kind(pt, kind, args, n):
    a = args[0]
    b = args[1] if len(args) > 1 else args[0]
    if kind == "concatenate":
        return pt.concatenate([a, b])
    if kind == "stack":
        return pt.stack([a, b])
    if kind == "reshape":
        return pt.reshape(a, (n, 1))
    if kind == "axis_permutation":
        return pt.transpose(pt.stack([a, b]))
    if kind == "roll":
        return pt.roll(a, 1)
    if kind == "basic_index":
        return a[::-1]
    if kind == "adv_index":
        return a[b]
    if kind == "einsum":
        return pt.einsum("i,i->i", a, b)
    if kind == "index_lambda":
        return a + b
    if kind == "sum":
        return pt.sum(a)
    if kind == "where":
        return pt.where(pt.greater(a, b), a, b)
    if kind == "pad":
        return pt.pad(a, 1)
    raise ValueError(kind)


def _doubler(a):
    return 2 * a


def build(spec, rank):
    """the DictOfNamedArrays of `rank` (fresh pytato objects on every call)"""
    import pytato as pt
    from pytato.tags import ImplStored
    _Variant = _variant_class()

    rk = spec["ranks"][rank]
    n = spec["n"]
    vshape = () if spec.get("scalar") else (n,)
    tags = [tag_to_py(t) for t in spec["tags"]]
    vals: list[Any] = []
    for nd in rk["nodes"]:
        op = nd["op"]
        if op == "input":
            v = pt.make_placeholder(nd["name"], vshape, np.dtype(nd.get("dtype", "int64")))
        elif op == "data":
            v = pt.make_data_wrapper(cast_small(nd["values"], nd.get("dtype", "int64")),      # unnamed
                                     tags=frozenset([_nodeid_class()(len(vals))]))
        elif op == "kind":
            v = _build_kind(pt, nd["kind"], [vals[c] for c in nd["args"]], n)
        elif op == "flat":
            v = vals[nd["args"][0]].reshape(-1)[:n]
        elif op == "call":
            v = pt.trace_call(_doubler, vals[nd["args"][0]])
        elif op == "bcast":
            v = pt.zeros((n,), vals[nd["args"][0]].dtype) + vals[nd["args"][0]]
        elif op == "ctor":
            dt_ = np.dtype(nd.get("dtype", "int64"))
            c_ = nd["ctor"]
            v = (pt.zeros(vshape, dt_) if c_ == "zeros" else pt.ones(vshape, dt_) if c_ == "ones"
                 else pt.full(vshape, nd.get("c", 2), dt_) if c_ == "full"
                 else pt.arange(n, dtype=dt_) if c_ == "arange" else pt.eye(n, dtype=dt_))
        elif op == "recv":
            extra = frozenset()
            if nd.get("variant", 0):
                extra = frozenset([_Variant(nd["variant"])])
            v = pt.make_distributed_recv(nd["src"], tags[nd["tag"]], tuple(nd["shape"]) if "shape" in nd else vshape,
                                         np.dtype(nd.get("dtype", "int64")), tags=extra)
        elif op == "add":
            v = vals[nd["a"]] + vals[nd["b"]]
        elif op == "sub":
            v = vals[nd["a"]] - vals[nd["b"]]
        elif op == "mul":
            v = vals[nd["a"]] * vals[nd["b"]]
        elif op == "addc":
            v = vals[nd["a"]] + nd["c"]
        elif op == "mulc":
            v = vals[nd["a"]] * nd["c"]
        elif op == "alias":
            v = vals[nd["a"]]
        elif op == "send":
            v = pt.staple_distributed_send(vals[nd["data"]], nd["dst"], tags[nd["tag"]],
                                           stapled_to=vals[nd["pass"]])
        else:
            raise ValueError(op)
        if nd.get("stored") and op not in ("alias",):
            v = v.tagged(ImplStored())
            if op in ("add", "sub", "mul", "addc", "mulc", "kind", "flat", "bcast", "ctor"):
                v = v.tagged(_nodeid_class()(len(vals)))
        vals.append(v)
    res = pt.make_dict_of_named_arrays({nm: vals[o] for nm, o in rk["outputs"]})
    # separately built equal sub-expressions must be one object for pytato's cached mappers
    return pt.transform.deduplicate(res)


# --------------------------------------------------------------------------- faults (C10)

FAULT_KINDS = ["drop_send", "dup_send", "retag_send", "redirect_send", "self_send", "send_to_nowhere",
               "drop_recv", "dup_recv", "retag_recv", "redirect_recv", "self_recv", "recv_from_nowhere",
               "cycle"]


def _add_output(rk, idx):
    rk["outputs"].append([f"fault{len(rk['outputs'])}", idx])


def fault_sites(spec):
    """every (kind, site) applicable to the program; site indexes comm_ops()"""
    sends, recvs = comm_ops(spec)
    out = []
    for k in range(len(sends)):
        for kind in ("drop_send", "dup_send", "retag_send", "redirect_send", "self_send", "send_to_nowhere"):
            out.append((kind, k))
        out.append(("cycle", k))
    for k in range(len(recvs)):
        for kind in ("drop_recv", "dup_recv", "retag_recv", "redirect_recv", "self_recv", "recv_from_nowhere"):
            out.append((kind, k))
    return out


def apply_fault(spec, kind, site, variant=0):
    """returns a new spec with the fault, or None when it does not apply at this site"""
    sp = copy.deepcopy(spec)
    sends, recvs = comm_ops(sp)
    nr = sp["nranks"]
    if kind.endswith("_send") or kind in ("cycle", "send_to_nowhere"):
        if site >= len(sends):
            return None
        s = sends[site]
        rk = sp["ranks"][s["rank"]]
        nd = rk["nodes"][s["node"]]
    else:
        if site >= len(recvs):
            return None
        v = recvs[site]
        rk = sp["ranks"][v["rank"]]
        nd = rk["nodes"][v["node"]]

    if kind == "drop_send":
        pas = nd["pass"]
        nd.clear()
        nd.update({"op": "alias", "a": pas})
    elif kind == "dup_send":
        # a second send with the same (dst, tag): other data, stapled elsewhere
        if variant == 2:
            # the duplicate's payload is computed from the original holder
            h = s["node"]
            rk["nodes"].append({"op": "add", "a": h, "b": h})
            rk["nodes"].append({"op": "send", "data": len(rk["nodes"]) - 1, "dst": nd["dst"], "tag": nd["tag"],
                                "pass": h})
            # visited before the original: first output
            rk["outputs"].insert(0, [f"fault{len(rk['outputs'])}", len(rk["nodes"]) - 1])
            sp.setdefault("faults", []).append([kind, site, variant])
            return sp
        else:
            data = nd["data"]
            if variant % 2 == 1:
                # another array of the SAME dtype and shape (the two ends of a message must agree on both)
                nodes_ = rk["nodes"]
                want = (spec_dtype(nodes_, nd["data"]), np.shape(_dummy_value(nodes_, nd["data"], sp["n"])))
                cands = [i for i in range(len(nodes_)) if i != nd["data"] and nodes_[i]["op"] not in ("send", "alias")
                         and (spec_dtype(nodes_, i), np.shape(_dummy_value(nodes_, i, sp["n"]))) == want]
                if cands:
                    data = cands[0]
            rk["nodes"].append({"op": "send", "data": data, "dst": nd["dst"], "tag": nd["tag"], "pass": 0})
        _add_output(rk, len(rk["nodes"]) - 1)
    elif kind == "retag_send":
        sp["tags"].append(["s", f"faulttag{len(sp['tags'])}"])
        nd["tag"] = len(sp["tags"]) - 1
    elif kind == "redirect_send":
        others = [d for d in range(nr) if d not in (s["rank"], nd["dst"])]
        nd["dst"] = others[variant % len(others)] if others else nr + 1   # nonexistent rank
    elif kind == "self_send":
        nd["dst"] = s["rank"]
    elif kind == "send_to_nowhere":
        nd["dst"] = nr + 1
    elif kind == "drop_recv":
        dt = nd.get("dtype")
        nd.clear()
        nd.update({"op": "input", "name": f"dropped{site}"})
        if dt:
            nd["dtype"] = dt
    elif kind == "dup_recv":
        rk["nodes"].append({"op": "recv", "src": nd["src"], "tag": nd["tag"],
                            "variant": nd.get("variant", 0) + 1 + variant,
                            **{k: nd[k] for k in ("dtype", "shape") if k in nd}})
        _add_output(rk, len(rk["nodes"]) - 1)
    elif kind == "retag_recv":
        sp["tags"].append(["s", f"faulttag{len(sp['tags'])}"])
        nd["tag"] = len(sp["tags"]) - 1
    elif kind == "redirect_recv":
        others = [d for d in range(nr) if d not in (v["rank"], nd["src"])]
        nd["src"] = others[variant % len(others)] if others else nr + 1
    elif kind == "self_recv":
        nd["src"] = v["rank"]
    elif kind == "recv_from_nowhere":
        nd["src"] = nr + 1
    elif kind == "cycle":
        # make the payload of send `site` depend on a receive (same rank) that itself
        # depends — across ranks — on this very send
        dep = _downstream_recvs(sp, s)
        if not dep:
            return None
        rv = dep[variant % len(dep)]
        nodes = rk["nodes"]
        # nodes must stay topologically ordered: append the new payload and a new holder,
        # turn the old holder into an alias of its pass-through
        da, db = nd["data"], rv
        n_ = sp["n"]
        if not (spec_is_vec(nodes, da, n_) and spec_is_vec(nodes, db, n_)):
            nodes.append({"op": "flat", "args": [da]})
            da = len(nodes) - 1
            nodes.append({"op": "flat", "args": [db]})
            db = len(nodes) - 1
        nodes.append({"op": "add", "a": da, "b": db})
        newdata = len(nodes) - 1
        nodes.append({"op": "send", "data": newdata, "dst": nd["dst"], "tag": nd["tag"], "pass": nd["pass"]})
        pas = nd["pass"]
        nd.clear()
        nd.update({"op": "alias", "a": pas})
        _add_output(rk, len(nodes) - 1)
    else:
        raise ValueError(kind)
    sp.setdefault("faults", []).append([kind, site, variant])
    return sp


def _downstream_recvs(spec, s):
    """live receive nodes on s's rank whose value depends (globally) on send s"""
    sends, recvs = comm_ops(spec)
    # edges: send -> matching recvs; recv -> sends on its rank whose payload depends on it
    start = (s["rank"], s["dst"], s["tag"])
    reached_recv_nodes = set()
    frontier = [start]
    seen_ids = set()
    while frontier:
        cid = frontier.pop()
        if cid in seen_ids:
            continue
        seen_ids.add(cid)
        src, dst, tag = cid
        for v in recvs:
            if (v["src"], v["rank"], v["tag"]) == cid:
                reached_recv_nodes.add((v["rank"], v["node"]))
                rk = spec["ranks"][v["rank"]]
                for s2 in sends:
                    if s2["rank"] == v["rank"] and \
                            v["node"] in recv_deps(rk, rk["nodes"][s2["node"]]["data"]):
                        frontier.append((s2["rank"], s2["dst"], s2["tag"]))
    return sorted(i for (r, i) in reached_recv_nodes if r == s["rank"])


# --------------------------------------------------------------------------- hand-built families

def reuse_family():
    """Valid programs whose communication dependency graph is a "diamond with a long and a
    short path": a multi-round exchange whose last message combines an EARLY receive with a
    LATE one (p <- {d, b}, b <- q <- d, ...), in every operand order, every order of the
    outputs of the ranks, for 2 and 3 ranks and 4 or 6 rounds.  Yields specs."""
    import itertools
    idx = 0
    for rounds, nranks, swap_ops, out0, out1, tagstyle in itertools.product(
            (4, 6), (2, 3), (False, True), (0, 1), (0, 1), ("int", "str")):
        # message k (0-based) goes from rank a_k to rank b_k; payload of message k>0 is computed
        # from the receive of message k-1; the LAST message combines receive 0 (early, arrived at
        # the same rank) with receive rounds-2 (late)
        if nranks == 2:
            route = [(0, 1) if k % 2 == 0 else (1, 0) for k in range(rounds)]
        else:
            # 0 -> 1, 1 -> 2, 2 -> 1, 1 -> 0 (, 0 -> 1, 1 -> 0 …): rank 1 gets message 0 and message 2
            base = [(0, 1), (1, 2), (2, 1), (1, 0), (0, 1), (1, 0)]
            route = base[:rounds]
        last_src = route[-1][0]
        # the early receive that the last sender re-uses: the first message that arrived at last_src
        early = next(k for k in range(rounds - 1) if route[k][1] == last_src)
        late = rounds - 2
        if route[late][1] != last_src or early == late:
            continue
        ranks = [{"nodes": [{"op": "input", "name": "x"}], "outputs": []} for _ in range(nranks)]
        recv_node = {}
        holders = [[] for _ in range(nranks)]
        # receives first (leaves), on their destination ranks
        for k, (a, b) in enumerate(route):
            ranks[b]["nodes"].append({"op": "recv", "src": a, "tag": k, "variant": 0})
            recv_node[k] = len(ranks[b]["nodes"]) - 1
        for k, (a, b) in enumerate(route):
            nodes = ranks[a]["nodes"]
            if k == 0:
                data = 0
            elif k == rounds - 1:
                e, l = recv_node[early], recv_node[late]
                nodes.append({"op": "add", "a": l if swap_ops else e, "b": e if swap_ops else l})
                data = len(nodes) - 1
            else:
                nodes.append({"op": "addc", "a": recv_node[k - 1], "c": 1})
                data = len(nodes) - 1
            pas = holders[a][-1] if holders[a] else 0
            nodes.append({"op": "send", "data": data, "dst": b, "tag": k, "pass": pas})
            holders[a].append(len(nodes) - 1)
        final_dst = route[-1][1]
        for r in range(nranks):
            nodes = ranks[r]["nodes"]
            outs = []
            if holders[r]:
                outs.append(["aux", holders[r][-1]])
            if r == final_dst:
                nodes.append({"op": "mulc", "a": recv_node[rounds - 1], "c": 2})
                outs.append(["res", len(nodes) - 1])
            # receives that nothing on this rank uses must stay alive
            used = set()
            for nd in nodes:
                used.update(edges(nd))
            for i, nd in enumerate(nodes):
                if nd["op"] == "recv" and i not in used:
                    outs.append([f"keep{i}", i])
            if not outs:
                outs.append(["res", 0])
            flip = out0 if r == 0 else out1
            ranks[r]["outputs"] = outs[::-1] if flip else outs
        tags = [["i", 100 + k] if tagstyle == "int" else ["s", f"m{k}"] for k in range(rounds)]
        yield {"nranks": nranks, "n": 2, "topology": "reuse", "tags": tags, "ranks": ranks,
               "seed": 0, "index": idx, "profile": "reuse",
               "family": {"rounds": rounds, "nranks": nranks, "late_first": swap_ops,
                          "rank0_outputs_flipped": bool(out0), "rank1_outputs_flipped": bool(out1)}}
        idx += 1


def _styled_tags(n, style, salt=0):
    """n pairwise distinct symbolic tags of one style (or mixed), hash-seed sensitive"""
    words = ["alpha", "bravo", "charlie", "delta", "echo", "foxtrot", "golf", "hotel", "india", "juliet",
             "kilo", "lima"]
    out = []
    for k in range(n):
        st = style if style != "mixed" else ["s", "t", "c", "F", "b"][(k + salt) % 5]
        w = words[(k + salt) % len(words)]
        if st == "s":
            out.append(["s", w])
        elif st == "t":
            out.append(["t", [["s", w], ["i", k]]])
        elif st == "c":
            out.append(["c", 1000 + 7 * k + salt])
        elif st == "F":
            out.append(["F", [w, w + "2", str(k)]])
        elif st == "b":
            out.append(["b", (w[:3] + str(k)).encode().hex()])
        else:
            out.append(["i", 100 + k])
    return out


def fanin_family():
    """Valid programs in which one send's payload combines SEVERAL distinct receives:
    (a) fan-in chains towards lower ranks (top rank sends k arrays down, every rank below sends
        sums of what it received further down), 3 or 4 ranks, k = 2..5;
    (b) two-rank ping-pongs: rank 0 sends k arrays, rank 1 returns their sum (and a partial sum);
        rank 0's output is written `recv + stapled sends` (receive traversed first) or
        `stapled sends around the receive`.
    Symbolic tags of every style.  Yields specs."""
    idx = 0
    for style in ("s", "t", "c", "F", "b", "mixed", "i"):
        for k in (2, 3, 4, 5):
            for nranks in (3, 4):
                tags = []
                ranks = [{"nodes": [{"op": "input", "name": "x"}], "outputs": []} for _ in range(nranks)]
                incoming = {r: [] for r in range(nranks)}       # rank -> [(src, tag index)]
                # top rank
                top = nranks - 1
                nodes = ranks[top]["nodes"]
                prev = 0
                for j in range(k):
                    nodes.append({"op": "addc", "a": 0, "c": j + 1})
                    tags.append(None)
                    t = len(tags) - 1
                    nodes.append({"op": "send", "data": len(nodes) - 1, "dst": top - 1, "tag": t, "pass": prev})
                    prev = len(nodes) - 1
                    incoming[top - 1].append((top, t))
                ranks[top]["outputs"] = [["aux", prev]]
                for m in range(top - 1, -1, -1):
                    nodes = ranks[m]["nodes"]
                    rn = []
                    for src, t in incoming[m]:
                        nodes.append({"op": "recv", "src": src, "tag": t, "variant": 0})
                        rn.append(len(nodes) - 1)
                    acc = rn[0]
                    partial = None
                    if len(rn) == 1:
                        nodes.append({"op": "addc", "a": acc, "c": 1})      # never forward a receive unchanged
                        acc = len(nodes) - 1
                    for j, v in enumerate(rn[1:]):
                        nodes.append({"op": "add", "a": acc, "b": v})
                        acc = len(nodes) - 1
                        if j == 0:
                            partial = acc
                    if m == 0:
                        ranks[m]["outputs"] = [["res", acc]]
                        break
                    prev = 0
                    for data in ([acc] if partial is None or partial == acc else [acc, partial]):
                        tags.append(None)
                        t = len(tags) - 1
                        nodes.append({"op": "send", "data": data, "dst": m - 1, "tag": t, "pass": prev})
                        prev = len(nodes) - 1
                        incoming[m - 1].append((m, t))
                    ranks[m]["outputs"] = [["aux", prev]]
                yield {"nranks": nranks, "n": 2, "topology": "fanin", "tags": _styled_tags(len(tags), style, idx),
                       "ranks": ranks, "seed": 0, "index": idx, "profile": "fanin",
                       "family": {"kind": "fanin-chain", "k": k, "nranks": nranks, "tags": style}}
                idx += 1
            for recv_first in (True, False):
                tags = []
                r0 = [{"op": "input", "name": "x"}]
                r1 = [{"op": "input", "name": "x"}]
                prev = 0
                recvs1 = []
                for j in range(k):
                    r0.append({"op": "addc", "a": 0, "c": j + 1})
                    tags.append(None)
                    t = len(tags) - 1
                    r0.append({"op": "send", "data": len(r0) - 1, "dst": 1, "tag": t, "pass": prev})
                    prev = len(r0) - 1
                    r1.append({"op": "recv", "src": 0, "tag": t, "variant": 0})
                    recvs1.append(len(r1) - 1)
                acc = recvs1[0]
                for v in recvs1[1:]:
                    r1.append({"op": "add", "a": acc, "b": v})
                    acc = len(r1) - 1
                tags.append(None)
                tt = len(tags) - 1
                r1.append({"op": "send", "data": acc, "dst": 0, "tag": tt, "pass": 0})
                out1 = len(r1) - 1
                r0.append({"op": "recv", "src": 1, "tag": tt, "variant": 0})
                rv = len(r0) - 1
                if recv_first:
                    r0.append({"op": "add", "a": rv, "b": prev})          # recv + stapled sends
                else:
                    r0.append({"op": "add", "a": prev, "b": rv})
                yield {"nranks": 2, "n": 2, "topology": "fanin", "tags": _styled_tags(len(tags), style, idx),
                       "ranks": [{"nodes": r0, "outputs": [["res", len(r0) - 1]]},
                                 {"nodes": r1, "outputs": [["aux", out1]]}],
                       "seed": 0, "index": idx, "profile": "fanin",
                       "family": {"kind": "pingpong-sum", "k": k, "recv_first": recv_first, "tags": style}}
                idx += 1


def datawrapper_family():
    """Valid programs in which ONE PART has several outputs (sent arrays and overall outputs)
    that reach DIFFERENT unnamed data wrappers — the per-part kernels name those wrappers
    `_pt_data`, `_pt_data_0`, … in traversal order of the part's outputs.  2 or 3 ranks,
    2..4 wrappers per rank, several output-naming schemes, integer tags.  Yields specs."""
    import itertools
    schemes = [["alpha", "bravo", "charlie", "delta", "echo"], ["q", "e", "z", "a", "m"],
               ["out_4", "out_3", "out_2", "out_1", "out_0"], ["u", "velocity", "T", "rho_e", "p2"]]
    idx = 0
    for nranks, nw, scheme, variant in itertools.product((2, 3), (2, 3, 4), range(len(schemes)), (0, 1)):
        n = 3
        tags = []
        ranks = [{"nodes": [{"op": "input", "name": "x"}], "outputs": []} for _ in range(nranks)]
        names = schemes[scheme]
        incoming = {r: [] for r in range(nranks)}
        # every rank owns nw data wrappers with distinct contents
        dw = {}
        for r in range(nranks):
            for w in range(nw):
                ranks[r]["nodes"].append({"op": "data", "values": [10 * r + w + 1, 7 * w - r, (r + 2) * (w + 3)]})
                dw[(r, w)] = len(ranks[r]["nodes"]) - 1
        # round 1: rank r sends (x op wrapper_w) for every w to rank r+1 (mod nranks): several sent
        # arrays of ONE part, each reaching its own wrapper
        holders = {r: 0 for r in range(nranks)}
        for r in range(nranks):
            dst = (r + 1) % nranks
            nodes = ranks[r]["nodes"]
            for w in range(nw):
                nodes.append({"op": "add" if (w + variant) % 2 == 0 else "mul", "a": 0, "b": dw[(r, w)]})
                tags.append(["i", 100 + len(tags)])
                t = len(tags) - 1
                nodes.append({"op": "send", "data": len(nodes) - 1, "dst": dst, "tag": t, "pass": holders[r]})
                holders[r] = len(nodes) - 1
                incoming[dst].append((r, t))
        # after the receives: several overall outputs of ONE part, each reaching another wrapper
        for r in range(nranks):
            nodes = ranks[r]["nodes"]
            outs = [["aux", holders[r]]]
            for j, (src, t) in enumerate(incoming[r]):
                nodes.append({"op": "recv", "src": src, "tag": t, "variant": 0})
                rv = len(nodes) - 1
                nodes.append({"op": "add" if (j + variant) % 2 else "mul", "a": rv, "b": dw[(r, j % nw)]})
                outs.append([names[j % len(names)], len(nodes) - 1])
            # one more output on the last wrapper, independent of communication
            nodes.append({"op": "sub", "a": dw[(r, nw - 1)], "b": 0})
            outs.append([names[-1], len(nodes) - 1])
            ranks[r]["outputs"] = outs[::-1] if variant else outs
        yield {"nranks": nranks, "n": n, "topology": "datawrappers", "tags": tags, "ranks": ranks,
               "seed": 0, "index": idx, "profile": "datawrappers",
               "family": {"nranks": nranks, "wrappers_per_rank": nw, "names": scheme, "variant": variant}}
        idx += 1


def samearray_family():
    """Valid programs in which ONE array is sent several times from one part (to several ranks
    and/or under several tags), interleaved with sends of other arrays, in every order of the
    stapling chain — `name_to_send_nodes[name]` must list all its sends."""
    import itertools
    idx = 0
    for nranks in (2, 3):
        # payload pattern of the sends of rank 0: which array (A=0, B=1, C=2) each send carries
        for pattern in ((0, 0), (0, 1, 0), (0, 0, 1), (1, 0, 0), (0, 1, 0, 1), (0, 1, 2, 0), (0, 1, 1, 0, 2)):
            for order in itertools.islice(itertools.permutations(range(len(pattern))), 0, 6):
                tags = []
                ranks = [{"nodes": [{"op": "input", "name": "x"}], "outputs": []} for _ in range(nranks)]
                n0 = ranks[0]["nodes"]
                arrays = []
                for a in range(3):
                    n0.append({"op": "addc", "a": 0, "c": a + 1})
                    arrays.append(len(n0) - 1)
                prev = 0
                sends = []
                for k in order:
                    dst = 1 + (k % (nranks - 1))
                    tags.append(["i", 100 + len(tags)])
                    t = len(tags) - 1
                    n0.append({"op": "send", "data": arrays[pattern[k]], "dst": dst, "tag": t, "pass": prev})
                    prev = len(n0) - 1
                    sends.append((dst, t))
                ranks[0]["outputs"] = [["aux", prev]]
                for r in range(1, nranks):
                    nodes = ranks[r]["nodes"]
                    acc = 0
                    for dst, t in sends:
                        if dst == r:
                            nodes.append({"op": "recv", "src": 0, "tag": t, "variant": 0})
                            nodes.append({"op": "add", "a": acc, "b": len(nodes) - 1})
                            acc = len(nodes) - 1
                    ranks[r]["outputs"] = [["res", acc]]
                yield {"nranks": nranks, "n": 2, "topology": "samearray", "tags": tags, "ranks": ranks,
                       "seed": 0, "index": idx, "profile": "samearray",
                       "family": {"nranks": nranks, "pattern": list(pattern), "order": list(order)}}
                idx += 1


def with_idle_rank(spec, pos):
    """the same program with one more rank, inserted at position `pos`, that joins every
    collective call but has NO outputs (an I/O / spare rank): nothing to compute, no messages"""
    import copy
    sp = copy.deepcopy(spec)
    for rk in sp["ranks"]:
        for nd in rk["nodes"]:
            if nd["op"] == "send" and nd["dst"] >= pos:
                nd["dst"] += 1
            if nd["op"] == "recv" and nd["src"] >= pos:
                nd["src"] += 1
    sp["ranks"].insert(pos, {"nodes": [], "outputs": []})
    sp["nranks"] = spec["nranks"] + 1
    return sp


def idle_family():
    """Valid programs over 2..4 ranks in which some ranks have an EMPTY outputs dict: an idle rank
    at every position (also rank 0, the root of the collectives) next to communicating / not
    communicating ranks, two idle ranks, only idle ranks.  (A rank without outputs cannot send or
    receive: sends and receives exist only as far as an output reaches them.)"""
    idx = 0
    bases = []
    # one rank alone; ping-pong; one-way message; ring of three
    bases.append({"nranks": 1, "n": 2, "tags": [["s", "t0"]], "topology": "none",
                  "ranks": [{"nodes": [{"op": "input", "name": "x"}, {"op": "addc", "a": 0, "c": 1}],
                             "outputs": [["res", 1]]}]})
    pp = []
    for r in range(2):
        o = 1 - r
        pp.append({"nodes": [{"op": "input", "name": "x"},
                             {"op": "recv", "src": o, "tag": o, "variant": 0},
                             {"op": "addc", "a": 0, "c": 2},
                             {"op": "send", "data": 2, "dst": o, "tag": r, "pass": 0},
                             {"op": "add", "a": 3, "b": 1}], "outputs": [["res", 4]]})
    bases.append({"nranks": 2, "n": 2, "tags": [["s", "a"], ["s", "b"]], "topology": "pingpong", "ranks": pp})
    bases.append({"nranks": 2, "n": 2, "tags": [["s", "a"]], "topology": "oneway", "ranks": [
        {"nodes": [{"op": "input", "name": "x"}, {"op": "mulc", "a": 0, "c": 3},
                   {"op": "send", "data": 1, "dst": 1, "tag": 0, "pass": 0}], "outputs": [["res", 2]]},
        {"nodes": [{"op": "input", "name": "x"}, {"op": "recv", "src": 0, "tag": 0, "variant": 0},
                   {"op": "add", "a": 0, "b": 1}], "outputs": [["res", 2]]}]})
    ring = next(sp for sp in sametag_family() if sp["nranks"] == 3)
    bases.append({k: ring[k] for k in ("nranks", "n", "tags", "topology", "ranks")})
    for b in bases:
        variants = []
        for pos in range(b["nranks"] + 1):
            variants.append(((pos,), with_idle_rank(b, pos)))
        if b["nranks"] <= 2:
            for pos in range(b["nranks"] + 1):
                for pos2 in range(pos + 1, b["nranks"] + 2):
                    variants.append(((pos, pos2), with_idle_rank(with_idle_rank(b, pos), pos2)))
        for where, sp in variants:
            if sp["nranks"] > 4:
                continue
            sp.update(seed=0, index=idx, profile="idle",
                      family={"base": b["topology"], "idle_ranks": list(where)})
            yield sp
            idx += 1
    for nranks in (2, 3):
        yield {"nranks": nranks, "n": 2, "tags": [["s", "t0"]], "topology": "none",
               "ranks": [{"nodes": [], "outputs": []} for _ in range(nranks)],
               "seed": 0, "index": idx, "profile": "idle", "family": {"base": "nothing", "idle_ranks": list(range(nranks))}}
        idx += 1


def families():
    """all hand-built families, as (profile, spec) — every spec carries its own 'profile'/'index'"""
    for fam in (reuse_family, fanin_family, datawrapper_family, samearray_family, kinds_family, sametag_family,
                idle_family):
        yield from fam()


def kinds_family():
    """Every high-level node kind as SEND BUFFER and as ImplStored intermediate crossing a part
    boundary, "bare" (the node IS the buffer / stored array) and wrapped in arithmetic; several
    dtypes incl. bool payloads.  Two ranks, ping-pong:
      rank 0 part 0: K = kind(x, y) [stored]; sends K (bare) or K*2 (wrapped) to rank 1;
      rank 1: receives, returns flat(recv)+1;  rank 0 part 1: output = flat(K) + recv  (K crosses
      the part boundary as a stored array)."""
    idx = 0
    payload_kinds = KINDS + ["data_wrapper", "placeholder"]
    for kind in payload_kinds:
        for bare in (True, False):
            for dt in ("float64", "complex128", "int64", "float32", "bool"):
                if dt == "bool" and (not bare or kind in ("einsum", "index_lambda", "sum", "where", "pad")):
                    continue            # no arithmetic on bool payloads
                if kind == "where" and dt == "complex128":
                    continue            # no ordering on complex numbers
                n = 3
                x = {"op": "input", "name": "x"}
                y = {"op": "input", "name": "y"}
                if dt != "int64":
                    x["dtype"] = dt
                    y["dtype"] = dt
                r0 = [x, y]
                if kind == "data_wrapper":
                    r0.append({"op": "data", "values": [5, -2, 7], **({"dtype": dt} if dt != "int64" else {})})
                    K = 2
                elif kind == "placeholder":
                    K = 0
                elif kind == "adv_index":
                    r0.append({"op": "data", "values": [2, 0, 1]})
                    r0.append({"op": "kind", "kind": kind, "args": [0, 2], "stored": True})
                    K = 3
                else:
                    args = [0] if kind in ("reshape", "roll", "basic_index", "sum", "pad") else [0, 1]
                    r0.append({"op": "kind", "kind": kind, "args": args, "stored": True})
                    K = 2
                if bare:
                    payload = K
                else:
                    r0.append({"op": "mulc", "a": K, "c": 2})
                    payload = len(r0) - 1
                r0.append({"op": "send", "data": payload, "dst": 1, "tag": 0, "pass": 0})
                hold = len(r0) - 1
                shape = list(np.shape(_dummy_value(r0, payload, n)))
                pdt = spec_dtype(r0, payload)
                rv = {"op": "recv", "src": 0, "tag": 0, "variant": 0}
                if pdt != "int64":
                    rv["dtype"] = pdt
                if shape != [n]:
                    rv["shape"] = shape
                r1 = [{"op": "input", "name": "x"}, rv]
                r1.append({"op": "bcast" if shape == [] else "flat", "args": [1]})
                if dt == "bool":
                    back = 0                    # answer with rank 1's own input
                else:
                    r1.append({"op": "addc", "a": 2, "c": 1})
                    back = len(r1) - 1
                r1.append({"op": "send", "data": back, "dst": 0, "tag": 1, "pass": 2})
                bdt = spec_dtype(r1, back)
                rb = {"op": "recv", "src": 1, "tag": 1, "variant": 0}
                if bdt != "int64":
                    rb["dtype"] = bdt
                r0.append(rb)
                rbi = len(r0) - 1
                r0.append({"op": "bcast" if list(np.shape(_dummy_value(r0, K, n))) == [] else "flat", "args": [K]})
                fk = len(r0) - 1
                if dt == "bool":
                    outs0 = [["aux", hold], ["k", fk], ["res", rbi]]
                else:
                    r0.append({"op": "add", "a": fk, "b": rbi})
                    outs0 = [["aux", hold], ["res", len(r0) - 1]]
                yield {"nranks": 2, "n": n, "topology": "kinds", "tags": [["i", 100], ["i", 101]],
                       "ranks": [{"nodes": r0, "outputs": outs0},
                                 {"nodes": r1, "outputs": [["aux", len(r1) - 1]]}],
                       "seed": 0, "index": idx, "profile": "kinds",
                       "family": {"kind": kind, "bare": bare, "dtype": dt}}
                idx += 1


def sametag_family():
    """Valid programs in which ONE symbolic tag (or two, of different Python types) is used by
    many messages between DIFFERENT rank pairs: rings in both directions over 3 and 4 ranks."""
    idx = 0
    for nranks in (3, 4):
        for style in ("s", "i", "t", "c", "mixed2"):
            for both_dirs in (False, True):
                tags = _styled_tags(1, style if style != "mixed2" else "s", idx)
                if style == "mixed2":
                    tags = [["s", "7"], ["i", 7]]            # the str "7" and the int 7: different tags
                ranks = [{"nodes": [{"op": "input", "name": "x"}], "outputs": []} for _ in range(nranks)]
                hold = [0] * nranks
                incoming = {r: [] for r in range(nranks)}
                msgs = [(r, (r + 1) % nranks, 0) for r in range(nranks)]
                if both_dirs:
                    msgs += [((r + 1) % nranks, r, len(tags) - 1) for r in range(nranks)]
                for src, dst, t in msgs:
                    nodes = ranks[src]["nodes"]
                    nodes.append({"op": "addc", "a": 0, "c": len(nodes)})
                    nodes.append({"op": "send", "data": len(nodes) - 1, "dst": dst, "tag": t, "pass": hold[src]})
                    hold[src] = len(nodes) - 1
                    incoming[dst].append((src, t))
                for r in range(nranks):
                    nodes = ranks[r]["nodes"]
                    acc = hold[r]
                    for src, t in incoming[r]:
                        nodes.append({"op": "recv", "src": src, "tag": t, "variant": 0})
                        nodes.append({"op": "add", "a": acc, "b": len(nodes) - 1})
                        acc = len(nodes) - 1
                    ranks[r]["outputs"] = [["res", acc]]
                yield {"nranks": nranks, "n": 2, "topology": "sametag", "tags": tags, "ranks": ranks,
                       "seed": 0, "index": idx, "profile": "sametag",
                       "family": {"nranks": nranks, "tags": style, "both_directions": both_dirs}}
                idx += 1


def call_family():
    """Programs with a traced function call (`trace_call`) around communication.  The
    partitioner does not support functions: the refusal must be explicit (NotImplementedError)
    and — when every rank uses a call — identical on all ranks.  The asymmetric variants (a call
    on one rank only) make that rank raise before the first collective while the others wait."""
    idx = 0
    for symmetric in (True, False):
        for where in ("payload", "consumer", "bystander"):
            ranks = []
            for r in range(2):
                nodes = [{"op": "input", "name": "x"}]
                use_call = symmetric or r == 0
                other = 1 - r
                nodes.append({"op": "recv", "src": other, "tag": other, "variant": 0})
                rv = 1
                data = 0
                if use_call and where == "payload":
                    nodes.append({"op": "call", "args": [0]})
                    data = len(nodes) - 1
                nodes.append({"op": "send", "data": data, "dst": other, "tag": r, "pass": 0})
                hold = len(nodes) - 1
                cons = rv
                if use_call and where == "consumer":
                    nodes.append({"op": "call", "args": [rv]})
                    cons = len(nodes) - 1
                nodes.append({"op": "add", "a": hold, "b": cons})
                outs = [["res", len(nodes) - 1]]
                if use_call and where == "bystander":
                    nodes.append({"op": "call", "args": [0]})
                    outs.append(["side", len(nodes) - 1])
                ranks.append({"nodes": nodes, "outputs": outs})
            yield {"nranks": 2, "n": 2, "topology": "calls", "tags": [["i", 100], ["i", 101]], "ranks": ranks,
                   "seed": 0, "index": idx, "profile": "calls",
                   "family": {"symmetric": symmetric, "call_is": where}, "expects_refusal": "NotImplementedError"}
            idx += 1

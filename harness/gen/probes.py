"""Probe graphs for the mapper tables (C13 / C20).

`probe_nodes()`: for every node kind one node in which every array-valued edge
(operand, stored shape component, index array, slice bound, CSR part, send
payload, passthrough, binding, container, function) leads to a *distinct child
object*, so that a mapper's recursion into a child identifies the edge.

`replace_child(node, label, new)`: a copy of `node` whose edge `label` leads to
`new` (used by the failing-input search: a node reachable ONLY through one edge).

Everything here works by reflection over dataclass fields (harness.reflect);
pytato's mappers are never called.
"""
from __future__ import annotations

import dataclasses
from typing import Any

import numpy as np

from .. import reflect
from . import kinds


def edge_class(label: str) -> str:
    """coarse class of an edge label (used in violation signatures and tables)"""
    p = label.split(":")
    if p[0] == "operand":
        return "newshape" if len(p) > 1 and p[1] == "newshape" else "operand"
    if p[0] == "index":
        return "slice-bound" if len(p) == 3 else "index"
    if p[0] in ("shape", "dshape", "csr", "bind", "ret", "entry"):
        return p[0]
    if p[0] == "send":
        return "send"
    return p[0]          # pass, container, function


def _fresh_counter():
    n = [0]

    def nxt():
        n[0] += 1
        return n[0]
    return nxt


_next = _fresh_counter()


def fresh_like(child):
    """a new leaf object, structurally different from every other leaf made so
    far, usable in place of `child` (same shape/dtype where that is cheap)"""
    import pytato as pt
    from pytato.array import Array, SizeParam
    k = _next()
    if isinstance(child, SizeParam):
        return pt.make_size_param(f"pn{k}")
    if isinstance(child, Array):
        shape = tuple(d if isinstance(d, int) else 4 for d in child.shape)
        return pt.make_placeholder(f"pf{k}", shape, child.dtype)
    raise TypeError(f"no fresh leaf for {type(child).__name__}")


def replace_child(node, label: str, new):
    """copy of `node` with the child at edge `label` replaced by `new`"""
    from constantdict import constantdict
    from pytato.array import DictOfNamedArrays, NormalizedSlice
    p = label.split(":")
    if isinstance(node, DictOfNamedArrays):
        assert p[0] == "entry"
        data = dict(node._data)
        data[p[1]] = new
        return DictOfNamedArrays(data, tags=node.tags)
    if p[0] == "ret":
        rets = dict(node.returns)
        rets[p[1]] = new
        return dataclasses.replace(node, returns=constantdict(rets))
    if p[0] == "operand":
        fld = p[1]
        if len(p) == 2:
            return dataclasses.replace(node, **{fld: new})
        tup = list(getattr(node, fld))
        tup[int(p[2])] = new
        return dataclasses.replace(node, **{fld: tuple(tup)})
    if p[0] == "shape":
        shp = list(node.shape)
        shp[int(p[1])] = new
        return dataclasses.replace(node, shape=tuple(shp))
    if p[0] == "index":
        idx = list(node.indices)
        if len(p) == 2:
            idx[int(p[1])] = new
        else:
            sl = idx[int(p[1])]
            assert isinstance(sl, NormalizedSlice)
            idx[int(p[1])] = dataclasses.replace(sl, **{p[2]: new})
        return dataclasses.replace(node, indices=tuple(idx))
    if p[0] == "csr":
        if p[1] == "shape":
            shp = list(node.matrix.shape)
            shp[int(p[2])] = new
            m = dataclasses.replace(node.matrix, shape=tuple(shp))
        else:
            m = dataclasses.replace(node.matrix, **{p[1]: new})
        return dataclasses.replace(node, matrix=m)
    if p[0] == "send":
        return dataclasses.replace(node, send=dataclasses.replace(node.send, data=new))
    if p[0] == "pass":
        return dataclasses.replace(node, passthrough_data=new)
    if p[0] == "bind":
        b = dict(node.bindings)
        b[p[1]] = new
        return dataclasses.replace(node, bindings=constantdict(b))
    if p[0] == "container":
        from pytato.function import NamedCallResult
        if isinstance(node, NamedCallResult):
            return new[node.name]           # call results are the call's memoised members
        return dataclasses.replace(node, _container=new)
    if p[0] == "function":
        return dataclasses.replace(node, function=new)
    raise ValueError(f"unknown edge label {label}")


def _distinct_children(node):
    """replace children shared between several edges by fresh leaves"""
    seen: set[int] = set()
    for label, c in reflect.children(node, into_functions=True):
        if id(c) in seen:
            node = replace_child(node, label, fresh_like(c))
        else:
            seen.add(id(c))
    ids = [id(c) for _, c in reflect.children(node, into_functions=True)]
    assert len(ids) == len(set(ids))
    return node


def probe_nodes(with_loopy: bool = True) -> dict[str, Any]:
    """probe name -> probe node, all built through the public API (the class name is
    `type(node).__name__`; several probes may share a class, e.g. `BasicIndex` and
    `BasicIndex_symbolic`).  `_symbolic` variants have array-valued (derived) shapes."""
    import pytato as pt
    from pytato.function import trace_call
    s = kinds.specs(with_loopy=with_loopy)
    out: dict[str, Any] = {}
    f64, i64 = np.dtype("float64"), np.dtype("int64")
    for name, spec in s.items():
        out[name] = spec.base
    sp = pt.make_size_param
    n = sp("pn")
    xs = pt.make_placeholder("pxs", (n, 3), f64)
    ys = pt.make_placeholder("pys", (n, 3), f64)
    idx3 = pt.make_placeholder("pidx3", (2,), i64)
    # stored array-valued shape components (each a distinct SizeParam)
    out["Placeholder"] = pt.make_placeholder("pp", (sp("pn_a"), sp("pn_b")), f64)
    out["DataWrapper"] = pt.make_data_wrapper(
        np.arange(12, dtype=np.float64).reshape(4, 3), shape=(sp("pn_c"), 3))
    out["IndexLambda"] = xs + ys
    from pytato.distributed.nodes import make_distributed_recv
    out["DistributedRecv"] = make_distributed_recv(
        src_rank=1, comm_tag=42, shape=(sp("pn_e"), 3), dtype=f64)
    # derived array-valued shapes
    out["Roll_symbolic"] = pt.roll(xs, 1, 1)
    out["AxisPermutation_symbolic"] = pt.transpose(xs, (1, 0))
    out["BasicIndex_symbolic"] = xs[:, 0]
    out["AdvancedIndexInContiguousAxes_symbolic"] = xs[:, idx3]
    out["Stack_symbolic"] = pt.stack([xs, ys], axis=0)
    out["Concatenate_symbolic"] = pt.concatenate([xs, ys], axis=1)
    out["Einsum_symbolic"] = pt.einsum("ij,ij->i", xs, ys)
    d = pt.make_dict_of_named_arrays({"a": xs + ys, "b": ys})
    out["NamedArray_symbolic"] = d["a"]

    def f(a, b):
        return {"o1": a + b, "o2": a * 2}
    res = trace_call(f, xs, ys)
    out["NamedCallResult_symbolic"] = res["o1"]
    for k in list(out):
        out[k] = _distinct_children(out[k])
    return out


def wrap_outputs(node):
    """something a mapper can be called on: arrays as they are, containers as they are"""
    return node


def nary_probe_nodes() -> dict[str, Any]:
    """n-ary kinds with THREE (or more) edges of one class, every edge a distinct leaf — for
    "only the first / middle / last edge changes" """
    import pytato as pt
    from pytato.function import trace_call
    f64, i64 = np.dtype("float64"), np.dtype("int64")

    def ph(nm, shape=(4, 3), dt=f64):
        return pt.make_placeholder(nm, shape, dt)
    out: dict[str, Any] = {}
    out["Stack_3"] = pt.stack([ph("s3a"), ph("s3b"), ph("s3c")], axis=0)
    out["Concatenate_3"] = pt.concatenate([ph("c3a"), ph("c3b"), ph("c3c")], axis=1)
    out["Einsum_3"] = pt.einsum("ij,ij,ij->i", ph("e3a"), ph("e3b"), ph("e3c"))
    out["IndexLambda_where"] = pt.where(ph("w3c", dt=np.dtype("bool")), ph("w3a"), ph("w3b"))
    out["DictOfNamedArrays_3"] = pt.make_dict_of_named_arrays({"a": ph("d3a"), "b": ph("d3b"), "c": ph("d3c")})
    out["AdvancedIndexInContiguousAxes_2idx"] = ph("a3t", (4, 3, 4))[ph("a3i", (2,), i64), ph("a3j", (2,), i64)]

    def f3(a, b, c):
        return {"o": a + b * c}
    out["Call_3"] = trace_call(f3, ph("f3a"), ph("f3b"), ph("f3c"))["o"]._container
    for k in list(out):
        out[k] = _distinct_children(out[k])
    return out

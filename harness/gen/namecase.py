"""Programs whose input / output / data names differ only in letter case, in a trailing digit, or in a leading
underscore: wherever generated code ORDERS names (argument lists, dictionaries of outputs, bound data), an ordering
by a key that identifies such names (`str.lower`, a prefix, the length) falls back on the iteration order of a set —
i.e. on the hash seed.  `generate(j)` is deterministic in j."""
from __future__ import annotations

import numpy as np

COUNT = 8

_POOLS = [
    ["A", "a", "B", "b", "c"],
    ["x", "X", "xX", "Xx", "XX", "xx"],
    ["u1", "U1", "u_1", "U_1", "u10", "u2"],
    ["aa", "aA", "Aa", "AA", "ab", "aB", "Ab", "AB"],
    ["w", "W", "_w", "_W", "w_", "W_"],
    ["alpha", "Alpha", "ALPHA", "alphA", "beta", "Beta"],
    ["n", "N", "m", "M", "k", "K", "l", "L"],
    ["t0", "T0", "t00", "T00", "t_0", "T_0"],
]


def names(j: int) -> list[str]:
    return list(_POOLS[j % len(_POOLS)])


def generate(j: int):
    import pytato as pt
    nm = names(j)
    ins = [pt.make_placeholder(n, (3,), np.float64) for n in nm]
    # every input is used; several outputs whose keys also differ only in case; one wrapped array with a cased name
    acc = ins[0]
    for k, p in enumerate(ins[1:], start=2):
        acc = acc + k * p
    outs = {"Out": acc, "out": acc * 2 - ins[-1], "OUT": pt.sum(ins[0] * ins[1]), "oUt": ins[1] - ins[0]}
    if j % 2:
        d = pt.make_data_wrapper(np.arange(3.0) + j, tags=frozenset({pt.tags.PrefixNamed("Dat")}))
        d2 = pt.make_data_wrapper(np.arange(3.0) - j, tags=frozenset({pt.tags.PrefixNamed("dat")}))
        outs["out"] = outs["out"] + d
        outs["Out"] = outs["Out"] * d2
    return pt.make_dict_of_named_arrays(outs)

"""pytato / pymbolic -> pt-sexp (the wire format ptdriver reads).

Independent of pytato's mappers: expressions are walked by class dispatch here,
unknown classes are hard errors (never defaults)."""
from __future__ import annotations

from fractions import Fraction

import numpy as np
import pymbolic.primitives as prim


class SerError(Exception):
    pass


import re as _re
_IDX_RE = _re.compile(r"^_(0|[1-9][0-9]*)$")


def _fold(tag, xs):
    xs = list(xs)
    if not xs:
        raise SerError("empty n-ary node")
    r = xs[0]
    for x in xs[1:]:
        r = f"({tag} {r} {x})"
    return r


_REDOPS = {
    "SumReductionOperation": "sum", "ProductReductionOperation": "prod",
    "MaxReductionOperation": "max", "MinReductionOperation": "min",
    "AllReductionOperation": "all", "AnyReductionOperation": "any",
}


def atom_ok(s: str) -> bool:
    return bool(s) and not any(c in s for c in ' ()"\t\n')


def name(s: str) -> str:
    if atom_ok(s):
        return s
    if '"' in s:
        raise SerError(f"unserialisable name {s!r}")
    return '"' + s + '"'


KEEP_REDUCE_ORDER = False


def const(c) -> str:
    if isinstance(c, (bool, np.bool_)):
        return f"(bool {'#t' if c else '#f'})"
    if isinstance(c, (int, np.integer)):
        return f"(int {int(c)})"
    if isinstance(c, (float, np.floating)):
        f = float(c)
        if f != f or f in (float("inf"), float("-inf")):
            return "(nan)"
        fr = Fraction(f)
        if fr.denominator == 1:
            # keep it rational so that float-ness (true division etc.) is not lost: value is what matters
            return f"(rat {fr.numerator} 1)"
        return f"(rat {fr.numerator} {fr.denominator})"
    if isinstance(c, (complex, np.complexfloating)):
        c = complex(c)
        if c.imag == 0:
            return const(c.real)
        return "(nan)"
    raise SerError(f"unknown constant {type(c)}")


def sexpr(e) -> str:
    """pymbolic / pytato scalar expression -> s-expression text."""
    from pytato.scalar_expr import Reduce, TypeCast
    if isinstance(e, (bool, np.bool_, int, np.integer, float, np.floating, complex,
                      np.complexfloating)):
        return const(e)
    if isinstance(e, prim.Variable):
        m = _IDX_RE.match(e.name)
        if m:
            return f"(idx {int(m.group(1))})"
        return f"(var {name(e.name)})"
    if isinstance(e, prim.Subscript):
        if not isinstance(e.aggregate, prim.Variable):
            raise SerError("subscript of non-variable")
        idx = e.index if isinstance(e.index, tuple) else (e.index,)
        return "(sub " + " ".join([name(e.aggregate.name)] + [sexpr(i) for i in idx]) + ")"
    if isinstance(e, prim.Sum):
        return _fold("add", map(sexpr, e.children))
    if isinstance(e, prim.Product):
        return _fold("mul", map(sexpr, e.children))
    if isinstance(e, prim.Quotient):
        return f"(quot {sexpr(e.numerator)} {sexpr(e.denominator)})"
    if isinstance(e, prim.FloorDiv):
        return f"(fdiv {sexpr(e.numerator)} {sexpr(e.denominator)})"
    if isinstance(e, prim.Remainder):
        return f"(rem {sexpr(e.numerator)} {sexpr(e.denominator)})"
    if isinstance(e, prim.Power):
        return f"(pow {sexpr(e.base)} {sexpr(e.exponent)})"
    if isinstance(e, prim.Comparison):
        return f"(cmp {e.operator} {sexpr(e.left)} {sexpr(e.right)})"
    if isinstance(e, prim.LogicalAnd):
        return _fold("and", map(sexpr, e.children))
    if isinstance(e, prim.LogicalOr):
        return _fold("or", map(sexpr, e.children))
    if isinstance(e, prim.LogicalNot):
        return f"(not {sexpr(e.child)})"
    if isinstance(e, prim.If):
        return f"(if {sexpr(e.condition)} {sexpr(e.then)} {sexpr(e.else_)})"
    if isinstance(e, prim.NaN):
        if e.data_type is not None and not np.issubdtype(e.data_type, np.inexact):
            # a NaN node typed with an integer / bool type: there is no such value (`np.int32(nan)` raises,
            # `np.bool_(nan)` is True).  Spelled as a call of an unknown function: its value is outside the
            # exact domain (`undef`) like every NaN, but it is NOT a fill value or an operand the raiser
            # accepts (the real raiser refuses it with UnknownIndexLambdaExpr).
            return f"(call pytato.nan_as_{np.dtype(e.data_type).name})"
        return "(nan)"
    if isinstance(e, prim.Call):
        if not isinstance(e.function, prim.Variable):
            raise SerError("call of non-variable")
        return "(call " + " ".join([name(e.function.name)] + [sexpr(a) for a in e.parameters]) + ")"
    if isinstance(e, (prim.BitwiseAnd, prim.BitwiseOr, prim.BitwiseXor)):
        tag = {prim.BitwiseAnd: "bitand", prim.BitwiseOr: "bitor", prim.BitwiseXor: "bitxor"}[type(e)]
        return "(call " + " ".join([tag] + [sexpr(a) for a in e.children]) + ")"
    if isinstance(e, prim.BitwiseNot):
        return f"(call bitnot {sexpr(e.child)})"
    if isinstance(e, prim.Min):
        return _fold_call("pytato.c99.min", e.children)
    if isinstance(e, prim.Max):
        return _fold_call("pytato.c99.max", e.children)
    if isinstance(e, TypeCast):
        return f"(cast {np.dtype(e.dtype).name} {sexpr(e.inner_expr)})"
    if isinstance(e, Reduce):
        op = _REDOPS.get(type(e.op).__name__)
        if op is None:
            raise SerError(f"unknown reduction {type(e.op).__name__}")
        body = sexpr(e.inner_expr)
        # nest: first (sorted) variable outermost; KEEP_REDUCE_ORDER: in the order of `e.bounds` (the order in
        # which the loopy generator lists the reduction inames)
        items = list(e.bounds.items()) if KEEP_REDUCE_ORDER else sorted(e.bounds.items())
        for v, (lo, hi) in reversed(items):
            body = f"(reduce {op} {name(v)} {sexpr(lo)} {sexpr(hi)} {body})"
        return body
    raise SerError(f"unknown expression class {type(e).__name__}")


def _fold_call(f, xs):
    xs = [sexpr(x) for x in xs]
    r = xs[0]
    for x in xs[1:]:
        r = f"(call {f} {r} {x})"
    return r


def val(v) -> str:
    if isinstance(v, (bool, np.bool_)):
        return "#t" if v else "#f"
    if isinstance(v, (int, np.integer)):
        return str(int(v))
    if isinstance(v, Fraction):
        return str(v.numerator) if v.denominator == 1 else f"{v.numerator}/{v.denominator}"
    if isinstance(v, (float, np.floating)):
        f = float(v)
        if f != f or f in (float("inf"), float("-inf")):
            return "?"
        return val(Fraction(f))
    if isinstance(v, (complex, np.complexfloating)):
        c = complex(v)
        return val(c.real) if c.imag == 0 else "?"
    raise SerError(f"unknown value {type(v)}")


def shape(s) -> str:
    return "(" + " ".join(str(int(d)) for d in s) + ")"


def ints(xs) -> str:
    return "(" + " ".join(str(int(d)) for d in xs) + ")"


def vals(a) -> str:
    a = np.asarray(a)
    return "(" + " ".join(val(v) for v in a.reshape(-1).tolist()) + ")"


def binding(nm: str, a) -> str:
    a = np.asarray(a)
    return f"({name(nm)} {shape(a.shape)} {vals(a)})"


def parse_vals(s: str):
    """'(1 2 #t 1/2 ?)' -> list of python values (Fraction for non-integers, None for undef)."""
    s = s.strip()
    assert s.startswith("(") and s.endswith(")"), s
    out = []
    for t in s[1:-1].split():
        if t == "#t":
            out.append(True)
        elif t == "#f":
            out.append(False)
        elif t == "?":
            out.append(None)
        elif "/" in t:
            p, q = t.split("/")
            out.append(Fraction(int(p), int(q)))
        else:
            out.append(int(t))
    return out


def split_top(s: str) -> list[str]:
    """split 'a (b c) d' at top level"""
    out, depth, cur = [], 0, []
    for ch in s:
        if ch == "(":
            depth += 1
            cur.append(ch)
        elif ch == ")":
            depth -= 1
            cur.append(ch)
        elif ch.isspace() and depth == 0:
            if cur:
                out.append("".join(cur))
                cur = []
        else:
            cur.append(ch)
    if cur:
        out.append("".join(cur))
    return out

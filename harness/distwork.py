"""distwork — per-program work units of C08/C09/C10, run in a process pool.  Every unit
rebuilds its program from (seed, index, profile) or takes the spec verbatim, runs the real
pytato code on fakempi and returns plain data; Lean queries are issued by the parent."""
from __future__ import annotations

import multiprocessing as mp
import os
import collections
import dataclasses
import json
import random
import time
from concurrent.futures import ProcessPoolExecutor, TimeoutError as FutTimeout

import numpy as np

from . import distrun, fakempi
from .gen import comm as G


class WorkTimeout(Exception):
    pass


def _init_worker():
    distrun.setup()


def run_pool(fn, tasks, nproc=None, deadline_s=900.0):
    """map fn over tasks in worker processes; raises WorkTimeout when the deadline passes
    (the caller turns this into exit code 2)."""
    nproc = nproc or min(14, os.cpu_count() or 4)
    if not tasks:
        return []
    ctx = mp.get_context("fork")
    t_end = time.time() + deadline_s
    ex = ProcessPoolExecutor(max_workers=min(nproc, len(tasks)), mp_context=ctx, initializer=_init_worker)
    try:
        futs = [ex.submit(fn, t) for t in tasks]
        out = []
        for f in futs:
            left = t_end - time.time()
            if left <= 0:
                raise WorkTimeout("work pool deadline passed")
            try:
                out.append(f.result(timeout=left))
            except FutTimeout:
                raise WorkTimeout("work pool deadline passed") from None
        return out
    finally:
        for p in list(getattr(ex, "_processes", {}).values()):
            if p.is_alive() and time.time() >= t_end:
                p.kill()
        ex.shutdown(wait=False, cancel_futures=True)


# --------------------------------------------------------------------------- helpers

def _rank_summary(pr):
    return [{"stage": r.stage, "status": r.status, "exc": r.exc_class, "text": r.exc_text} for r in pr.ranks]


def get_spec(task):
    if task.get("spec") is not None:
        return task["spec"]
    return G.generate(task["seed"], task["index"], task.get("profile", "default"))


def explore_program(spec, nparts, ref, psers, tabs, mode, max_runs, nrandom, seed, max_traces,
                    stop_on_failure=True):
    """run the real executor under many schedules; returns a dict with failures and traces"""
    traces: list[str] = []
    seen_tr = set()
    failures = []
    info = {"runs": 0, "complete": 0, "pruned": 0, "exhaustive": False, "max_options": 0,
            "max_depth": 0, "mode": mode}

    def note_trace(run, complete):
        if len(traces) >= max_traces:
            return
        tr = distrun.lean_trace(run, psers, tabs, complete=complete)
        if tr is None:
            info["unobservable"] = True
            return
        if tr not in seen_tr:
            seen_tr.add(tr)
            traces.append(tr)

    if mode == "exhaustive":
        def run_once(sched, on_cp):
            return distrun.execute(spec, nparts, sched, on_cp)

        def check(run, sched):
            msg = distrun.check_exec(run, ref)
            if msg == "pruned":
                note_trace(run, False)
            else:
                note_trace(run, msg is None)
            return msg
        res = fakempi.explore(run_once, check, state_key=distrun.state_key, max_runs=max_runs,
                              stop_on_failure=stop_on_failure)
        info.update(runs=res.runs, complete=res.complete, pruned=res.pruned,
                    exhaustive=res.exhausted, max_options=res.max_options, max_depth=res.max_depth)
        failures = [{"choices": c, "what": m} for c, m in res.failures]
    else:
        scheds = [fakempi.Scheduler()]                      # always the first option
        rng = random.Random(f"sched:{seed}:{spec.get('index')}")
        for k in range(nrandom):
            scheds.append(fakempi.Scheduler(rng=random.Random(rng.random())))
        for sc in scheds:
            run = distrun.execute(spec, nparts, sc)
            msg = distrun.check_exec(run, ref)
            info["runs"] += 1
            info["complete"] += 1
            info["max_depth"] = max(info["max_depth"], len(sc.trace))
            info["max_options"] = max([info["max_options"]] + [n for _, n in sc.trace])
            note_trace(run, msg is None)
            if msg is not None:
                failures.append({"choices": sc.choices, "what": msg})
                if stop_on_failure:
                    break
    info["failures"] = failures
    info["traces"] = traces
    return info


def _jsonable_ref(ref):
    return [{k: v.tolist() for k, v in d.items()} for d in ref]


# --------------------------------------------------------------------------- C08 unit

def c08_unit(task):
    spec = get_spec(task)
    out = {"index": task.get("index"), "profile": task.get("profile"), "stats": G.stats(spec),
           "patterns": G.known_patterns(spec), "spec": spec if task.get("keep_spec") else None}
    try:
        ref = G.reference(spec)
    except G.RefUndefined as e:
        out["skip"] = f"reference undefined: {e}"
        return out
    pr = distrun.partition_program(spec, timeout=task.get("timeout", 30.0), do_verify=False)
    out["ranks"] = _rank_summary(pr)
    if any(r.status == "timeout" for r in pr.ranks):
        out["timeout"] = True
        return out
    if not pr.all_ok:
        out["rejected"] = True
        return out
    n = spec["nranks"]
    psers = [distrun.serialize_partition(pr, r) for r in range(n)]
    tabs = distrun.name_tables(psers)
    out["P"] = distrun.lean_partition(psers, tabs)
    out["py_clauses"] = distrun.py_check_clauses(psers)
    out["nparts"] = [len(ps["parts"]) for ps in psers]
    ncomm = out["stats"]["ncomm"]
    small = n <= 3 and ncomm <= 4
    mode = "exhaustive" if small else "random"
    info = explore_program(spec, [r.npart for r in pr.ranks], ref, psers, tabs, mode,
                           task.get("max_runs", 600), task.get("nrandom", 8), task.get("seed", 0),
                           task.get("max_traces", 40))
    out["explore"] = info
    if not info["failures"] and not any(out["patterns"].values()) and ncomm > 0:
        # the same partition with every mapping / set in another order
        parts = [r.part for r in pr.ranks]
        cg = bool(task.get("order_codegen"))
        base = [part_code(r.npart) for r in pr.ranks] if cg else None
        probs, cnt, to = order_checks(spec, parts, ref, f"{task.get('seed')}:{task.get('index')}",
                                      codegen=cg, base_code=base, timeout=task.get("timeout", 30.0))
        if to:
            out["timeout"] = True
        out["order"] = {"problems": probs, "counters": dict(cnt)}
    if not info["failures"] and not any(out["patterns"].values()) and task.get("call_sequences", True):
        cprobs, ccnt = call_sequence_checks(spec, [r.npart for r in pr.ranks], ref,
                                            f"{task.get('seed')}:{task.get('index')}")
        out["calls"] = {"problems": cprobs, "counters": dict(ccnt)}
    return out


def c08_replay_unit(task):
    """re-run one schedule of one program (replay files)"""
    spec = task["spec"]
    ref = G.reference(spec)
    pr = distrun.partition_program(spec, do_verify=False)
    if not pr.all_ok:
        return {"ranks": _rank_summary(pr), "rejected": True}
    sched = fakempi.Scheduler(prefix=task.get("choices", []))
    run = distrun.execute(spec, [r.npart for r in pr.ranks], sched)
    return {"what": distrun.check_exec(run, ref), "choices": sched.choices,
            "events": [repr(e) for e in run.events if e[0] in ("exec", "deliver", "deadlock", "finish")]}


# --------------------------------------------------------------------------- order permutation layer

class PermSet(frozenset):
    """a frozenset whose iteration order (for loops, list(), sorted()) is chosen by the test: the
    contract of DistributedGraphPart says `frozenset`, it says nothing about an order"""

    def __new__(cls, items=()):
        items = list(items)
        self = super().__new__(cls, items)
        self._order = items
        return self

    def __iter__(self):
        return iter(self._order)

    def __reduce__(self):
        return (PermSet, (self._order,))


ORDER_MODES = ("reversed", "shuffled")


def permute_partition(part, mode, rng=None):
    """the same DistributedGraphPartition with the entries of every mapping and every set-valued
    field in another order (parts, name_to_output, name_to_recv_node, name_to_send_nodes and the
    list of sends of one name, output_names, needed_pids, user / partition input names)"""
    from pytato.distributed.partition import DistributedGraphPartition
    if mode == "given":
        return part

    def order(xs):
        xs = list(xs)
        if mode == "reversed":
            xs.reverse()
        else:
            rng.shuffle(xs)
        return xs

    def pset(st):
        return PermSet(order(sorted(st, key=repr)))

    parts = {}
    for pid, p in order(sorted(part.parts.items(), key=lambda kv: repr(kv[0]))):
        parts[pid] = dataclasses.replace(
            p,
            needed_pids=pset(p.needed_pids),
            user_input_names=pset(p.user_input_names),
            partition_input_names=pset(p.partition_input_names),
            output_names=pset(p.output_names),
            name_to_recv_node=dict(order(sorted(p.name_to_recv_node.items()))),
            name_to_send_nodes={k: order(v) for k, v in order(sorted(p.name_to_send_nodes.items()))})
    return DistributedGraphPartition(parts=parts,
                                     name_to_output=dict(order(sorted(part.name_to_output.items()))),
                                     overall_output_names=part.overall_output_names)


def permuted(parts, mode, key):
    return [permute_partition(p, mode, random.Random(f"perm:{key}:{mode}:{r}")) for r, p in enumerate(parts)]


def _outcomes(outs):
    return [{"status": o.status, "exc": type(o.exc).__name__ if o.status == "raised" else None,
             "text": str(o.exc)[:160] if o.status == "raised" else None} for o in outs]


def verify_world(parts, n, timeout=30.0):
    from pytato.distributed.verify import verify_distributed_partition
    world = fakempi.World(n, timeout=timeout)
    return world.run(lambda comm: verify_distributed_partition(comm, parts[comm.rank]))


def _tag_table(part, npart):
    """symbolic tag -> integer tag, read off the partition before / after numbering"""
    tab = {}
    bad = []
    for pid, p in part.parts.items():
        q = npart.parts[pid]
        for nm, rv in p.name_to_recv_node.items():
            tab.setdefault(repr(rv.comm_tag), set()).add(q.name_to_recv_node[nm].comm_tag)
        for nm, sds in p.name_to_send_nodes.items():
            for a, b in zip(sds, q.name_to_send_nodes[nm]):
                tab.setdefault(repr(a.comm_tag), set()).add(b.comm_tag)
    return tab


def order_checks(spec, parts, ref, key, modes=ORDER_MODES, execute=True, codegen=False, base_code=None,
                 timeout=30.0):
    """a valid program's real partition, rebuilt with every mapping / set in another order:
    verify must accept, the tags must still be numbered consistently, the execution must give the
    reference values, the generated code must not change. Returns (problems, counters)"""
    from pytato.distributed.tags import number_distributed_tags
    n = spec["nranks"]
    problems = []
    cnt = collections.Counter()
    for mode in modes:
        perm = permuted(parts, mode, key)
        cnt["permuted_partitions"] += 1
        outs = verify_world(perm, n, timeout)
        if any(o.status == "timeout" for o in outs):
            return problems, cnt, True
        bad = [o for o in outs if o.status == "raised"]
        if bad:
            problems.append({"order": mode, "what": f"verify:{type(bad[0].exc).__name__}",
                             "detail": str(bad[0].exc)[:200]})
        world = fakempi.World(n, timeout=timeout)
        outs = world.run(lambda comm: number_distributed_tags(comm, perm[comm.rank], base_tag=distrun.BASE_TAG))
        if any(o.status == "timeout" for o in outs):
            return problems, cnt, True
        bad = [o for o in outs if o.status != "ok"]
        if bad:
            problems.append({"order": mode, "what": f"number-tags:{type(bad[0].exc).__name__}",
                             "detail": str(bad[0].exc)[:200]})
            continue
        nparts = [o.value[0] for o in outs]
        nexts = {o.value[1] for o in outs}
        table: dict = {}
        for r in range(n):
            for k_, v in _tag_table(perm[r], nparts[r]).items():
                table.setdefault(k_, set()).update(v)
        ints = [next(iter(v)) for v in table.values() if len(v) == 1]
        if any(len(v) != 1 for v in table.values()):
            problems.append({"order": mode, "what": "number-tags:one-tag-several-integers", "detail": repr(table)[:200]})
        elif len(set(ints)) != len(ints):
            problems.append({"order": mode, "what": "number-tags:collision", "detail": repr(table)[:200]})
        elif len(nexts) != 1 or sorted(ints) != list(range(distrun.BASE_TAG, distrun.BASE_TAG + len(ints))) \
                or nexts != {distrun.BASE_TAG + len(ints)}:
            problems.append({"order": mode, "what": "number-tags:not-contiguous", "detail": repr((table, nexts))[:200]})
        cnt["tag_tables"] += 1
        if execute:
            for sc in (fakempi.Scheduler(), fakempi.Scheduler(rng=random.Random(f"ordsched:{key}:{mode}"))):
                run = distrun.execute(spec, nparts, sc)
                msg = distrun.check_exec(run, ref)
                cnt["executions"] += 1
                if msg == "pruned":
                    continue
                if msg is not None:
                    problems.append({"order": mode, "what": "execute:" + _exec_class(msg), "detail": str(msg)[:200],
                                     "choices": sc.choices})
                    break
        if codegen and base_code is not None:
            code = [part_code(np_) for np_ in nparts]
            cnt["codegen_partitions"] += 1
            for r in range(n):
                if code[r] != base_code[r]:
                    fld = _code_difference(base_code[r], code[r])
                    problems.append({"order": mode, "what": f"codegen:{fld}", "detail": f"rank {r}"})
                    break
    return problems, cnt, False


def _exec_class(msg):
    m = str(msg).split(":")
    if m[0] == "raised" and len(m) >= 3:
        return f"raised:{m[2]}"
    return m[0]


def part_code(npart):
    """per part: canonical kernel dump, argument order, bound-argument names (tag integers are
    replaced by their rank among the integers, numbering depends on the order tags are met)"""
    from pytato.distributed.execute import generate_code_for_partition
    from . import cexec
    try:
        prgs = generate_code_for_partition(npart)
    except Exception as e:      # noqa: BLE001
        return {"error": type(e).__name__}
    out = {}
    for pid in sorted(prgs):
        bp = prgs[pid]
        out[pid] = {"kernel": json.dumps(cexec.canonical_dump(bp.program), sort_keys=True, default=str),
                    "arg_order": [a.name for a in bp.program.default_entrypoint.args],
                    "bound": sorted(bp.bound_arguments)}
    return out


def _code_difference(a, b):
    if "error" in a or "error" in b:
        return "raises"
    if sorted(a) != sorted(b):
        return "parts"
    for pid in a:
        for f in ("arg_order", "bound", "kernel"):
            if a[pid][f] != b[pid][f]:
                return f
    return "?"


# --------------------------------------------------------------------------- call sequences on the executor

CALL_MODES = ("same-dict", "fresh-copy", "mutated-between-calls")


def call_sequence_checks(spec, nparts, ref, key, ncalls=3, timeout=20.0):
    """the same (numbered) partition executed several times, as a time loop does: the input dict
    is (a) the same object every time, (b) a fresh copy per call, (c) the same object with one
    input per rank replaced by the caller between calls.  Every call must return the reference
    values for ITS inputs and must leave the caller's dict alone.  Returns (problems, counters)"""
    n = spec["nranks"]
    problems = []
    cnt = collections.Counter()
    for mode in CALL_MODES:
        rng = random.Random(f"calls:{key}:{mode}")
        dicts = [G.input_args(spec, r) for r in range(n)]
        cur, cur_ref = spec, ref
        salt: dict = {}
        for call in range(ncalls):
            if mode == "mutated-between-calls" and call > 0:
                for r in range(n):
                    if dicts[r]:
                        nm = rng.choice(sorted(dicts[r]))
                        salt[f"{r}:{nm}"] = call
                cur = dict(spec, input_salt=dict(salt))
                for k_ in salt:
                    r, nm = k_.split(":", 1)
                    dicts[int(r)][nm] = G.input_value(cur, int(r), nm)
                try:
                    cur_ref = G.reference(cur)
                except G.RefUndefined:
                    break
            passed = [dict(d) for d in dicts] if mode == "fresh-copy" else dicts
            sc = fakempi.Scheduler() if call == 0 else fakempi.Scheduler(rng=random.Random(rng.random()))
            run = distrun.execute(cur, nparts, sc, timeout=timeout, input_dicts=passed)
            msg = distrun.check_exec(run, cur_ref)
            cnt["calls"] += 1
            if msg == "pruned":
                continue
            if msg is not None:
                problems.append({"mode": mode, "call": call, "what": _exec_class(msg), "detail": str(msg)[:200],
                                 "choices": sc.choices})
                break
        cnt["sequences"] += 1
    return problems, cnt


# --------------------------------------------------------------------------- C09 unit

def _comm_id_tuple(spec, cid):
    return (cid.src_rank, cid.dest_rank, distrun.tag_index(spec, cid.comm_tag))


def parts_of(rank, batches):
    """the part structure rank `rank` must derive from the global batches (the rule of
    find_distributed_partition's docstring, written independently): list of (recv ids, send ids)"""
    parts = []
    recv_ids: set = set()
    for b in batches:
        send_ids = {c for c in b if c[0] == rank}
        if recv_ids or send_ids:
            parts.append((frozenset(recv_ids), frozenset(send_ids)))
        recv_ids = {c for c in b if c[1] == rank}
    if recv_ids:
        parts.append((frozenset(recv_ids), frozenset()))
    if not parts:
        parts.append((frozenset(), frozenset()))
    return parts


def c09_unit(task):
    spec = get_spec(task)
    n = spec["nranks"]
    out = {"index": task.get("index"), "stats": G.stats(spec), "patterns": G.known_patterns(spec),
           "spec": spec if task.get("keep_spec") else None, "graph": distrun.lean_graph(spec),
           "problems": []}
    # run A: find + number (no verify) — the partition and the tags
    pa = distrun.partition_program(spec, timeout=task.get("timeout", 30.0), do_verify=False)
    out["ranks_find"] = _rank_summary(pa)
    # run B: find + verify — does verify accept?
    pb = distrun.partition_program(spec, timeout=task.get("timeout", 30.0), do_number=False)
    out["ranks_verify"] = _rank_summary(pb)
    if any(r.status == "timeout" for r in pa.ranks + pb.ranks):
        out["timeout"] = True
        return out
    if not pa.all_ok:
        out["rejected"] = True
        return out
    psers = [distrun.serialize_partition(pa, r) for r in range(n)]
    tabs = distrun.name_tables(psers)
    out["P"] = distrun.lean_partition(psers, tabs)
    out["py_clauses"] = distrun.py_check_clauses(psers)
    prog_s, tab = distrun.lean_program(spec)
    out["partition_query"] = f"(dist partition {distrun.NAME_BASE} {prog_s})"
    canon, cproblems = distrun.real_partition_canonical(pa, spec, tab)
    out["real_partition"] = canon
    out["canon_problems"] = cproblems
    out["skeleton_query"] = distrun.skeleton_query(spec)
    out["real_skeleton"] = distrun.real_skeleton(psers)
    # batches as broadcast by rank 0
    try:
        real_batches = [sorted({_comm_id_tuple(spec, c) for c in b}) for b in pa.batches]
    except Exception as e:      # not a list of sets of comm ids
        real_batches = None
        out["problems"].append(f"batches-unreadable:{type(e).__name__}")
    out["batches"] = real_batches
    sends_sp, _ = G.comm_ops(spec)
    pairs_by_tag: dict = {}
    for s_ in sends_sp:
        pairs_by_tag.setdefault(s_["tag"], set()).add((s_["rank"], s_["dst"]))
    outs_kind = [G._strip(rk, o) for rk in spec["ranks"] for _, o in rk["outputs"]]
    out["dist"] = {
        "batches>=3": int(real_batches is not None and len(real_batches) >= 3),
        "some-part-without-sends": int(any(not p["sends"] for ps in psers for p in ps["parts"])),
        "some-part-without-recvs": int(any(not p["recvs"] for ps in psers for p in ps["parts"])),
        "rank-with>=3-parts": int(any(len(ps["parts"]) >= 3 for ps in psers)),
        "bystander-rank": int(any(not any(p["sends"] or p["recvs"] for p in ps["parts"]) for ps in psers)
                              and out["stats"]["ncomm"] > 0),
        "output-is-a-receive": int("recv" in outs_kind),
        "output-is-an-input": int("input" in outs_kind),
        "zero-size-arrays": int(spec["n"] == 0),
        "0-d-arrays": int(bool(spec.get("scalar"))),
        "same-tag-between-different-rank-pairs": int(any(len(v) > 1 for v in pairs_by_tag.values())),
        "non-integer-tags": int(any(t[0] != "i" for t in spec["tags"])),
        "mixed-tag-types": int(len({t[0] for t in spec["tags"]}) > 1),
        "non-int64-dtypes": int(any(nd.get("dtype", "int64") != "int64" for rk in spec["ranks"] for nd in rk["nodes"])),
        "high-level-node-kinds": int(any(nd["op"] == "kind" for rk in spec["ranks"] for nd in rk["nodes"])),
    }
    if real_batches is not None:
        for r in range(n):
            want = parts_of(r, [set(b) for b in real_batches])
            got = []
            for p in sorted(psers[r]["parts"], key=lambda p: p["pid"]):
                got.append((frozenset((rv[1], r, rv[2]) for rv in p["recvs"]),
                            frozenset((r, s[1], s[2]) for s in p["sends"])))
            if got != want:
                out["problems"].append(f"parts-vs-batches:rank{r}")
            pids = sorted(p["pid"] for p in psers[r]["parts"])
            if pids != list(range(len(pids))):
                out["problems"].append(f"pids-not-consecutive:rank{r}")
    # tags
    sends, recvs = {}, {}
    for ps in psers:
        for p in ps["parts"]:
            for s in p["sends"]:
                sends[(ps["rank"], s[1], s[2])] = s[3]
            for rv in p["recvs"]:
                recvs[(rv[1], ps["rank"], rv[2])] = rv[3]
    for cid, it in sorted(sends.items(), key=repr):
        if not isinstance(it, (int, np.integer)) or isinstance(it, bool):
            out["problems"].append(f"tags:not-an-integer:{cid}")
        if cid in recvs and recvs[cid] != it:
            out["problems"].append(f"tags:ends-disagree:{cid}:{it}!={recvs[cid]}")
    by_pair: dict = {}
    for cid, it in list(sends.items()) + list(recvs.items()):
        by_pair.setdefault((cid[0], cid[1]), {}).setdefault(it, set()).add(cid)
    for pair, m in by_pair.items():
        for it, cids in m.items():
            if len(cids) > 1:
                out["problems"].append(f"tags:collision:{pair}:{it}")
    nexts = sorted({r.next_tag for r in pa.ranks})
    if len(nexts) != 1:
        out["problems"].append(f"tags:next-tag-differs:{nexts}")
    out["next_tag"] = nexts[0] if nexts else None
    # the gathered sequence and the table every rank applied
    g = pa.gathered_tags
    if g is None:
        out["problems"].append("tags:no-gather-observed")
    else:
        try:
            out["gathered"] = [[distrun.tag_index(spec, t) for t in tup] for tup in g]
        except Exception:
            out["problems"].append("tags:gather-unreadable")
    maps = []
    for r, tm in enumerate(pa.tag_maps):
        try:
            m, nx = tm
            maps.append((sorted((distrun.tag_index(spec, k), v) for k, v in m.items()), nx))
        except Exception:
            maps.append(None)
    out["tag_maps"] = maps
    if any(m is None for m in maps):
        out["problems"].append("tags:no-broadcast-table-observed")
    elif any(m != maps[0] for m in maps):
        out["problems"].append("tags:ranks-apply-different-tables")
    # int tag of every message as the model should produce it
    out["int_tags"] = sorted((list(cid), int(it)) for cid, it in sends.items()
                             if isinstance(it, (int, np.integer)))
    if all(r.status == "ok" for r in pb.ranks) and not any(out["patterns"].values()) and out["stats"]["ncomm"] > 0:
        # the same partition with the entries of every mapping / set in another order:
        # verify must still accept, the tags must still be numbered consistently
        probs, cnt, to = order_checks(spec, [r.part for r in pa.ranks], None,
                                      f"{task.get('seed')}:{task.get('index')}", execute=False,
                                      timeout=task.get("timeout", 30.0))
        if to:
            out["timeout"] = True
        out["order"] = {"problems": probs, "counters": dict(cnt)}
    return out


# --------------------------------------------------------------------------- C10 unit

def c10_unit(task):
    """one (possibly faulted) program: what does the real code do on every rank, and — when it
    lets the program through — does the partition run?"""
    spec = get_spec(task)
    for f in task.get("faults", []):
        spec = G.apply_fault(spec, *f)
        if spec is None:
            return {"index": task.get("index"), "faults": task.get("faults"), "inapplicable": True}
    n = spec["nranks"]
    out = {"index": task.get("index"), "faults": task.get("faults", []), "stats": G.stats(spec),
           "patterns": G.known_patterns(spec), "graph": distrun.lean_graph(spec), "nranks": n,
           "spec": spec if task.get("keep_spec", True) else None}
    pr = distrun.partition_program(spec, timeout=task.get("timeout", 30.0))
    out["ranks"] = _rank_summary(pr)
    if any(r.status == "timeout" for r in pr.ranks):
        out["timeout"] = True
        return out
    if pr.all_ok:
        # let through: run it
        try:
            ref = G.reference(spec)
        except G.RefUndefined as e:
            ref = None
            out["ref_undefined"] = str(e)
        psers = [distrun.serialize_partition(pr, r) for r in range(n)]
        tabs = distrun.name_tables(psers)
        out["P"] = distrun.lean_partition(psers, tabs)
        ssp, rsp = G.comm_ops(spec)
        out["comm_count"] = {"program_sends": len(ssp), "program_recvs": len(rsp),
                             "partition_sends": sum(len(p["sends"]) for ps in psers for p in ps["parts"]),
                             "partition_recvs": sum(len(p["recvs"]) for ps in psers for p in ps["parts"])}
        small = n <= 3 and out["stats"]["ncomm"] <= 4
        info = explore_program(spec, [r.npart for r in pr.ranks], ref, psers, tabs,
                               "exhaustive" if small else "random",
                               task.get("max_runs", 200), task.get("nrandom", 4), task.get("seed", 0),
                               0)
        info.pop("traces", None)
        out["explore"] = info
    return out


# --------------------------------------------------------------------------- C10: faults on REAL partitions

PART_FAULTS = ["none", "dup_send_same_array", "dup_send_other_array", "dup_send_other_dtype",
               "dup_send_other_part", "orphan_send_existing_rank", "orphan_send_rank_beyond_size",
               "drop_recv", "drop_send", "retag_send", "cycle_needed_pids", "recv_name_as_output",
               "drop_output_read_later",
               # cycles of every length through every edge class (needed_pids / name / send->receive)
               "needs_self", "needs_later_part", "name_edge_from_later_part", "name_edge_self",
               "self_send_recv_same_part", "self_send_later_recv_earlier", "self_send_earlier_recv_later",
               "cross_rank_cycle"]


def _all_sends(part):
    """[(pid, name, index, send)] in a deterministic order"""
    out = []
    for pid in sorted(part.parts):
        p = part.parts[pid]
        for name in sorted(p.name_to_send_nodes):
            for k, sd in enumerate(p.name_to_send_nodes[name]):
                out.append((pid, name, k, sd))
    return out


def apply_partition_fault(parts, kind, site, size):
    """parts: list of DistributedGraphPartition (one per rank).  Returns (new list, description)
    or None if the fault does not apply at this site."""
    import dataclasses
    import numpy as np
    from pytato.distributed.partition import DistributedGraphPartition
    ranks_with_sends = [r for r, pt_ in enumerate(parts) if _all_sends(pt_)]
    ranks_with_recvs = [r for r, pt_ in enumerate(parts)
                        if any(p.name_to_recv_node for p in pt_.parts.values())]

    def rebuild(r, newparts):
        out = list(parts)
        out[r] = DistributedGraphPartition(parts=newparts, name_to_output=parts[r].name_to_output,
                                           overall_output_names=parts[r].overall_output_names)
        return out

    def with_part(r, pid, **changes):
        newparts = dict(parts[r].parts)
        newparts[pid] = dataclasses.replace(parts[r].parts[pid], **changes)
        return rebuild(r, newparts)

    if kind == "none":
        return list(parts), "unchanged"
    if kind in ("dup_send_same_array", "dup_send_other_array", "dup_send_other_dtype", "dup_send_other_part",
                "drop_send", "retag_send"):
        if not ranks_with_sends:
            return None
        r = ranks_with_sends[site % len(ranks_with_sends)]
        sends = _all_sends(parts[r])
        pid, name, k, sd = sends[(site // len(ranks_with_sends)) % len(sends)]
        p = parts[r].parts[pid]
        m = {n: list(v) for n, v in p.name_to_send_nodes.items()}
        if kind == "dup_send_same_array":
            m[name].append(sd)
            return with_part(r, pid, name_to_send_nodes=m), f"rank {r} part {pid}: send of {name} twice"
        if kind == "dup_send_other_array":
            cands = [n for n in sorted(p.output_names) if n != name and n in parts[r].name_to_output
                     and parts[r].name_to_output[n].shape == sd.data.shape
                     and parts[r].name_to_output[n].dtype == sd.data.dtype]
            if not cands:
                return None
            n2 = cands[site % len(cands)]
            m.setdefault(n2, []).append(sd.copy(data=parts[r].name_to_output[n2]))
            return with_part(r, pid, name_to_send_nodes=m), \
                f"rank {r} part {pid}: {n2} also sent to ({sd.dest_rank}, {sd.comm_tag!r})"
        if kind == "dup_send_other_dtype":
            other = (np.complex64 if sd.data.dtype.kind == "c" else
                     np.float32 if sd.data.dtype != np.float32 else np.float64)
            m[name].append(sd.copy(data=sd.data.astype(other)))
            return with_part(r, pid, name_to_send_nodes=m), \
                f"rank {r} part {pid}: second send of {name} as {np.dtype(other)}"
        if kind == "dup_send_other_part":
            others = [q for q in sorted(parts[r].parts) if q != pid]
            if not others:
                return None
            q = others[site % len(others)]
            pq = parts[r].parts[q]
            mq = {n: list(v) for n, v in pq.name_to_send_nodes.items()}
            mq.setdefault(name, []).append(sd)
            return with_part(r, q, name_to_send_nodes=mq), f"rank {r}: send of part {pid} repeated in part {q}"
        if kind == "drop_send":
            del m[name][k]
            if not m[name]:
                del m[name]
            return with_part(r, pid, name_to_send_nodes=m), f"rank {r} part {pid}: a send of {name} removed"
        if kind == "retag_send":
            m[name][k] = sd.copy(comm_tag="partition-fault-tag")
            return with_part(r, pid, name_to_send_nodes=m), f"rank {r} part {pid}: send of {name} retagged"
    if kind in ("orphan_send_existing_rank", "orphan_send_rank_beyond_size"):
        r = site % len(parts)
        pid = sorted(parts[r].parts)[(site // len(parts)) % len(parts[r].parts)]
        p = parts[r].parts[pid]
        outs = [n for n in sorted(p.output_names) if n in parts[r].name_to_output]
        if not outs or (kind == "orphan_send_existing_rank" and size < 2):
            return None
        name = outs[site % len(outs)]
        from pytato.distributed.nodes import make_distributed_send
        dst = (r + 1) % size if kind == "orphan_send_existing_rank" else size + 1
        m = {n: list(v) for n, v in p.name_to_send_nodes.items()}
        m.setdefault(name, []).append(make_distributed_send(parts[r].name_to_output[name], dst, "orphan-send"))
        return with_part(r, pid, name_to_send_nodes=m), f"rank {r} part {pid}: extra send of {name} to rank {dst}"
    if kind in ("drop_recv", "recv_name_as_output"):
        if not ranks_with_recvs:
            return None
        r = ranks_with_recvs[site % len(ranks_with_recvs)]
        cands = [(pid, n) for pid in sorted(parts[r].parts) for n in sorted(parts[r].parts[pid].name_to_recv_node)]
        pid, name = cands[(site // len(ranks_with_recvs)) % len(cands)]
        p = parts[r].parts[pid]
        if kind == "drop_recv":
            m = {n: v for n, v in p.name_to_recv_node.items() if n != name}
            return with_part(r, pid, name_to_recv_node=m), f"rank {r} part {pid}: receive {name} removed"
        return with_part(r, pid, output_names=p.output_names | {name}), \
            f"rank {r} part {pid}: received name {name} declared a part output"
    if kind == "cycle_needed_pids":
        cands = [r for r, pt_ in enumerate(parts) if len(pt_.parts) >= 2]
        if not cands:
            return None
        r = cands[site % len(cands)]
        pids = sorted(parts[r].parts)
        return with_part(r, pids[0], needed_pids=parts[r].parts[pids[0]].needed_pids | {pids[-1]}), \
            f"rank {r}: part {pids[0]} additionally needs part {pids[-1]}"
    def add_send_recv(rs, ps, rr, pr_, tag):
        """a new message: send in part ps of rank rs -> receive in part pr_ of rank rr"""
        from pytato.distributed.nodes import make_distributed_recv, make_distributed_send
        p_s = parts[rs].parts[ps]
        outs = [n for n in sorted(p_s.output_names) if n in parts[rs].name_to_output]
        if not outs:
            return None
        name = outs[site % len(outs)]
        ary = parts[rs].name_to_output[name]
        new = list(parts)
        m = {n: list(v) for n, v in p_s.name_to_send_nodes.items()}
        m.setdefault(name, []).append(make_distributed_send(ary, rr, tag))
        np_s = dict(new[rs].parts)
        np_s[ps] = dataclasses.replace(p_s, name_to_send_nodes=m)
        new[rs] = DistributedGraphPartition(parts=np_s, name_to_output=new[rs].name_to_output,
                                            overall_output_names=new[rs].overall_output_names)
        p_r = new[rr].parts[pr_]
        rm = dict(p_r.name_to_recv_node)
        rm["_fault_recv"] = make_distributed_recv(rs, tag, ary.shape, ary.dtype)
        np_r = dict(new[rr].parts)
        np_r[pr_] = dataclasses.replace(p_r, name_to_recv_node=rm)
        new[rr] = DistributedGraphPartition(parts=np_r, name_to_output=new[rr].name_to_output,
                                            overall_output_names=new[rr].overall_output_names)
        return new

    if kind in ("needs_self", "needs_later_part", "name_edge_from_later_part", "self_send_recv_same_part",
                "self_send_later_recv_earlier", "self_send_earlier_recv_later", "name_edge_self"):
        multi = kind not in ("needs_self", "self_send_recv_same_part", "name_edge_self")
        cands = [r for r, pt_ in enumerate(parts) if len(pt_.parts) >= (2 if multi else 1)]
        if not cands:
            return None
        r = cands[site % len(cands)]
        pids = sorted(parts[r].parts)
        k = (site // len(cands))
        if kind == "needs_self":
            pid = pids[k % len(pids)]
            return with_part(r, pid, needed_pids=parts[r].parts[pid].needed_pids | {pid}), \
                f"rank {r}: part {pid} needs itself"
        if kind == "name_edge_self":
            pid = pids[k % len(pids)]
            outs = sorted(parts[r].parts[pid].output_names)
            if not outs:
                return None
            n_ = outs[site % len(outs)]
            return with_part(r, pid, partition_input_names=parts[r].parts[pid].partition_input_names | {n_}), \
                f"rank {r}: part {pid} lists its own output {n_} as a partition input (no cycle: verify skips it)"
        # an ordered pair i < j of parts of the rank
        pairs = [(a, b) for ia, a in enumerate(pids) for b in pids[ia + 1:]]
        if kind == "self_send_recv_same_part":
            pid = pids[k % len(pids)]
            res_ = add_send_recv(r, pid, r, pid, "fault-loop")
            return None if res_ is None else (res_, f"rank {r} part {pid}: sends to itself and waits for that message")
        i, j = pairs[k % len(pairs)]
        if kind == "needs_later_part":
            return with_part(r, i, needed_pids=parts[r].parts[i].needed_pids | {j}), \
                f"rank {r}: part {i} needs the later part {j} (cycle of length {pids.index(j) - pids.index(i) + 1})"
        if kind == "name_edge_from_later_part":
            outs = [n for n in sorted(parts[r].parts[j].output_names)]
            if not outs:
                return None
            n_ = outs[site % len(outs)]
            return with_part(r, i, partition_input_names=parts[r].parts[i].partition_input_names | {n_}), \
                f"rank {r}: part {i} reads {n_}, an output of the later part {j}"
        if kind == "self_send_later_recv_earlier":
            res_ = add_send_recv(r, j, r, i, "fault-loop")
            return None if res_ is None else (res_, f"rank {r}: part {j} sends to the rank itself, the earlier part {i} receives it")
        res_ = add_send_recv(r, i, r, j, "fault-loop")
        return None if res_ is None else (res_, f"rank {r}: part {i} sends to the rank itself, the later part {j} receives it")
    if kind == "cross_rank_cycle":
        # for a message (A, a) -> (B, b): a new message from (B, b) back to (A, a): each waits for the other
        msgs = []
        for rs, pt_ in enumerate(parts):
            for pid, name, k_, sd in _all_sends(pt_):
                rr = sd.dest_rank
                if not (0 <= rr < size) or rr == rs:
                    continue
                for q in sorted(parts[rr].parts):
                    for rv in parts[rr].parts[q].name_to_recv_node.values():
                        if rv.src_rank == rs and rv.comm_tag == sd.comm_tag:
                            msgs.append((rs, pid, rr, q))
        if not msgs:
            return None
        rs, a, rr, b = msgs[site % len(msgs)]
        res_ = add_send_recv(rr, b, rs, a, "fault-loop")
        return None if res_ is None else (res_, f"rank {rr} part {b} answers to rank {rs} part {a}, which it waits for")
    if kind == "drop_output_read_later":
        cands = []
        for r, pt_ in enumerate(parts):
            for pid in sorted(pt_.parts):
                for n in sorted(pt_.parts[pid].output_names):
                    if any(n in q.partition_input_names for q in pt_.parts.values() if q.pid != pid):
                        cands.append((r, pid, n))
        if not cands:
            return None
        r, pid, n = cands[site % len(cands)]
        return with_part(r, pid, output_names=parts[r].parts[pid].output_names - {n}), \
            f"rank {r} part {pid}: output {n} (read by another part) removed"
    raise ValueError(kind)


def c10_partfault_unit(task):
    """a fault injected into the REAL partition of a valid program, then the real
    verify_distributed_partition on every rank"""
    from pytato.distributed.verify import verify_distributed_partition
    spec = get_spec(task)
    n = spec["nranks"]
    kind, site = task["fault"]
    out = {"index": task.get("index"), "profile": task.get("profile"), "fault": [kind, site], "nranks": n,
           "patterns": G.known_patterns(spec), "spec": spec}
    pr = distrun.partition_program(spec, timeout=task.get("timeout", 30.0), do_verify=False, do_number=False)
    if any(r.status == "timeout" for r in pr.ranks):
        out["timeout"] = True
        return out
    if not pr.all_ok:
        out["inapplicable"] = "no partition"
        return out
    res = apply_partition_fault([r.part for r in pr.ranks], kind, site, n)
    if res is None:
        out["inapplicable"] = "fault does not apply"
        return out
    newparts, desc = res
    out["description"] = desc
    world = fakempi.World(n, timeout=task.get("timeout", 30.0))
    outs = world.run(lambda comm: verify_distributed_partition(comm, newparts[comm.rank]))
    out["ranks"] = [{"status": o.status, "exc": type(o.exc).__name__ if o.status == "raised" else None,
                     "text": str(o.exc)[:160] if o.status == "raised" else None} for o in outs]
    if any(o.status == "timeout" for o in outs):
        out["timeout"] = True
        return out
    # the mutated partitions for the Lean model
    for rp, np_ in zip(pr.ranks, newparts):
        rp.part = np_
        rp.npart = None
    psers = [distrun.serialize_partition(pr, r) for r in range(n)]
    tabs = distrun.name_tables(psers)
    out["P"] = distrun.lean_partition(psers, tabs)
    out["pins"] = "(" + " ".join(
        f"({ps['rank']} {int(p['pid'])} ({' '.join(str(tabs[ps['rank']][nm]) for nm in p['pin'])}))"
        for ps in psers for p in ps["parts"]) + ")"
    return out


def c10_partfault_multi_unit(task):
    """several faults injected (one at a time) into the REAL partition of one valid program; the
    real verify_distributed_partition runs on the faulted partition as built and on copies with
    every mapping / set in another order (task["orders"][i])"""
    spec = get_spec(task)
    n = spec["nranks"]
    out = {"index": task.get("index"), "profile": task.get("profile"), "nranks": n, "spec": spec, "entries": []}
    pr = distrun.partition_program(spec, timeout=task.get("timeout", 30.0), do_verify=False, do_number=False)
    if any(r.status == "timeout" for r in pr.ranks):
        out["timeout"] = True
        return out
    if not pr.all_ok:
        out["inapplicable"] = "no partition"
        return out
    orig = [r.part for r in pr.ranks]
    for (kind, site), orders in zip(task["faults"], task["orders"]):
        res = apply_partition_fault(list(orig), kind, site, n)
        if res is None:
            continue
        newparts, desc = res
        ent = {"fault": [kind, site], "description": desc, "runs": {}}
        for mode in ["given"] + list(orders):
            ps = permuted(newparts, mode, f"{task.get('seed')}:{task.get('index')}:{kind}:{site}")
            outs = verify_world(ps, n, task.get("timeout", 30.0))
            if any(o.status == "timeout" for o in outs):
                out["timeout"] = True
                return out
            ent["runs"][mode] = _outcomes(outs)
        for rp, np_ in zip(pr.ranks, newparts):
            rp.part = np_
            rp.npart = None
        psers = [distrun.serialize_partition(pr, r) for r in range(n)]
        tabs = distrun.name_tables(psers)
        ent["P"] = distrun.lean_partition(psers, tabs)
        ent["pins"] = "(" + " ".join(
            f"({ps['rank']} {int(p['pid'])} ({' '.join(str(tabs[ps['rank']][nm]) for nm in p['pin'])}))"
            for ps in psers for p in ps["parts"]) + ")"
        out["entries"].append(ent)
    for rp, op in zip(pr.ranks, orig):
        rp.part = op
    return out

"""Reflective serialisation of the graph pytato's loopy statement generator works on — the result of
`pytato.codegen.preprocess` (the REAL preprocessing: lowering to index lambdas, data wrappers to placeholders,
compute order), with the outputs' `ImplStored` / name tags stripped as `generate_loopy` does — for the Lean
model of the generator (`(loopygen …)` query, lean/PtModel/HandleLoopyGen.lean).  The statement generator
itself (CodeGenMapper, InlinedExpressionGenMapper, add_store) is never called here.

Oracles taken from the real code (recorded in the trusted base):
  * `is_quasi_affine(bound)` for every reduction bound (decides hoisting / materialisation);
  * the iteration order of `ReductionCollector()(expr)` (a frozenset) — the order in which bound temporaries
    are created."""
from __future__ import annotations

import numpy as np

from . import ser


def _static(shape) -> bool:
    return all(isinstance(d, (int, np.integer)) for d in shape)


def _shape(shape) -> str:
    return "(" + " ".join(str(int(d)) for d in shape) + ")"


def _nested_reduce(e) -> bool:
    """a Reduce node inside another Reduce node's inner expression or bounds (not the one multi-variable node)"""
    from pytato.scalar_expr import Reduce
    from pytato.target.loopy.codegen import ReductionCollector
    for r in ReductionCollector()(e):
        if ReductionCollector()(r.inner_expr) or any(ReductionCollector()(b) for bs in r.bounds.values() for b in bs):
            return True
    return False


def strip_output_tags(outputs):
    """`_without_impl_stored` of generate_loopy, re-implemented"""
    from pytato.array import DictOfNamedArrays, InputArgumentBase
    from pytato.tags import ImplStored, _BaseNameTag

    def strip(out):
        if isinstance(out, InputArgumentBase) or not out.tags_of_type(ImplStored):
            return out
        return out.without_tags(frozenset({ImplStored(), *out.tags_of_type(_BaseNameTag)}))
    return DictOfNamedArrays({name: strip(o) for name, o in outputs._data.items()}, tags=outputs.tags)


def preprocessed(expr, target):
    """(outputs: DictOfNamedArrays after tag stripping, compute_order, bound arguments) — real `preprocess`"""
    from pytato.codegen import normalize_outputs, preprocess
    orig = normalize_outputs(expr)
    pre = preprocess(orig, target)
    return strip_output_tags(pre.outputs), tuple(pre.compute_order), pre.bound_arguments


def serialise(outputs, compute_order, real_wire: str | None) -> tuple[str, dict]:
    from pytato.array import DataWrapper, IndexLambda, Placeholder, SizeParam
    from pytato.scalar_expr import is_quasi_affine
    from pytato.tags import ImplementationStrategy, ImplInlined, ImplStored, Named, PrefixNamed
    from pytato.target.loopy import ImplSubstitution
    from pytato.target.loopy.codegen import PYTATO_REDUCTION_TO_LOOPY_REDUCTION, ReductionCollector
    index: dict = {}           # node (pytato equality, as `state.results`) -> number
    out: list[str] = []
    kinds: dict[str, int] = {}
    input_names: set[str] = set()

    def visit(n) -> int:
        if n in index:
            return index[n]
        kinds[type(n).__name__] = kinds.get(type(n).__name__, 0) + 1
        text = None
        if isinstance(n, (Placeholder, DataWrapper, SizeParam)) and getattr(n, "name", None) is not None:
            input_names.add(n.name)
        if isinstance(n, Placeholder):
            text = f"(in {ser.name(n.name)} {_shape(n.shape)})" if _static(n.shape) else "(other symbolic-shape)"
        elif isinstance(n, IndexLambda):
            kids = {b: visit(n.bindings[b]) for b in sorted(n.bindings)}
            if not _static(n.shape):
                text = "(other symbolic-shape)"
            else:
                try:
                    text = _il(n, kids)
                except ser.SerError as e:
                    text = f"(other unserialisable-expression:{type(e).__name__})"
        else:
            text = f"(other {type(n).__name__})"
        index[n] = len(out)
        out.append(text)
        return index[n]

    def _il(n, kids) -> str:
        ser.KEEP_REDUCE_ORDER = True      # the variables of one Reduce node nest in the order of its bounds
        try:
            expr = ser.sexpr(n.expr)
        finally:
            ser.KEEP_REDUCE_ORDER = False
        if _nested_reduce(n.expr):
            return "(other nested-Reduce)"
        reductions = ReductionCollector()(n.expr)
        var_to_redn = {v: r for r in reductions for v in r.bounds}
        rvs = []
        for v, r in var_to_redn.items():
            op = PYTATO_REDUCTION_TO_LOOPY_REDUCTION.get(type(r.op))
            if op is None:
                return f"(refused NotImplementedError({type(r.op).__name__}))"
            lo, hi = r.bounds[v]
            # (the oracle is asked about the bound as it stands in the index lambda; the generator asks about
            # the generated bound, which differs only by the inlining of bindings)
            rvs.append(f"({ser.name(v)} {op} {'#t' if is_quasi_affine(lo) else '#f'} {'#t' if is_quasi_affine(hi) else '#f'})")
        for v in n.var_to_reduction_descr:
            if v not in var_to_redn:
                return "(other reduction-descriptor-without-reduction)"
        if n.tags_of_type(ImplStored):
            impl = "stored"
        elif n.tags_of_type(ImplInlined):
            impl = "inlined"
        elif n.tags_of_type(ImplSubstitution):
            impl = "subst"
        elif n.tags_of_type(ImplementationStrategy):
            impl = f"(unknown {type(next(iter(n.tags_of_type(ImplementationStrategy)))).__name__})"
        else:
            impl = "default"
        if n.tags_of_type(Named):
            (t,) = n.tags_of_type(Named)
            tag = f"(named {ser.name(t.name)})"
        elif n.tags_of_type(PrefixNamed):
            (t,) = n.tags_of_type(PrefixNamed)
            tag = f"(prefixed {ser.name(t.prefix)})"
        else:
            tag = "#none"
        binds = " ".join(f"({ser.name(b)} {k})" for b, k in kids.items())
        uo = " ".join(ser.name(v) for v in n.var_to_reduction_descr)
        return f"(il {_shape(n.shape)} {expr} ({binds}) {impl} {tag} ({uo}) ({' '.join(rvs)}))"

    import sys
    old = sys.getrecursionlimit()
    sys.setrecursionlimit(max(old, 20000))
    try:
        outs = [(name, visit(outputs[name].expr)) for name in compute_order]
    finally:
        sys.setrecursionlimit(old)
    names = sorted(input_names)
    q = (f"(loopygen ({' '.join(out)}) ({' '.join(f'({ser.name(n)} {i})' for n, i in outs)}) "
         f"({' '.join(ser.name(x) for x in names)}) {real_wire if real_wire is not None else '#none'})")
    return q, {"nodes": len(out), "kinds": kinds}


LAST_FRAGMENT: str | None = None     # of the last answer parsed: 'yes' | 'no reason,reason' | None
LAST_FRAGMENT_R: str | None = None   # the same for the fragment with reductions (loopygen_sound_red_partial)


def parse_answer(ans: str):
    """-> ('same', n, check) | ('differ', k, model stmt, real stmt, check) | ('kernel', wire, check)
          | ('refuse', why) | ('unmodelled', why) | ('error', text)"""
    if not ans.startswith("ok "):
        return ("error", ans)
    a = ans[3:]
    chk = None
    global LAST_FRAGMENT, LAST_FRAGMENT_R
    LAST_FRAGMENT = LAST_FRAGMENT_R = None
    if "\t#fragmentR " in a:
        a, f = a.rsplit("\t#fragmentR ", 1)
        LAST_FRAGMENT_R = f.strip()
    if "\t#fragment " in a:
        a, f = a.rsplit("\t#fragment ", 1)
        LAST_FRAGMENT = f.strip()
    if "\t#check " in a:
        a, c = a.rsplit("\t#check ", 1)
        chk = c.strip() == "yes"
    if a.startswith("same "):
        return ("same", int(a[5:]), chk)
    if a.startswith("differ "):
        rest = a[7:]
        k, rest = rest.split(" ", 1)
        m, r = rest.split(" ||| ", 1)
        return ("differ", int(k), m, r, chk)
    if a.startswith("kernel "):
        return ("kernel", a[7:], chk)
    if a.startswith("refuse "):
        return ("refuse", a[7:])
    if a.startswith("unmodelled "):
        return ("unmodelled", a[11:])
    return ("error", a)

"""Reflective serialisation of pytato graphs into the term model of
lean/PtModel/CallsMulti.lean (property C12):

    (ph name)                                    a Placeholder (by name only)
    (op FP child…)                               any other array node; FP = fingerprint of its
                                                 class and all non-child, non-traceback data
    (res key #t|#f (params…) ((k T)…) ((n T)…))  NamedCallResult(Call(FunctionDefinition))
                                                 #t = the call carries InlineCallTag

Never calls a pytato mapper: nodes are walked through `harness.eqterm.node_parts`
(dataclass fields).  The term is the TREE unfolding (sharing is compared
separately, by object counts)."""
from __future__ import annotations

import hashlib
from typing import Any

from . import eqterm


class Ser:
    def __init__(self):
        self.ids: dict[int, int] = {}
        self.keep: list[Any] = []
        self.memo: dict[int, str] = {}

    def _objnum(self, o) -> int:
        k = self.ids.get(id(o))
        if k is None:
            k = len(self.ids)
            self.ids[id(o)] = k
            self.keep.append(o)
        return k

    def term(self, node) -> str:
        m = self.memo.get(id(node))
        if m is not None:
            return m
        r = self._term(node)
        self.memo[id(node)] = r
        self.keep.append(node)
        return r

    def binds(self, mapping, sort=True) -> str:
        items = sorted(mapping.items()) if sort else list(mapping.items())
        return "(" + " ".join(f"({_atom(k)} {self.term(v)})" for k, v in items) + ")"

    def _term(self, node) -> str:
        from pytato.array import Placeholder
        from pytato.function import Call, NamedCallResult
        from pytato.tags import InlineCallTag
        if isinstance(node, Placeholder):
            return f"(ph {_atom(node.name)})"
        if isinstance(node, NamedCallResult):
            call = node._container
            assert isinstance(call, Call)
            fn = call.function
            tg = "#t" if call.tags_of_type(InlineCallTag) else "#f"
            params = " ".join(_atom(p) for p in sorted(fn.parameters))
            return (f"(res {_atom(node.name)} {tg} ({params}) {self.binds(fn.returns, sort=False)} "
                    f"{self.binds(call.bindings)})")
        parts = eqterm.node_parts(node)
        h = hashlib.sha1(type(node).__name__.encode())
        kids = []
        for nm, s, ks in parts:
            if nm == "non_equality_tags" or nm.endswith(".non_equality_tags"):
                continue
            if nm == "#id":
                s = f"obj{self._objnum(node)}"
            h.update(b"|" + nm.encode() + b"=" + (s or "").encode())
            kids.extend(ks)
        fp = f"{type(node).__name__}_{h.hexdigest()[:12]}"
        return "(op " + " ".join([fp] + [self.term(c) for c in kids]) + ")"


def _atom(s: str) -> str:
    if not s or any(c in s for c in ' ()"\t\n'):
        raise eqterm.SerError(f"name not an atom: {s!r}")
    return s


def norm(s: str) -> str:
    return " ".join(s.split())

"""Independent reference evaluator for pytato DAGs: dispatch on node class and
call the NumPy function of the same meaning (np.roll, np.reshape(order=),
np.einsum, fancy indexing, …); IndexLambda nodes are evaluated pointwise by
`ilinterp`.  Never uses pytato's mappers or lowering."""
from __future__ import annotations

from typing import Any

import numpy as np

from .ilinterp import eval_index_lambda


class RefEvalError(Exception):
    pass


class RefEval:
    def __init__(self, inputs: dict[str, Any] | None = None, sizes: dict[str, int] | None = None,
                 recvs: dict[Any, Any] | None = None):
        self.inputs = dict(inputs or {})
        self.sizes = dict(sizes or {})
        self.recvs = recvs or {}
        self.cache: dict[int, Any] = {}
        self.keep: list[Any] = []
        self.oob: list[tuple] = []

    # -- shapes ---------------------------------------------------------
    def dim(self, d) -> int:
        from pytato.array import Array
        if isinstance(d, Array):
            v = self(d)
            return int(np.asarray(v).reshape(()))
        return int(d)

    def shape(self, s) -> tuple[int, ...]:
        return tuple(self.dim(d) for d in s)

    # -- nodes ----------------------------------------------------------
    def __call__(self, n):
        key = id(n)
        if key in self.cache:
            return self.cache[key]
        r = self._eval(n)
        self.cache[key] = r
        self.keep.append(n)
        return r

    def _eval(self, n):
        from pytato.array import (
            AdvancedIndexInContiguousAxes, AdvancedIndexInNoncontiguousAxes, AxisPermutation,
            BasicIndex, Concatenate, CSRMatmul, DataWrapper, DictOfNamedArrays, Einsum,
            IndexLambda, NamedArray, NormalizedSlice, Placeholder, Reshape, Roll, SizeParam, Stack)
        from pytato.distributed.nodes import DistributedRecv, DistributedSendRefHolder
        from pytato.function import Call, NamedCallResult
        if isinstance(n, SizeParam):
            if n.name not in self.sizes:
                raise RefEvalError(f"no value for size parameter {n.name}")
            return np.int64(self.sizes[n.name])
        if isinstance(n, Placeholder):
            if n.name in self.sizes and n.shape == ():
                return np.asarray(self.sizes[n.name])
            if n.name not in self.inputs:
                raise RefEvalError(f"no value for placeholder {n.name}")
            a = np.asarray(self.inputs[n.name])
            exp = self.shape(n.shape)
            if a.shape != exp:
                raise RefEvalError(f"input {n.name} has shape {a.shape}, declared {exp}")
            return a.astype(n.dtype, copy=False)
        if isinstance(n, DataWrapper):
            return np.asarray(n.data)
        if isinstance(n, IndexLambda):
            binds = {k: np.asarray(self(v)) for k, v in n.bindings.items()}
            out, it = eval_index_lambda(n, binds, shape=self.shape(n.shape))
            self.oob.extend(it.oob)
            return out
        if isinstance(n, Roll):
            return np.roll(self(n.array), n.shift, n.axis)
        if isinstance(n, AxisPermutation):
            return np.transpose(self(n.array), n.axis_permutation)
        if isinstance(n, Reshape):
            return np.reshape(self(n.array), self.shape(n.newshape), order=n.order)
        if isinstance(n, (BasicIndex, AdvancedIndexInContiguousAxes, AdvancedIndexInNoncontiguousAxes)):
            a = self(n.array)
            idx = []
            for ix in n.indices:
                if isinstance(ix, NormalizedSlice):
                    start, stop, step = self.dim(ix.start), self.dim(ix.stop), int(ix.step)
                    # a normalised stop of -1 with negative step means "through index 0"
                    if step < 0 and stop == -1:
                        stop = None
                    if step < 0 and start == -1:
                        idx.append(slice(0, 0, 1))   # empty
                        continue
                    idx.append(slice(start, stop, step))
                elif isinstance(ix, (int, np.integer)):
                    idx.append(int(ix))
                else:
                    idx.append(np.asarray(self(ix)))
            if isinstance(n, AdvancedIndexInNoncontiguousAxes):
                adv = [k for k, ix in enumerate(n.indices) if not isinstance(ix, NormalizedSlice)]
                if adv and adv[-1] - adv[0] + 1 == len(adv):
                    # the node kind says "separated": they were, by an Ellipsis that stood for no axis
                    idx.insert(adv[0] + 1, Ellipsis)
            return a[tuple(idx)]
        if isinstance(n, Stack):
            return np.stack([self(a) for a in n.arrays], axis=n.axis)
        if isinstance(n, Concatenate):
            return np.concatenate([self(a) for a in n.arrays], axis=n.axis)
        if isinstance(n, Einsum):
            from pytato.utils import get_einsum_subscript_str
            sub = get_einsum_specification(n)
            args = [np.asarray(self(a)) for a in n.args]
            # pytato admits a length-1 axis wherever the index has a longer extent elsewhere — also inside a repeated
            # index of ONE operand ("ii" on shape (1, 3)), which numpy.einsum rejects: broadcast explicitly first
            ins = sub.split("->")[0].split(",")
            ext: dict[str, int] = {}
            for sp, a in zip(ins, args):
                for ch, d in zip(sp, a.shape):
                    ext[ch] = max(ext.get(ch, 0), d) if d != 1 else max(ext.get(ch, 1), ext.get(ch, 1))
            for sp, a in zip(ins, args):
                for ch, d in zip(sp, a.shape):
                    if d != 1:
                        ext[ch] = d
            args = [np.broadcast_to(a, tuple(ext[ch] for ch in sp)) if a.shape != tuple(ext[ch] for ch in sp) else a
                    for sp, a in zip(ins, args)]
            return np.asarray(np.einsum(sub, *args)).astype(n.dtype, copy=False)
        if isinstance(n, CSRMatmul):
            m = n.matrix
            vals, cols, rows = (np.asarray(self(m.elem_values)), np.asarray(self(m.elem_col_indices)),
                                np.asarray(self(m.row_starts)))
            b = np.asarray(self(n.array))
            nrows, ncols = self.shape(m.shape)
            dense = np.zeros((nrows, ncols), dtype=np.result_type(vals.dtype, b.dtype))
            for i in range(nrows):
                for k in range(int(rows[i]), int(rows[i + 1])):
                    dense[i, int(cols[k])] += vals[k]
            return np.tensordot(dense, b, axes=(1, 0)).astype(n.dtype, copy=False)
        if isinstance(n, NamedCallResult):
            return self._call(n._container)[n.name]
        if isinstance(n, NamedArray):
            c = n._container
            if isinstance(c, DictOfNamedArrays):
                return self(c._data[n.name])
            raise RefEvalError(f"unsupported container {type(c).__name__}")
        if isinstance(n, DistributedSendRefHolder):
            return self(n.passthrough_data)
        if isinstance(n, DistributedRecv):
            k = (n.src_rank, n.comm_tag)
            if k not in self.recvs:
                raise RefEvalError(f"no value for receive {k}")
            return np.asarray(self.recvs[k])
        raise RefEvalError(f"unsupported node {type(n).__name__}")

    def _call(self, call):
        key = ("call", id(call))
        if key in self.cache:
            return self.cache[key]
        fn = call.function
        args = {k: np.asarray(self(v)) for k, v in call.bindings.items()}
        sub = RefEval(args, self.sizes, self.recvs)
        res = {k: sub(v) for k, v in fn.returns.items()}
        self.oob.extend(sub.oob)
        self.cache[key] = res
        self.keep.append(call)
        return res


def get_einsum_specification(n) -> str:
    """einsum subscript string from the access descriptors (own implementation)"""
    from pytato.array import EinsumElementwiseAxis, EinsumReductionAxis
    letters = "abcdefghijklmnopqrstuvwxyz"
    name: dict[Any, str] = {}

    def nm(ax):
        if ax not in name:
            name[ax] = letters[len(name)]
        return name[ax]
    ins = ["".join(nm(ax) for ax in ad) for ad in n.access_descriptors]
    out = "".join(nm(EinsumElementwiseAxis(i)) for i in range(n.ndim))
    return ",".join(ins) + "->" + out


def evaluate(expr, inputs=None, sizes=None, recvs=None):
    """evaluate an Array or a DictOfNamedArrays; returns ndarray or dict"""
    from pytato.array import DictOfNamedArrays
    ev = RefEval(inputs, sizes, recvs)
    if isinstance(expr, DictOfNamedArrays):
        return {k: np.asarray(ev(expr._data[k])) for k in expr._data}
    return np.asarray(ev(expr))


def close(a, b, exact=None, single=False) -> bool:
    """exact for int/bool, scale-aware tolerance for float/complex; NaNs equal"""
    a, b = np.asarray(a), np.asarray(b)
    if a.shape != b.shape:
        return False
    if exact is None:
        exact = a.dtype.kind in "biu" and b.dtype.kind in "biu"
    if exact:
        return bool(np.array_equal(a, b))
    if a.size == 0:
        return True
    with np.errstate(all="ignore"):
        fa = a.astype(np.complex128) if (a.dtype.kind == "c" or b.dtype.kind == "c") else a.astype(np.float64)
        fb = b.astype(fa.dtype)
        single = single or any(d in (np.dtype("float32"), np.dtype("complex64")) for d in (a.dtype, b.dtype))
        rtol = 2e-4 if single else 1e-9
        scale = max(1.0, float(np.nanmax(np.abs(np.where(np.isfinite(fb), fb, 0)))) if fb.size else 1.0)
        return bool(np.allclose(fa, fb, rtol=rtol, atol=rtol * scale, equal_nan=True))

"""The NumPy-like Python target instantiated with real NumPy (the interface
jax.numpy mirrors; JAX is not installed here)."""
from __future__ import annotations


def numpy_target():
    from pytato.target.python import BoundPythonProgram, NumpyLikePythonTarget

    class NumpyTarget(NumpyLikePythonTarget):
        @property
        def numpy_like_module_name(self):
            return "numpy"

        @property
        def numpy_like_module_name_shorthand(self):
            return "_pt_np"

        def bind_program(self, program, entrypoint, expected_arguments, bound_arguments):
            return BoundPythonProgram(target=self, program=program, entrypoint=entrypoint,
                                      expected_arguments=expected_arguments,
                                      bound_arguments=dict(bound_arguments))
    return NumpyTarget()


def generate(expr):
    from pytato.target.python.numpy_like import generate_numpy_like
    return generate_numpy_like(expr, numpy_target(), "_pt_kernel", False, (), ())

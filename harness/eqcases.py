"""Shared correspondence machinery of C04 and C18: pair cases over random DAGs
(rebuilt copies, one-field mutants at a random node, pickled copies), the real
observations (`==`, `!=`, hash, set/dict membership, persistent key), the Lean
answers from ptdriver on the reflectively serialised pair, and the
fresh-interpreter round trips (other PYTHONHASHSEED)."""
from __future__ import annotations

import json
import os
import pickle
import random
import subprocess
import sys
from dataclasses import dataclass, field
from typing import Any

from . import common, eqterm
from .gen import eqdags

TBL_ORDER = ["eq", "sem", "hash", "key", "semkey"]


def model_tables(t) -> list[dict[str, list[str]]]:
    """the five tables sent with every query (order = TBL_ORDER): the extracted
    comparer / hash / key tables (the model mirrors today's code) and the two
    semantic tables (the specification)"""
    return [t.eq_all, t.semantic, t.hash_some, t.key_all, t.semantic_key]


@dataclass
class Case:
    batch: str
    gi: int
    a: Any
    b: Any
    row: tuple[str, str] | None = None       # (kind, field) of the mutated node, if any
    recipe: dict = field(default_factory=dict)
    real: dict = field(default_factory=dict)
    model: dict = field(default_factory=dict)  # table name -> bits
    wf: bool = True
    nodes: int = 0
    tree: int = 0

    def replay(self) -> dict:
        return {"case": self.recipe, "batch": self.batch, "row": self.row,
                "observed_real": self.real,
                "lean_model": {k: v for k, v in self.model.items()}}


def _safe(fn):
    try:
        return fn()
    except Exception as e:
        return f"EXC:{type(e).__name__}"


def observe(a, b, keyb=None) -> dict:
    r = {
        "eq": _safe(lambda: bool(a == b)),
        "eq_rev": _safe(lambda: bool(b == a)),
        "ne": _safe(lambda: bool(a != b)),
        "hash_eq": _safe(lambda: hash(a) == hash(b)),
        "in_set": _safe(lambda: b in {a}),
        "in_dict": _safe(lambda: {a: 1}.get(b) == 1),
    }
    if keyb is not None:
        r["key_eq"] = _safe(lambda: keyb(a) == keyb(b))
    return r


def pick_mutation(e, mseed: int):
    """deterministic in (e, mseed): (node index in all_nodes order, candidate index,
    (kind, row), node, mutated node) or None"""
    rng = random.Random(mseed)
    nodes = eqterm.all_nodes(e)
    for _ in range(12):
        ni = rng.randrange(len(nodes))
        node = nodes[ni]
        cands = eqdags.mutations(node, random.Random(rng.getrandbits(32)))
        if not cands:
            continue
        ci = rng.randrange(len(cands))
        row, thunk = cands[ci]
        try:
            m = thunk()
        except Exception:
            continue
        return ni, ci, (eqterm.kind_of(node), row), node, m
    return None


def make_mutant(e, mseed: int):
    """(row, mutant graph, info) or None"""
    sel = pick_mutation(e, mseed)
    if sel is None:
        return None
    ni, ci, row, node, m = sel
    fresh = random.Random(mseed + 1).random() < 0.5
    try:
        mut = m if node is e else eqterm.rebuild(e, subst={id(node): m}, fresh=fresh)
    except (AssertionError, ValueError, TypeError):
        return None      # the mutated node is rejected by an enclosing constructor
    return row, mut, {"node": ni, "candidate": ci, "fresh": fresh}


def graph_cases(seed: int, gi: int, rng: random.Random, n_mut: int, with_loopy=True,
                keep_pickle: dict | None = None):
    """the pair cases of graph number gi"""
    e = eqdags.build(seed, gi, with_loopy=with_loopy)
    base = {"graph": {"seed": seed, "index": gi, "with_loopy": with_loopy}}
    yield Case("reflexive", gi, e, e, recipe={**base, "kind": "reflexive"})
    yield Case("rebuilt", gi, e, eqterm.rebuild(e, fresh=True, share_data=True),
               recipe={**base, "kind": "rebuilt"})
    yield Case("rebuilt-api", gi, e, eqdags.build(seed, gi, with_loopy=with_loopy),
               recipe={**base, "kind": "rebuilt-api"})
    hash(e)     # fill the hash caches before pickling
    raw = pickle.dumps(e)
    if keep_pickle is not None:
        keep_pickle[gi] = raw
    yield Case("pickled", gi, e, pickle.loads(raw), recipe={**base, "kind": "pickled"})
    for mi in range(n_mut):
        mseed = rng.getrandbits(48)
        mm = make_mutant(e, mseed)
        if mm is None:
            continue
        row, mut, info = mm
        rec = {**base, "kind": "mutant", "mseed": mseed, "row": list(row), **info}
        yield Case("mutant", gi, e, mut, row=row, recipe=rec)
        if mi == 0:
            # a second, independently built copy of the same mutant (for transitivity triples)
            yield Case("mutant-twin", gi, mut, eqterm.rebuild(mut, fresh=True), row=None,
                       recipe={**rec, "kind": "mutant-twin"})


def rebuild_case(recipe: dict):
    """(a, b) of a stored case recipe, on the current tree"""
    g = recipe["graph"]
    e = eqdags.build(g["seed"], g["index"], with_loopy=g.get("with_loopy", True))
    k = recipe["kind"]
    if k == "reflexive":
        return e, e
    if k == "rebuilt":
        return e, eqterm.rebuild(e, fresh=True, share_data=True)
    if k == "rebuilt-api":
        return e, eqdags.build(g["seed"], g["index"], with_loopy=g.get("with_loopy", True))
    if k == "pickled":
        hash(e)
        return e, pickle.loads(pickle.dumps(e))
    mm = make_mutant(e, recipe["mseed"])
    if mm is None:
        raise RuntimeError("mutation no longer applicable")
    if k == "mutant":
        return e, mm[1]
    if k == "mutant-twin":
        return mm[1], eqterm.rebuild(mm[1], fresh=True)
    raise KeyError(k)


def run_lean(ctx, cases: list[Case], tables) -> int:
    """fill c.model / c.wf from ptdriver; returns the number of unanswerable cases"""
    tbls = model_tables(tables)
    qs = []
    for c in cases:
        q, hs, i, j = eqterm.cmp_query(tbls, c.a, c.b)
        c.nodes, c.tree = len(hs.nodes), hs.sizes[i]
        if hs.reflect_mismatch:
            ctx.broken.append(f"serialiser:children-differ-from-reflect:{sorted(set(hs.reflect_mismatch))}")
        qs.append(q)
    ans = common.driver_query_parallel(qs)
    bad = 0
    for c, a in zip(cases, ans):
        p = eqterm.parse_cmp_answer(a, len(tbls))
        if p is None:
            bad += 1
            ctx.broken.append(f"driver:unparsable-answer:{a[:80]}")
            c.model = {}
            continue
        c.wf, cols = p
        c.model = dict(zip(TBL_ORDER, cols))
        if not c.wf:
            ctx.broken.append("serialiser:heap-not-well-formed")
        for nm, col in c.model.items():
            if len({col["struct"], col["semeq"], col["enc"], col["memo"]}) != 1:
                # eqStruct, SemEq, enc-equality and eqMemo provably coincide
                ctx.broken.append(f"driver:bits-disagree:{nm}:{col}")
    return bad


def culprit(a, b, pred) -> str:
    """kind of the first (post-order) aligned node pair for which pred(x, y) holds;
    the root kind when the graphs do not align"""
    na, nb = eqterm.all_nodes(a), eqterm.all_nodes(b)
    if len(na) == len(nb):
        for x, y in zip(na, nb):
            if type(x) is type(y):
                try:
                    if pred(x, y):
                        return eqterm.kind_of(x)
                except Exception:
                    return eqterm.kind_of(x)
    return eqterm.kind_of(a)


# --------------------------------------------------------------------------
# fresh interpreters
# --------------------------------------------------------------------------

def run_children(ctx, seed: int, n: int, pickles: dict[int, bytes], hash_seeds: list[int],
                 with_loopy=True, tag="x", families=(), pickle_families=()) -> list[dict]:
    """run harness.eqchild in one interpreter per hash seed (in parallel); each
    rebuilds graphs 0..n-1 from the recipe, unpickles the parent's pickles and
    reports; returns [{hash_seed, results: [...], pickles: {i: bytes}}]"""
    sc = ctx.scratch
    pin = sc / f"eq_{tag}_parent.pkl"
    with open(pin, "wb") as f:
        pickle.dump({i: pickles[i] for i in range(n)}, f)
    procs = []
    for hsd in hash_seeds:
        job = {"seed": seed, "n": n, "with_loopy": with_loopy, "pickles_in": str(pin),
               "pickles_out": str(sc / f"eq_{tag}_child{hsd}.pkl"),
               "result": str(sc / f"eq_{tag}_child{hsd}.json"),
               "families": list(families), "pickle_families": list(pickle_families), "tier": ctx.tier}
        jf = sc / f"eq_{tag}_job{hsd}.json"
        jf.write_text(json.dumps(job))
        env = dict(os.environ)
        env["PYTHONHASHSEED"] = str(hsd)
        env["PYTATO_REPO"] = str(common.REPO)
        env["PYTHONDONTWRITEBYTECODE"] = "1"
        p = subprocess.Popen([sys.executable, "-m", "harness.eqchild", str(jf)],
                             cwd=str(common.VERIF), env=env, stdout=subprocess.PIPE,
                             stderr=subprocess.PIPE, text=True)
        procs.append((hsd, job, p))
    out = []
    for hsd, job, p in procs:
        try:
            so, se = p.communicate(timeout=1500)
        except subprocess.TimeoutExpired:
            p.kill()
            raise common.LeanError(f"child interpreter (hash seed {hsd}) timed out")
        if p.returncode != 0:
            raise RuntimeError(f"child interpreter (hash seed {hsd}) failed:\n{se[-3000:]}")
        res = json.loads(open(job["result"]).read())
        with open(job["pickles_out"], "rb") as f:
            pk = pickle.load(f)
        ent = {"hash_seed": hsd, "results": res, "pickles": pk, "families": {}, "family_pickles": {}}
        if families:
            ent["families"] = json.loads(open(job["result"] + ".families").read())
            with open(job["pickles_out"] + ".families", "rb") as f:
                ent["family_pickles"] = pickle.load(f)
        out.append(ent)
    return out


def family_rows(name: str, tier: str, keyb=None):
    """this process' view of a family: {label: {key, struct, g1, g2}}"""
    import hashlib

    from .gen import eqfamilies
    rows = {}
    for lbl, g1, g2 in eqfamilies.build(name, tier):
        hs = eqterm.HeapSer(check_reflect=False)
        hs.add(g1)
        rows[lbl] = {"g1": g1, "g2": g2, "struct": hashlib.sha1(hs.wire().encode()).hexdigest()[:16]}
        if keyb is not None:
            rows[lbl]["key"] = keyb(g1)
    return rows


def hash_cache_kinds(root) -> list[str]:
    """kinds of nodes that carry a cached hash right now"""
    return sorted({eqterm.kind_of(n) for n in eqterm.all_nodes(root)
                   if "_hash_value" in getattr(n, "__dict__", {})})


def unexplained_build_errors(ctx, lean_file: str, located: set[str]) -> list[str]:
    """error locations of the last failed `lake build` that are NOT table
    obligations of `lean_file` for which the Python evaluation found a failing
    row (`located` = names of those obligations)"""
    import re
    errs = (ctx.coverage.get("lean_build_errors") or [{}])[-1].get("where", [])
    try:
        lines = (common.LEAN_DIR / lean_file).read_text().split("\n")
    except OSError:
        return list(errs) or ["?"]
    out = []
    for w in errs:
        f, ln, _ = w.rsplit(":", 2)
        if not f.endswith(lean_file):
            out.append(w)
            continue
        name = None
        for k in range(int(ln) - 1, -1, -1):
            m = re.match(r"\s*theorem\s+(\S+)", lines[k]) if k < len(lines) else None
            if m:
                name = m.group(1)
                break
        if name not in located:
            out.append(f"{w} ({name})")
    return out if errs else ["no error location reported"]


def replay_xproc(ctx, r: dict) -> int:
    """re-run one fresh-interpreter case: graph `index` of family `seed` under the stored hash seed"""
    import json as _json
    from pytato.analysis import PytatoKeyBuilder
    g = r["case"]["graph"]
    hs = r["case"]["hash_seed"]
    n = g["index"] + 1
    keyb = PytatoKeyBuilder()
    pickles = {}
    here = {}
    for i in range(n):
        e = eqdags.build(g["seed"], i)
        if i == g["index"]:
            here = {"key": keyb(e), "hash_cached_kinds_before_pickling": None}
        hash(e)
        pickles[i] = pickle.dumps(e)
        if i == g["index"]:
            here["hash_cached_kinds_before_pickling"] = hash_cache_kinds(e)
            keep = e
    out = run_children(ctx, g["seed"], n, pickles, [hs], tag="replay")[0]
    res = out["results"][g["index"]]
    q = pickle.loads(out["pickles"][g["index"]])
    print("case            :", _json.dumps(r["case"]))
    print("stored (child)  :", _json.dumps(r.get("child_report") or r.get("keys_in_child")))
    print("observed (child):", _json.dumps({k: v for k, v in res.items() if not k.startswith("node_")}))
    print("observed (here) :", _json.dumps({**here, "child_pickle_vs_local": observe(keep, q, keyb)}))
    print("expected        : equal graphs, equal hashes, no `_hash_value` after unpickling, one key everywhere")
    return 0

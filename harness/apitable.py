"""The public array API, function by function, paired with the NumPy function of the same meaning.

Every other reference in this harness (refeval, ilinterp) evaluates the GRAPH pytato built — it follows pytato's own
decomposition of an API call into nodes / index lambdas and therefore cannot see an API function that builds the
wrong graph (pt.sinh lowering to cosh, minimum testing the wrong operand for NaN, amax reducing with min …).
This table closes that gap: `cases()` yields (label, build, numpy_fn, inputs) where `build(**placeholders)` calls the
pytato API and `numpy_fn(**arrays)` applies NumPy itself to the same concrete inputs.

Used by C01 (graph value and generated loopy code vs NumPy), C14 (generated Python vs NumPy) and C03 (shape/dtype)."""
from __future__ import annotations

import itertools
import operator

import numpy as np


def _arr(rng, shape, dt, special=False, positive=False, small=False):
    dt = np.dtype(dt)
    if dt.kind == "b":
        return rng.integers(0, 2, size=shape).astype(bool)
    if dt.kind in "iu":
        lo = 1 if positive else (-3 if dt.kind == "i" else 0)
        return rng.integers(lo, 5, size=shape).astype(dt)
    if dt.kind == "f":
        a = (rng.integers(1 if positive else -8, 9, size=shape) / (8.0 if small else 4.0)).astype(dt)
        if special and a.size:
            flat = a.reshape(-1)
            m = rng.random(flat.size)
            flat[m < 0.12] = np.nan
            flat[(m >= 0.12) & (m < 0.18)] = np.inf
            flat[(m >= 0.18) & (m < 0.24)] = -np.inf
            flat[(m >= 0.24) & (m < 0.3)] = -0.0
        return a
    if dt.kind == "c":
        return ((rng.integers(-4, 5, size=shape) / 2.0) + 1j * (rng.integers(-4, 5, size=shape) / 2.0)).astype(dt)
    raise ValueError(dt)


def cases(seed: int = 0, thorough: bool = False):
    """yield dicts: label, build(ph dict)->Array, ref(np dict)->ndarray, inputs {name: ndarray},
    flags: exact (ints), nan_ok (special values in the inputs), family"""
    import pytato as pt
    rng = np.random.default_rng(seed * 31 + 7)
    out = []

    def add(label, build, ref, inputs, family, **flags):
        out.append({"label": label, "build": build, "ref": ref, "inputs": inputs, "family": family, **flags})

    shapes2 = [((3, 4), (3, 4)), ((3, 4), (4,)), ((3, 1), (1, 4)), ((), (3,)), ((2, 3, 4), (3, 1))]
    fdts = ["float64", "float32"]
    # ---------------------------------------------------------------- elementwise unary math
    unary = {"sin": np.sin, "cos": np.cos, "tan": np.tan, "arcsin": np.arcsin, "arccos": np.arccos, "arctan": np.arctan,
             "sinh": np.sinh, "cosh": np.cosh, "tanh": np.tanh, "exp": np.exp, "log": np.log, "log10": np.log10,
             "sqrt": np.sqrt, "abs": np.abs, "isnan": np.isnan, "real": np.real, "imag": np.imag, "conj": np.conj}
    for nm, f in unary.items():
        for dt in ["float64", "float32", "complex128"] + (["int64"] if nm in ("abs", "real", "imag", "conj") else []):
            if dt == "complex128" and nm in ("arcsin", "arccos", "arctan", "log10", "tan", "sinh", "cosh", "tanh", "isnan"):
                pass
            for sh in [(7,), (2, 3)]:
                a = _arr(rng, sh, dt, special=(dt != "complex128"), small=nm in ("arcsin", "arccos"))
                add(f"{nm}:{dt}:{sh}", lambda x, nm=nm: getattr(pt, nm)(x), lambda x, f=f: f(x), {"x": a}, "unary")
    for nm, fp, fn in [("neg", operator.neg, np.negative), ("pos-abs-operator", abs, np.abs),
                       ("logical_not", lambda x: pt.logical_not(x), np.logical_not)]:
        for dt in ["float64", "int32", "bool"] if nm == "logical_not" else ["float64", "int32", "complex128"]:
            a = _arr(rng, (2, 3), dt, special=(dt == "float64"))
            add(f"{nm}:{dt}", lambda x, fp=fp: fp(x), lambda x, fn=fn: fn(x), {"x": a}, "unary")
    # ---------------------------------------------------------------- binary operators and functions
    binops = {"add": (operator.add, np.add), "sub": (operator.sub, np.subtract), "mul": (operator.mul, np.multiply),
              "truediv": (operator.truediv, np.true_divide), "pow": (operator.pow, np.power),
              "floordiv": (operator.floordiv, np.floor_divide), "mod": (operator.mod, np.mod)}
    for nm, (fp, fn) in binops.items():
        for (s1, s2), (d1, d2) in itertools.product(shapes2, [("float64", "float64"), ("int64", "float64"),
                                                              ("int32", "int64"), ("float32", "float64"),
                                                              ("int64", "int64")]):
            if nm in ("floordiv", "mod") and "float" in d1 + d2:
                continue
            a = _arr(rng, s1, d1)
            b = _arr(rng, s2, d2, positive=nm in ("truediv", "floordiv", "mod", "pow"))
            if nm == "pow":
                a = np.abs(a) + (1 if np.dtype(d1).kind in "iu" else 0.5)
            add(f"{nm}:{s1}x{s2}:{d1},{d2}", lambda x, y, fp=fp: fp(x, y), lambda x, y, fn=fn: fn(x, y),
                {"x": a, "y": b}, "binary", exact=(np.dtype(d1).kind in "iu" and np.dtype(d2).kind in "iu" and nm != "truediv"))
        for sc in [2, -3, 1.5, np.float64(0.5), np.int32(2)]:
            for order in (0, 1):
                a = _arr(rng, (2, 3), "float64", positive=True)
                if nm in ("floordiv", "mod"):
                    a = _arr(rng, (2, 3), "int64", positive=True)
                    if not isinstance(sc, (int, np.integer)):
                        continue
                add(f"{nm}:scalar{order}:{sc!r}",
                    (lambda x, fp=fp, sc=sc: fp(x, sc)) if order == 0 else (lambda x, fp=fp, sc=sc: fp(sc, x)),
                    (lambda x, fn=fn, sc=sc: fn(x, sc)) if order == 0 else (lambda x, fn=fn, sc=sc: fn(sc, x)),
                    {"x": a}, "binary")
    for nm, fn in [("equal", np.equal), ("not_equal", np.not_equal), ("less", np.less), ("less_equal", np.less_equal),
                   ("greater", np.greater), ("greater_equal", np.greater_equal), ("maximum", np.maximum),
                   ("minimum", np.minimum), ("arctan2", np.arctan2), ("logical_and", np.logical_and),
                   ("logical_or", np.logical_or)]:
        for (s1, s2) in shapes2[:4] if nm != "arctan2" else [((3, 4), (3, 4)), ((5,), (5,))]:
            for d1, d2, special in [("float64", "float64", True), ("int64", "float64", False), ("float32", "float64", True),
                                    ("int32", "int32", False)]:
                a, b = _arr(rng, s1, d1, special=special), _arr(rng, s2, d2, special=special)
                # small value range: many ties for the comparisons
                add(f"{nm}:{s1}x{s2}:{d1},{d2}", lambda x, y, nm=nm: getattr(pt, nm)(x, y), lambda x, y, fn=fn: fn(x, y),
                    {"x": a, "y": b}, "binary2", nan_ok=special)
        a = _arr(rng, (9,), "float64", special=True)
        for sc in [0.25, 0.0, float("nan"), -1]:
            if nm == "arctan2":
                continue
            add(f"{nm}:x,{sc}", lambda x, nm=nm, sc=sc: getattr(pt, nm)(x, sc), lambda x, fn=fn, sc=sc: fn(x, sc),
                {"x": a}, "binary2", nan_ok=True)
            add(f"{nm}:{sc},x", lambda x, nm=nm, sc=sc: getattr(pt, nm)(sc, x), lambda x, fn=fn, sc=sc: fn(sc, x),
                {"x": a}, "binary2", nan_ok=True)
    for nm, fp, fn in [("and", operator.and_, np.bitwise_and), ("or", operator.or_, np.bitwise_or),
                       ("xor", operator.xor, np.bitwise_xor)]:
        for d in ("int64", "bool", "uint8"):
            add(f"bit{nm}:{d}", lambda x, y, fp=fp: fp(x, y), lambda x, y, fn=fn: fn(x, y),
                {"x": _arr(rng, (2, 3), d), "y": _arr(rng, (3,), d)}, "binary", exact=True)
    # ---------------------------------------------------------------- where
    for (s1, s2) in shapes2[:4]:
        c = _arr(rng, np.broadcast_shapes(s1, s2), "bool")
        a, b = _arr(rng, s1, "float64", special=True), _arr(rng, s2, "float64", special=True)
        add(f"where:{s1}x{s2}", lambda c, x, y: pt.where(c, x, y), lambda c, x, y: np.where(c, x, y),
            {"c": c, "x": a, "y": b}, "where", nan_ok=True)
        add(f"where-float-cond:{s1}", lambda x, y: pt.where(x, y, 2.0), lambda x, y: np.where(x, y, 2.0),
            {"x": a, "y": _arr(rng, s1, "float64")}, "where", nan_ok=True)
        add(f"where-scalars:{s1}", lambda c: pt.where(c, 1.5, -2), lambda c: np.where(c, 1.5, -2), {"c": c}, "where")
    # ---------------------------------------------------------------- reductions
    reds = {"sum": np.sum, "prod": np.prod, "amax": np.amax, "amin": np.amin}
    for nm, fn in reds.items():
        for sh in [(2, 3, 4), (3, 4), (5,), (1, 3)]:
            for dt in ("float64", "int64"):
                a = _arr(rng, sh, dt, small=True)
                for r in range(1, len(sh) + 1):
                    for axes in itertools.combinations(range(len(sh)), r):
                        add(f"{nm}:{sh}:{dt}:axis={axes}", lambda x, nm=nm, axes=axes: getattr(pt, nm)(x, axis=axes),
                            lambda x, fn=fn, axes=axes: fn(x, axis=axes), {"x": a}, "reduce", exact=(dt == "int64"))
                add(f"{nm}:{sh}:{dt}:axis=None", lambda x, nm=nm: getattr(pt, nm)(x), lambda x, fn=fn: fn(x), {"x": a},
                    "reduce", exact=(dt == "int64"))
                add(f"{nm}:{sh}:{dt}:axis=-1", lambda x, nm=nm: getattr(pt, nm)(x, axis=-1), lambda x, fn=fn: fn(x, axis=-1),
                    {"x": a}, "reduce", exact=(dt == "int64"))
    for nm, fn in [("all", np.all), ("any", np.any)]:
        for sh in [(3, 4), (5,)]:
            a = _arr(rng, sh, "bool")
            for ax in [None, 0, -1]:
                add(f"{nm}:{sh}:axis={ax}", lambda x, nm=nm, ax=ax: getattr(pt, nm)(x, axis=ax),
                    lambda x, fn=fn, ax=ax: fn(x, axis=ax), {"x": a}, "reduce", exact=True)
    # ---------------------------------------------------------------- contractions
    for s1, s2 in [((2, 3), (3, 4)), ((3,), (3,)), ((2, 3), (3,)), ((3,), (3, 2)), ((2, 2, 3), (3, 2)), ((2, 2, 3), (2, 3, 2))]:
        a, b = _arr(rng, s1, "float64"), _arr(rng, s2, "float64")
        add(f"matmul-operator:{s1}@{s2}", lambda x, y: x @ y, lambda x, y: x @ y, {"x": a, "y": b}, "contract")
        add(f"matmul:{s1}@{s2}", lambda x, y: pt.matmul(x, y), lambda x, y: np.matmul(x, y), {"x": a, "y": b}, "contract")
    for s1, s2 in [((3,), (3,)), ((2, 3), (3, 4)), ((2, 3), (3,)), ((), (3,)), ((3,), ())]:
        a, b = _arr(rng, s1, "float64"), _arr(rng, s2, "float64")
        add(f"dot:{s1}.{s2}", lambda x, y: pt.dot(x, y), lambda x, y: np.dot(x, y), {"x": a, "y": b}, "contract")
    for dt in ("float64", "complex128"):
        a, b = _arr(rng, (4,), dt), _arr(rng, (4,), dt)
        add(f"vdot:{dt}", lambda x, y: pt.vdot(x, y), lambda x, y: np.vdot(x, y), {"x": a, "y": b}, "contract")
        a2, b2 = _arr(rng, (2, 3), dt), _arr(rng, (2, 3), dt)
        add(f"vdot-2d:{dt}", lambda x, y: pt.vdot(x, y), lambda x, y: np.vdot(x, y), {"x": a2, "y": b2}, "contract")
    for spec, shs in [("ij,jk->ik", [(2, 3), (3, 4)]), ("ij->ji", [(2, 3)]), ("ii->i", [(3, 3)]), ("ii->", [(3, 3)]),
                      ("i,j->ij", [(2,), (3,)]), ("ijk,k->ij", [(2, 3, 4), (4,)]), ("ij,ij->", [(2, 3), (2, 3)]),
                      ("ij,j,i->", [(2, 3), (3,), (2,)]), ("ij->j", [(2, 3)]), ("ij,jk,kl->il", [(2, 3), (3, 2), (2, 4)])]:
        arrs = {f"e{i}": _arr(rng, sh, "float64") for i, sh in enumerate(shs)}
        add(f"einsum:{spec}", lambda spec=spec, **kw: pt.einsum(spec, *[kw[k] for k in sorted(kw)]),
            lambda spec=spec, **kw: np.einsum(spec, *[kw[k] for k in sorted(kw)]), arrs, "contract")
    # ---------------------------------------------------------------- index remapping / construction
    a3 = _arr(rng, (2, 3, 4), "float64")
    for sh, ax in [((2, 3, 4), 0), ((2, 3, 4), 2), ((5,), 0)]:
        a = _arr(rng, sh, "float64")
        for shift in (-7, -1, 0, 1, 2, 9):
            add(f"roll:{sh}:{shift}:{ax}", lambda x, shift=shift, ax=ax: pt.roll(x, shift, ax),
                lambda x, shift=shift, ax=ax: np.roll(x, shift, ax), {"x": a}, "remap", exact=True)
    for perm in itertools.permutations(range(3)):
        add(f"transpose:{perm}", lambda x, perm=perm: pt.transpose(x, perm), lambda x, perm=perm: np.transpose(x, perm),
            {"x": a3}, "remap", exact=True)
    add("transpose:default", lambda x: pt.transpose(x), lambda x: np.transpose(x), {"x": a3}, "remap", exact=True)
    # every permutation of the other ranks too (a target may special-case SOME permutations, e.g. print the full
    # reversal as `.T`: a shortcut taken for a permutation that only looks like one shows from rank 4 on)
    for sh in [(), (3,), (2, 3), (2, 3, 4, 5)]:
        a = _arr(rng, sh, "float64")
        for perm in itertools.permutations(range(len(sh))):
            add(f"transpose:rank{len(sh)}:{perm}", lambda x, perm=perm: pt.transpose(x, perm),
                lambda x, perm=perm: np.transpose(x, perm), {"x": a}, "remap", exact=True)
    a5 = _arr(rng, (2, 3, 2, 3, 2), "float64")
    for perm in [(4, 3, 2, 1, 0), (4, 1, 2, 3, 0), (4, 2, 1, 3, 0), (4, 3, 1, 2, 0), (0, 3, 2, 1, 4), (1, 0, 2, 4, 3),
                 (4, 0, 1, 2, 3), (1, 2, 3, 4, 0), (3, 4, 2, 0, 1)]:
        add(f"transpose:rank5:{perm}", lambda x, perm=perm: pt.transpose(x, perm),
            lambda x, perm=perm: np.transpose(x, perm), {"x": a5}, "remap", exact=True)
    add("T", lambda x: x.T, lambda x: x.T, {"x": a3}, "remap", exact=True)
    for new, order in itertools.product([(24,), (4, 6), (6, 4), (2, 12), (3, 2, 4), (4, 3, 2), (2, 1, 3, 4), (-1, 6), (2, -1)],
                                        ["C", "F"]):
        add(f"reshape:{new}:{order}", lambda x, new=new, order=order: pt.reshape(x, new, order=order),
            lambda x, new=new, order=order: np.reshape(x, new, order=order), {"x": a3}, "remap", exact=True)
    b3 = _arr(rng, (2, 3, 4), "float64")
    for ax in range(-4, 4):
        add(f"stack:axis={ax}", lambda x, y, ax=ax: pt.stack([x, y, x], axis=ax), lambda x, y, ax=ax: np.stack([x, y, x], axis=ax),
            {"x": a3, "y": b3}, "remap", exact=True)
    for ax in range(-3, 3):
        c3 = _arr(rng, tuple(5 if i == ax % 3 else d for i, d in enumerate((2, 3, 4))), "float64")
        add(f"concatenate:axis={ax}", lambda x, y, ax=ax: pt.concatenate([x, y, x], axis=ax),
            lambda x, y, ax=ax: np.concatenate([x, y, x], axis=ax), {"x": a3, "y": c3}, "remap", exact=True)
    for ax in [0, 1, 3, -1, (0, 2), (0, 4), (2, 0), (1, 0), (-2, 0), (4, 2, 0), (0, -1), (-1, 0), (3, 1), (-4, -1), (1, -5)]:
        add(f"expand_dims:{ax}", lambda x, ax=ax: pt.expand_dims(x, ax), lambda x, ax=ax: np.expand_dims(x, ax), {"x": a3},
            "remap", exact=True)
    w4 = _arr(rng, (1, 2, 1, 3), "float64")
    add("expand_dims:(2,0)+w", lambda x, w: pt.sum(pt.expand_dims(x, (2, 0)) * w, axis=3),
        lambda x, w: np.sum(np.expand_dims(x, (2, 0)) * w, axis=3), {"x": _arr(rng, (2, 3), "float64"), "w": w4}, "remap")
    sq = _arr(rng, (1, 3, 1, 2), "float64")
    for ax in [None, 0, (0, 2), -2]:
        add(f"squeeze:{ax}", (lambda x, ax=ax: pt.squeeze(x, axis=ax)) if ax is not None else (lambda x: pt.squeeze(x)),
            lambda x, ax=ax: np.squeeze(x, axis=ax), {"x": sq}, "remap", exact=True)
    for tgt in [(2, 3, 4), (5, 2, 3, 4), (1, 2, 3, 4)]:
        add(f"broadcast_to:{tgt}", lambda x, tgt=tgt: pt.broadcast_to(x, tgt), lambda x, tgt=tgt: np.broadcast_to(x, tgt),
            {"x": a3}, "remap", exact=True)
    add("broadcast_to:unit-axes", lambda x: pt.broadcast_to(x, (3, 4, 2)), lambda x: np.broadcast_to(x, (3, 4, 2)),
        {"x": _arr(rng, (1, 4, 1), "float64")}, "remap", exact=True)
    for pw in [1, (1, 2), ((1, 0), (0, 2), (2, 1))]:
        for cv in [None, 3.5, ((1., 2.), (3., 4.), (5., 6.))]:
            kw = {} if cv is None else {"constant_values": cv}
            add(f"pad:{pw}:{cv}", lambda x, pw=pw, kw=kw: pt.pad(x, pw, **kw), lambda x, pw=pw, kw=kw: np.pad(x, pw, **kw),
                {"x": a3}, "remap", exact=True)
    # basic and advanced indexing
    idxs = [np.s_[1], np.s_[-1, 2], np.s_[:, 1:3], np.s_[::-1], np.s_[1, ::2, -3:], np.s_[..., 0], np.s_[:, None, 1],
            np.s_[0:0], np.s_[5:1:-2, 2:0:-1], np.s_[-100:100]]
    for ix in idxs:
        add(f"index:{ix}", lambda x, ix=ix: x[ix], lambda x, ix=ix: x[ix], {"x": a3}, "index", exact=True)
    # the same spelled with NumPy integers (kept as given inside BasicIndex / NormalizedSlice)
    i8, i4, u1 = np.int64, np.int32, np.uint8
    for k, ix in enumerate([np.s_[i8(1)], np.s_[i8(-1), i4(2)], np.s_[:, i8(1):i8(3)], np.s_[::i8(-1)],
                            np.s_[i8(1), ::i4(2), i8(-3):], np.s_[i8(-100):i8(100)], np.s_[u1(1)], np.s_[u1(0):u1(2), u1(2)],
                            np.s_[i8(5):i8(1):i8(-2), i8(2):i8(0):i8(-1)], np.s_[i8(-10)::i8(-1)], np.s_[i4(-10)::i4(-1), i8(1)],
                            np.s_[..., i8(0)], np.s_[:, None, i4(1)], np.s_[i8(0):i8(0)]]):
        add(f"index-numpy-int:{k}:{ix}", lambda x, ix=ix: x[ix], lambda x, ix=ix: x[ix], {"x": a3}, "index", exact=True)
    # narrow / unsigned NumPy integers whose arithmetic with the axis length would wrap or overflow
    a300 = _arr(rng, (300,), "float64")
    i1_, u8 = np.int8, np.uint64
    for k, ix in enumerate([np.s_[i1_(100)], np.s_[i1_(-100)], np.s_[u1(255)], np.s_[u1(2)], np.s_[u8(299)], np.s_[u8(300)],
                            np.s_[i1_(100):], np.s_[i1_(-100):i1_(-1)], np.s_[u1(5):u1(200):u1(3)], np.s_[::i1_(-1)],
                            np.s_[u1(250)::i1_(-7)], np.s_[u8(10):u8(2):i1_(-1)], np.s_[np.uint16(301)], np.s_[np.int16(-301)]]):
        add(f"index-narrow-int:{k}:{ix}", lambda x, ix=ix: x[ix], lambda x, ix=ix: x[ix], {"x": a300}, "index", exact=True)
    for k, ix in enumerate([np.s_[0:2, u1(3)], np.s_[u1(2)], np.s_[0, u1(2), u1(4)], np.s_[u8(1), u8(2), u8(3)], np.s_[:, :, u1(255)],
                            np.s_[i1_(-3)], np.s_[:, i1_(-4)]]):
        add(f"index-unsigned-bounds:{k}:{ix}", lambda x, ix=ix: x[ix], lambda x, ix=ix: x[ix], {"x": a3}, "index", exact=True)
    # slice bounds at and around +-len, every sign of the step (second axis of a (2, 4) array)
    a24 = _arr(rng, (2, 4), "float64")
    for st, sp, step in itertools.product([None, -5, -4, -3, 0, 3, 4, 5], [None, -5, -4, -3, 0, 3, 4, 5], [1, 2, -1, -2]):
        ix = np.s_[:, st:sp:step]
        add(f"slice-bounds:{st}:{sp}:{step}", lambda x, ix=ix: x[ix], lambda x, ix=ix: x[ix], {"x": a24}, "index", exact=True)
    i1, i2 = np.array([1, 0, -1, 1]), np.array([[0, 1], [-1, 1]])
    for lbl, mk in [("x[i]", lambda x, i, j: x[i]), ("x[:, i]", lambda x, i, j: x[:, i]), ("x[i, :, i]", lambda x, i, j: x[i, :, i]),
                    ("x[j]", lambda x, i, j: x[j]), ("x[i, i]", lambda x, i, j: x[i, i]),
                    ("x[0, j]", lambda x, i, j: x[0, j]), ("x[:, j, 1]", lambda x, i, j: x[:, j, 1]),
                    ("x[i % 2, ::2, i]", lambda x, i, j: x[i % 2, ::2, i])]:
        add(f"advindex:{lbl}", mk, mk, {"x": a3, "i": i1, "j": i2}, "index", exact=True)
    for lbl, mk in [("x[int64(1), i]", lambda x, i, j: x[np.int64(1), i]), ("x[i, int32(-1)]", lambda x, i, j: x[i, np.int32(-1)]),
                    ("x[i, ::int64(2), int64(0)]", lambda x, i, j: x[i, ::np.int64(2), np.int64(0)]),
                    ("x[int64(0), :, j]", lambda x, i, j: x[np.int64(0), :, j])]:
        add(f"advindex-numpy-int:{lbl}", mk, mk, {"x": a3, "i": i1, "j": i2}, "index", exact=True)
    # an Ellipsis next to advanced indices: standing for one axis, for several, and for NONE (then it still separates
    # the advanced indices, and every axis must stay indexed explicitly — trailing / leading full slices included)
    a4 = _arr(rng, (2, 3, 4, 3), "float64")
    k1, k2 = np.array([1, 0, -1]), np.array([[0], [-1]])
    for lbl, mk in [("x[i, ..., j]", lambda x, i, j: x[i, ..., j]), ("x[i, ..., j, :]", lambda x, i, j: x[i, ..., j, :]),
                    ("x[:, i, ..., j]", lambda x, i, j: x[:, i, ..., j]), ("x[..., i, j, :]", lambda x, i, j: x[..., i, j, :]),
                    ("x[i, j, ..., :]", lambda x, i, j: x[i, j, ..., :]), ("x[i, ..., 1, :]", lambda x, i, j: x[i, ..., 1, :]),
                    ("x[i, ..., j, ::2]", lambda x, i, j: x[i, ..., j, ::2]), ("x[1, ..., j, :]", lambda x, i, j: x[1, ..., j, :]),
                    ("x[i, :, j, ...]", lambda x, i, j: x[i, :, j, ...]), ("x[..., i]", lambda x, i, j: x[..., i])]:
        add(f"advindex-ellipsis:3d:{lbl}", mk, mk, {"x": a3, "i": i1, "j": i2}, "index", exact=True)
    for lbl, mk in [("y[i, ..., j, :, :]", lambda x, i, j: x[i, ..., j, :, :]), ("y[:, i, ..., j, :]", lambda x, i, j: x[:, i, ..., j, :]),
                    ("y[i, ..., j, :]", lambda x, i, j: x[i, ..., j, :]), ("y[:, :, i, ..., j]", lambda x, i, j: x[:, :, i, ..., j]),
                    ("y[i, :, ..., j, :]", lambda x, i, j: x[i, :, ..., j, :]), ("y[i, ..., :, j]", lambda x, i, j: x[i, ..., :, j]),
                    ("y[i, ..., j, 1:, ::-1]", lambda x, i, j: x[i, ..., j, 1:, ::-1]), ("y[0, i, ..., j, :]", lambda x, i, j: x[0, i, ..., j, :])]:
        add(f"advindex-ellipsis:4d:{lbl}", mk, mk, {"x": a4, "i": k1, "j": k2}, "index", exact=True)
    # operands of different RANK where one shape is a prefix / suffix / extension of the other (NumPy rejects; C03
    # flags "pytato builds an array" and "the constructor accepts, then .shape raises")
    r23, r2, r231, r3 = _arr(rng, (2, 3), "float64"), _arr(rng, (2,), "float64"), _arr(rng, (2, 3, 1), "float64"), _arr(rng, (3,), "float64")
    for lbl, b, r, inp in [
            ("concatenate([(2,3),(2,)],1)", lambda x, y: pt.concatenate([x, y], axis=1), lambda x, y: np.concatenate([x, y], axis=1), {"x": r23, "y": r2}),
            ("concatenate([(2,),(2,3)],0)", lambda x, y: pt.concatenate([y, x], axis=0), lambda x, y: np.concatenate([y, x], axis=0), {"x": r23, "y": r2}),
            ("concatenate([(2,3),(2,3,1)],1)", lambda x, y: pt.concatenate([x, y], axis=1), lambda x, y: np.concatenate([x, y], axis=1), {"x": r23, "y": r231}),
            ("concatenate([(2,3,1),(2,3)],2)", lambda x, y: pt.concatenate([y, x], axis=2), lambda x, y: np.concatenate([y, x], axis=2), {"x": r23, "y": r231}),
            ("concatenate([(2,3),(3,)],0)", lambda x, y: pt.concatenate([x, y], axis=0), lambda x, y: np.concatenate([x, y], axis=0), {"x": r23, "y": r3}),
            ("stack([(2,),(2,3)])", lambda x, y: pt.stack([y, x]), lambda x, y: np.stack([y, x]), {"x": r23, "y": r2}),
            ("stack([(2,3),(2,3,1)],1)", lambda x, y: pt.stack([x, y], axis=1), lambda x, y: np.stack([x, y], axis=1), {"x": r23, "y": r231}),
            ("stack([(2,3),(2,)],axis=2)", lambda x, y: pt.stack([x, y], axis=2), lambda x, y: np.stack([x, y], axis=2), {"x": r23, "y": r2})]:
        add(f"rank-mismatch:{lbl}", b, r, inp, "rank-mismatch", exact=True)
    # integer PARAMETERS spelled as fixed-width NumPy integers whose arithmetic would wrap around or overflow
    # (axis lengths whose product exceeds the type, shifts that are negated, widths added to lengths, -1 next to unsigned)
    u1_, i1__, i8_ = np.uint8, np.int8, np.int64
    a2013 = _arr(rng, (20, 13), "float64")

    def xph():
        return pt.make_placeholder("x", (u1_(20), u1_(13)), np.float64)
    for lbl, b, r in [
            ("placeholder-shape:add", lambda x: xph() + 1, lambda x: x + 1),
            ("placeholder-shape:size", lambda x: xph() * 0 + xph().size, lambda x: x * 0 + x.size),
            ("placeholder-shape:sum", lambda x: pt.sum(xph()), lambda x: np.sum(x)),
            ("placeholder-shape:reshape-1", lambda x: xph().reshape(-1), lambda x: x.reshape(-1)),
            ("placeholder-shape:T", lambda x: xph().T @ xph(), lambda x: x.T @ x),
            ("roll:u1(250)", lambda x: pt.roll(x, u1_(250), axis=0), lambda x: np.roll(x, 250, axis=0)),
            ("roll:i1(-100):axis-i1", lambda x: pt.roll(x, i1__(-100), axis=i1__(1)), lambda x: np.roll(x, -100, axis=1)),
            ("roll:u64", lambda x: pt.roll(x, np.uint64(7), axis=1), lambda x: np.roll(x, 7, axis=1)),
            ("pad:u1(120)", lambda x: pt.pad(x, u1_(120)), lambda x: np.pad(x, 120)),
            ("pad:(u1,i1)", lambda x: pt.pad(x, (u1_(250), i1__(100))), lambda x: np.pad(x, (250, 100))),
            ("pad:per-axis", lambda x: pt.pad(x, [(u1_(1), u1_(255)), (i8_(2), u1_(0))]), lambda x: np.pad(x, [(1, 255), (2, 0)])),
            ("broadcast_to:u1", lambda x: pt.broadcast_to(x, (u1_(2), u1_(20), u1_(13))), lambda x: np.broadcast_to(x, (2, 20, 13))),
            ("reshape:u1-u1", lambda x: x.reshape(u1_(13), u1_(20)), lambda x: x.reshape(13, 20)),
            ("reshape:u1,-1", lambda x: x.reshape(u1_(26), -1), lambda x: x.reshape(26, -1)),
            ("reshape:(u1,i1(-1))", lambda x: x.reshape((u1_(10), i1__(-1))), lambda x: x.reshape((10, -1))),
            ("reshape:i8(-1)", lambda x: x.reshape(i8_(-1)), lambda x: x.reshape(-1)),
            ("reshape:F:u1", lambda x: pt.reshape(x, (u1_(5), u1_(52)), order="F"), lambda x: np.reshape(x, (5, 52), order="F")),
            ("transpose:i8", lambda x: pt.transpose(x, (i8_(1), i8_(0))), lambda x: np.transpose(x, (1, 0))),
            ("sum:axis-i8", lambda x: pt.sum(x, axis=i8_(1)), lambda x: np.sum(x, axis=1)),
            ("concatenate:axis-i8", lambda x: pt.concatenate([x, x], axis=i8_(1)), lambda x: np.concatenate([x, x], axis=1)),
            ("slice:u1", lambda x: xph()[u1_(3):u1_(19):u1_(5), i1__(-1)], lambda x: x[3:19:5, -1])]:
        add(f"np-int-param:{lbl}", b, r, {"x": a2013}, "np-int-param")
    for lbl, b, r in [
            ("zeros:(u1,u1)", lambda: pt.zeros((u1_(20), u1_(13))), lambda: np.zeros((20, 13))),
            ("ones:u1", lambda: pt.ones(u1_(200), dtype="int32"), lambda: np.ones(200, dtype="int32")),
            ("full:(u1,u1)", lambda: pt.full((u1_(20), u1_(13)), 1.5), lambda: np.full((20, 13), 1.5)),
            ("eye:u1", lambda: pt.eye(u1_(20), u1_(13)), lambda: np.eye(20, 13)),
            ("eye:u1:k-i1", lambda: pt.eye(u1_(20), k=i1__(-3)), lambda: np.eye(20, k=-3)),
            ("arange:u1(250)", lambda: pt.arange(u1_(250), dtype=np.int64), lambda: np.arange(250, dtype=np.int64)),
            ("arange:i1-range", lambda: pt.arange(i1__(-100), i1__(100), i1__(3), dtype=np.int64),
             lambda: np.arange(-100, 100, 3, dtype=np.int64)),
            ("arange:u1-negative-step", lambda: pt.arange(u1_(250), u1_(3), i1__(-7), dtype=np.int64),
             lambda: np.arange(250, 3, -7, dtype=np.int64))]:
        add(f"np-int-param:{lbl}", b, r, {}, "np-int-param", exact=True)
    # comparisons (and what is built from them) are made in NumPy's promoted type — C's usual arithmetic conversions
    # differ: signed next to unsigned, 64-bit integers next to float32, float32 next to a double literal
    U32 = np.array([1, 5, 4000000000, 7], dtype=np.uint32)
    S8 = np.array([-1, -100, 3, 7], dtype=np.int8)
    U64 = np.array([2 ** 63 + 5, 3, 2 ** 64 - 1, 0], dtype=np.uint64)
    S64 = np.array([-5, 2 ** 40, 3, -7], dtype=np.int64)
    F32 = np.array([16777216.0, 0.1, -2, 0.3], dtype=np.float32)
    L64 = np.array([16777217, 1, -2, 16777217], dtype=np.int64)
    U8 = np.array([0, 200, 255, 3], dtype=np.uint8)
    Z64 = np.array([0.1 + 0.2j, 1, 0.3j, 2], dtype=np.complex64)
    cmpf = {"less": np.less, "less_equal": np.less_equal, "greater": np.greater, "greater_equal": np.greater_equal,
            "equal": np.equal, "not_equal": np.not_equal, "maximum": np.maximum, "minimum": np.minimum}
    for nm, f in cmpf.items():
        for lbl, a, b in [("u32,s8", U32, S8), ("s8,u32", S8, U32), ("u64,s64", U64, S64), ("s64,u64", S64, U64),
                          ("f32,i64", F32, L64), ("i64,f32", L64, F32), ("u8,s8", U8, S8), ("u8,f32", U8, F32)]:
            add(f"mixed-compare:{nm}:{lbl}", lambda x, y, nm=nm: getattr(pt, nm)(x, y), lambda x, y, f=f: f(x, y),
                {"x": a, "y": b}, "mixed-compare", exact=True, always_execute=True)
        if nm in ("maximum", "minimum"):
            continue
        for lbl, a, sc in [("u32,-1", U32, -1), ("u8,-1", U8, -1), ("u8,300", U8, 300), ("s8,200", S8, 200),
                           ("u32,int8(-1)", U32, np.int8(-1)), ("u64,int64(-5)", U64, np.int64(-5)),
                           ("f32,0.1", F32, 0.1), ("f32,0.3", F32, 0.3), ("f32,float64(0.1)", F32, np.float64(0.1)),
                           ("f32,16777217", F32, 16777217), ("u8,2.5", U8, 2.5), ("u64,2**62", U64, 2 ** 62)]:   # (loopy cannot type integer literals >= 2**63)
            add(f"mixed-compare:{nm}:{lbl}", lambda x, nm=nm, sc=sc: getattr(pt, nm)(x, sc), lambda x, f=f, sc=sc: f(x, sc),
                {"x": a}, "mixed-compare", exact=True, always_execute=True)
            add(f"mixed-compare:{nm}:r:{lbl}", lambda x, nm=nm, sc=sc: getattr(pt, nm)(sc, x), lambda x, f=f, sc=sc: f(sc, x),
                {"x": a}, "mixed-compare", exact=True, always_execute=True)
    for nm in ("equal", "not_equal"):
        add(f"mixed-compare:{nm}:c64,0.1+0.2j", lambda x, nm=nm: getattr(pt, nm)(x, 0.1 + 0.2j),
            lambda x, f=cmpf[nm]: f(x, 0.1 + 0.2j), {"x": Z64}, "mixed-compare", exact=True, always_execute=True)
    Z128 = Z64.astype(np.complex128)
    for nm in ("equal", "not_equal"):
        for lbl, a, sc in [("c128,0.1+0.2j", Z128, 0.1 + 0.2j), ("c128,1", Z128, 1), ("c128,0.3j", Z128, 0.3j),
                           ("f64,1+0j", np.array([1.0, 2.0, 0.5]), 1 + 0j)]:
            add(f"mixed-compare:{nm}:{lbl}", lambda x, nm=nm, sc=sc: getattr(pt, nm)(x, sc),
                lambda x, f=cmpf[nm], sc=sc: f(x, sc), {"x": a}, "mixed-compare", exact=True, always_execute=True)
            if isinstance(sc, complex) and sc.imag != 0:
                # loopy types a comparison through `left - right`; with a complex constant on the LEFT that difference
                # loses the constant's size and type inference fails (sized or not; on the right a sized one works)
                continue
            add(f"mixed-compare:{nm}:r:{lbl}", lambda x, nm=nm, sc=sc: getattr(pt, nm)(sc, x),
                lambda x, f=cmpf[nm], sc=sc: f(sc, x), {"x": a}, "mixed-compare", exact=True, always_execute=True)
    add("mixed-compare:where(u32<s8)", lambda x, y: pt.where(pt.less(x, y), x, y), lambda x, y: np.where(x < y, x, y),
        {"x": U32, "y": S8}, "mixed-compare", exact=True, always_execute=True)
    add("mixed-compare:sum(u32>s8)", lambda x, y: pt.sum(pt.greater(x, y) * 1), lambda x, y: np.sum((x > y) * 1),
        {"x": U32, "y": S8}, "mixed-compare", exact=True, always_execute=True)
    # floor division and remainder follow the sign of the DIVISOR (C truncates): every sign combination, mixed widths
    DA = np.array([7, -7, 7, -7, 0, 5, -5, 1, -1, -9], dtype=np.int64)
    DB = np.array([2, 2, -2, -2, 3, -5, 5, -1, -1, 4], dtype=np.int64)
    for lbl, b, r, inp in [
            ("a//b", lambda x, y: x // y, lambda x, y: x // y, {"x": DA, "y": DB}),
            ("a%b", lambda x, y: x % y, lambda x, y: x % y, {"x": DA, "y": DB}),
            ("i32//i8", lambda x, y: x // y, lambda x, y: x // y, {"x": DA.astype(np.int32), "y": DB.astype(np.int8)}),
            ("i32%i8", lambda x, y: x % y, lambda x, y: x % y, {"x": DA.astype(np.int32), "y": DB.astype(np.int8)}),
            ("u32//i8", lambda x, y: x // y, lambda x, y: x // y, {"x": np.abs(DA).astype(np.uint32), "y": DB.astype(np.int8)}),
            ("u32%i8", lambda x, y: x % y, lambda x, y: x % y, {"x": np.abs(DA).astype(np.uint32), "y": DB.astype(np.int8)}),
            ("a//-3", lambda x: x // -3, lambda x: x // -3, {"x": DA}), ("a%-3", lambda x: x % -3, lambda x: x % -3, {"x": DA}),
            ("-7//b", lambda y: -7 // y, lambda y: -7 // y, {"y": DB}), ("-7%b", lambda y: -7 % y, lambda y: -7 % y, {"y": DB}),
            ("(a//b)*b+a%b", lambda x, y: (x // y) * y + x % y, lambda x, y: (x // y) * y + x % y, {"x": DA, "y": DB})]:
        add(f"signed-divmod:{lbl}", b, r, inp, "signed-divmod", exact=True, always_execute=True)
    # constructors
    for sh in [(2, 3), (), (0, 2)]:
        for dt in ("float64", "int32", "bool"):
            add(f"zeros:{sh}:{dt}", lambda sh=sh, dt=dt: pt.zeros(sh, dtype=dt), lambda sh=sh, dt=dt: np.zeros(sh, dtype=dt), {},
                "construct", exact=True)
            add(f"ones:{sh}:{dt}", lambda sh=sh, dt=dt: pt.ones(sh, dtype=dt), lambda sh=sh, dt=dt: np.ones(sh, dtype=dt), {},
                "construct", exact=True)
        add(f"full:{sh}", lambda sh=sh: pt.full(sh, 2.5), lambda sh=sh: np.full(sh, 2.5), {}, "construct", exact=True)
        add(f"full-int:{sh}", lambda sh=sh: pt.full(sh, 7, dtype="int64"), lambda sh=sh: np.full(sh, 7, dtype="int64"), {},
            "construct", exact=True)
    for args in [(3,), (3, 4), (4, 3), (3, 3, 1), (3, 3, -1), (3, 4, 2), (3, 4, -2), (2, 5, 7)]:
        add(f"eye:{args}", lambda args=args: pt.eye(*args), lambda args=args: np.eye(*args), {}, "construct", exact=True)
    # zero rows / zero columns given explicitly (0 is not "not given"), keyword spellings, and what is built on them
    for args, kw in [((3, 0), {}), ((0, 3), {}), ((0,), {}), ((3,), {"M": 0}), ((2,), {"M": 0, "k": 1}), ((3,), {"M": 2}),
                     ((3,), {"k": 0}), ((3, None), {"k": -1}), ((3, 4), {"k": 0, "dtype": np.int32})]:
        add(f"eye:{args}:{kw}", lambda args=args, kw=kw: pt.eye(*args, **kw), lambda args=args, kw=kw: np.eye(*args, **kw), {},
            "construct", exact=True)
    x32 = _arr(rng, (3, 2), "float64")
    add("eye:sum(eye(3,0),axis=1)", lambda: pt.sum(pt.eye(3, 0), axis=1), lambda: np.sum(np.eye(3, 0), axis=1), {}, "construct")
    add("eye:concatenate([eye(3,0),x],1)", lambda x: pt.concatenate([pt.eye(3, 0), x], axis=1),
        lambda x: np.concatenate([np.eye(3, 0), x], axis=1), {"x": x32}, "construct")
    add("eye:sum(eye(3,0))+x", lambda x: pt.sum(pt.eye(3, 0)) + x, lambda x: np.sum(np.eye(3, 0)) + x, {"x": x32}, "construct")
    add("eye:eye(2,M=3)@x", lambda x: pt.eye(2, M=3) @ x, lambda x: np.eye(2, M=3) @ x, {"x": x32}, "construct")
    for args in [(5,), (1, 6), (0, 10, 3), (10, 0, -3), (2, 2), (5, 2)]:
        add(f"arange:{args}", lambda args=args: pt.arange(*args, dtype=np.int64), lambda args=args: np.arange(*args, dtype=np.int64),
            {}, "construct", exact=True)
    for args, kw in [((1,), {"stop": 5}), ((), {"stop": 5}), ((), {"start": 1, "stop": 5}), ((), {"start": 1, "stop": 6, "step": 2}),
                     ((5,), {"step": 2}), ((1, 5), {"step": 2}), ((1,), {"stop": 5, "step": 2}), ((), {}), ((5,), {"start": 1}),
                     ((1, 5), {"stop": 7}), ((), {"start": 1}), ((), {"stop": 0}), ((), {"stop": -3}), ((7,), {"step": -1})]:
        add(f"arange-keywords:{args}:{kw}", lambda args=args, kw=kw: pt.arange(*args, dtype=np.int64, **kw),
            lambda args=args, kw=kw: np.arange(*args, dtype=np.int64, **kw), {}, "construct", exact=True)
    for args in [(0.0, 2.0, 0.5), (3.0, 0.0, -0.75)]:
        add(f"arange-float:{args}", lambda args=args: pt.arange(*args, dtype=np.float64),
            lambda args=args: np.arange(*args, dtype=np.float64), {}, "construct")
    xa = _arr(rng, (2, 3), "float32")
    add("zeros_like", lambda x: pt.zeros_like(x), lambda x: np.zeros_like(x), {"x": xa}, "construct", exact=True)
    for dt in ("int64", "int8", "uint32", "bool", "float32", "complex128"):
        xd = _arr(rng, (2, 3), dt)
        add(f"zeros_like:{dt}", lambda x: pt.zeros_like(x), lambda x: np.zeros_like(x), {"x": xd}, "construct", exact=True)
        add(f"ones_like:{dt}", lambda x: pt.ones_like(x), lambda x: np.ones_like(x), {"x": xd}, "construct", exact=True)
        add(f"zeros_like:{dt}:dtype=float64", lambda x: pt.zeros_like(x, dtype=np.float64),
            lambda x: np.zeros_like(x, dtype=np.float64), {"x": xd}, "construct", exact=True)
    add("ones_like", lambda x: pt.ones_like(x), lambda x: np.ones_like(x), {"x": xa}, "construct", exact=True)
    add("zeros_like-dtype", lambda x: pt.zeros_like(x, dtype=np.int64), lambda x: np.zeros_like(x, dtype=np.int64), {"x": xa},
        "construct", exact=True)
    add("astype", lambda x: x.astype(np.float64) * 3, lambda x: x.astype(np.float64) * 3, {"x": xa}, "construct")
    add("astype-int", lambda x: x.astype(np.int32), lambda x: x.astype(np.int32), {"x": _arr(rng, (5,), "float64")}, "construct",
        exact=True)
    # ---------------------------------------------------------------- METHOD forms and keyword spellings of the Array class
    am = _arr(rng, (2, 3, 4), "float64")
    ac = _arr(rng, (2, 3), "complex128")
    ab = _arr(rng, (2, 3), "bool")
    meth = {
        "reshape(4,6)": (lambda x: x.reshape(4, 6), lambda x: x.reshape(4, 6)),
        "reshape(4,6,order=F)": (lambda x: x.reshape(4, 6, order="F"), lambda x: x.reshape(4, 6, order="F")),
        "reshape((4,6),order=F)": (lambda x: x.reshape((4, 6), order="F"), lambda x: x.reshape((4, 6), order="F")),
        "reshape(6,-1,order=F)": (lambda x: x.reshape(6, -1, order="F"), lambda x: x.reshape(6, -1, order="F")),
        "reshape(-1,order=F)": (lambda x: x.reshape(-1, order="F"), lambda x: x.reshape(-1, order="F")),
        "reshape(2,3,2,2,order=F)": (lambda x: x.reshape(2, 3, 2, 2, order="F"), lambda x: x.reshape(2, 3, 2, 2, order="F")),
        "pt.reshape(order=F) positional": (lambda x: pt.reshape(x, (4, 6), "F"), lambda x: np.reshape(x, (4, 6), order="F")),
        "transpose()": (lambda x: x.transpose(), lambda x: x.transpose()),
        "transpose((1,2,0))": (lambda x: x.transpose((1, 2, 0)), lambda x: x.transpose((1, 2, 0))),
        "transpose(axes=(2,0,1))": (lambda x: x.transpose(axes=(2, 0, 1)), lambda x: x.transpose((2, 0, 1))),
        "T": (lambda x: x.T, lambda x: x.T),
        "copy()": (lambda x: x.copy() * 2, lambda x: x.copy() * 2),
        "astype(float32)": (lambda x: x.astype(np.float32), lambda x: x.astype(np.float32)),
        "__pos__": (lambda x: +x, lambda x: +x),
        "__neg__": (lambda x: -x, lambda x: -x),
        "__abs__": (lambda x: abs(x), lambda x: abs(x)),
        "__rmatmul__-with-ndarray-free": (lambda x: x.T @ x.T.T if False else x.reshape(6, 4).T @ x.reshape(6, 4),
                                          lambda x: x.reshape(6, 4).T @ x.reshape(6, 4)),
    }
    for lbl, (fp, fn) in meth.items():
        add(f"method:{lbl}", fp, fn, {"x": am}, "method", exact=True)
    for lbl, (fp, fn) in {"real": (lambda x: x.real, lambda x: x.real), "imag": (lambda x: x.imag, lambda x: x.imag),
                          "conj()": (lambda x: x.conj(), lambda x: x.conj()), "abs": (lambda x: abs(x), lambda x: abs(x))}.items():
        add(f"method:complex:{lbl}", fp, fn, {"x": ac}, "method")
        add(f"method:real-input:{lbl}", fp, fn, {"x": am}, "method")
    for lbl, (fp, fn) in {"all()": (lambda x: x.all(), lambda x: x.all()), "any()": (lambda x: x.any(), lambda x: x.any()),
                          "all(axis=0)": (lambda x: x.all(axis=0), lambda x: x.all(axis=0)),
                          "any(axis=1)": (lambda x: x.any(axis=1), lambda x: x.any(axis=1))}.items():
        add(f"method:bool:{lbl}", fp, fn, {"x": ab}, "method", exact=True)
    add("method:len", lambda x: pt.full((), len(x)), lambda x: np.full((), len(x)), {"x": am}, "method", exact=True)
    add("method:size-ndim", lambda x: pt.full((), x.size * 10 + x.ndim), lambda x: np.full((), x.size * 10 + x.ndim), {"x": am},
        "method", exact=True)
    # stacked matmul with operands of DIFFERENT rank (stack axes align from the right)
    for s1, s2 in [((2, 3, 4), (2, 2, 4, 5)), ((2, 2, 3, 4), (2, 4, 5)), ((3, 1, 2, 4), (2, 4, 5)), ((2, 3, 4), (3, 1, 4, 2)),
                   ((2, 3, 4), (4,)), ((4,), (2, 4, 3)), ((1, 3, 4), (2, 2, 4, 2))]:
        a, b = _arr(rng, s1, "float64"), _arr(rng, s2, "float64")
        add(f"matmul-mixed-rank:{s1}@{s2}", lambda x, y: x @ y, lambda x, y: x @ y, {"x": a, "y": b}, "contract")
        add(f"pt.matmul-mixed-rank:{s1}@{s2}", lambda x, y: pt.matmul(x, y), lambda x, y: np.matmul(x, y), {"x": a, "y": b}, "contract")
    # compound expressions that are inlined into ONE kernel expression: operator precedence of the printers
    xi, yi, zi = _arr(rng, (6,), "int64"), _arr(rng, (6,), "int64"), _arr(rng, (6,), "int64")
    comp = {
        "(x^y)>=z": (lambda x, y, z: pt.greater_equal(x ^ y, z), lambda x, y, z: (x ^ y) >= z),
        "(x&y)==z": (lambda x, y, z: pt.equal(x & y, z), lambda x, y, z: (x & y) == z),
        "(x|y)<z": (lambda x, y, z: pt.less(x | y, z), lambda x, y, z: (x | y) < z),
        "x^(y>=z)": (lambda x, y, z: x ^ pt.greater_equal(y, z), lambda x, y, z: x ^ (y >= z)),
        "x&(y<z)": (lambda x, y, z: x & pt.less(y, z), lambda x, y, z: x & (y < z)),
        "(x+y)^z": (lambda x, y, z: (x + y) ^ z, lambda x, y, z: (x + y) ^ z),
        "x+(y^z)": (lambda x, y, z: x + (y ^ z), lambda x, y, z: x + (y ^ z)),
        "(x|y)&z": (lambda x, y, z: (x | y) & z, lambda x, y, z: (x | y) & z),
        "x|(y&z)": (lambda x, y, z: x | (y & z), lambda x, y, z: x | (y & z)),
        "-(x**2)": (lambda x, y, z: -(x ** 2), lambda x, y, z: -(x ** 2)),
        "(-x)**2": (lambda x, y, z: (-x) ** 2, lambda x, y, z: (-x) ** 2),
        "x-(y-z)": (lambda x, y, z: x - (y - z), lambda x, y, z: x - (y - z)),
        "x//(y*y+1)*z": (lambda x, y, z: x // (y * y + 1) * z, lambda x, y, z: x // (y * y + 1) * z),
        "x%(y*y+1)-z": (lambda x, y, z: x % (y * y + 1) - z, lambda x, y, z: x % (y * y + 1) - z),
        "not(x<y)|(y<z)": (lambda x, y, z: pt.logical_or(pt.logical_not(pt.less(x, y)), pt.less(y, z)),
                           lambda x, y, z: np.logical_or(np.logical_not(x < y), y < z)),
        "where((x<y)&(y<z))": (lambda x, y, z: pt.where(pt.logical_and(pt.less(x, y), pt.less(y, z)), x, z),
                               lambda x, y, z: np.where((x < y) & (y < z), x, z)),
        "(x<y)==(y<z)": (lambda x, y, z: pt.equal(pt.less(x, y), pt.less(y, z)), lambda x, y, z: (x < y) == (y < z)),
        "(x/2)/(y*y+1)": (lambda x, y, z: (x / 2) / (y * y + 1), lambda x, y, z: (x / 2) / (y * y + 1)),
        "x/(2/(y*y+1))": (lambda x, y, z: x / (2 / (y * y + 1)), lambda x, y, z: x / (2 / (y * y + 1))),
    }
    for lbl, (fp, fn) in comp.items():
        add(f"compound:{lbl}", fp, fn, {"x": xi, "y": yi, "z": zi}, "compound", exact=True, always_execute=True)
    # operands that are constant-valued ARRAYS (full/ones/zeros): they are inlined as bare constants
    xf = _arr(rng, (6,), "float32")
    consts = {"ones-bool": (lambda: pt.ones((6,), dtype=bool), np.ones((6,), dtype=bool)),
              "zeros-bool": (lambda: pt.zeros((6,), dtype=bool), np.zeros((6,), dtype=bool)),
              "full-2.5": (lambda: pt.full((6,), 2.5), np.full((6,), 2.5)),
              "full-int3": (lambda: pt.full((6,), 3, dtype="int64"), np.full((6,), 3, dtype="int64")),
              "full-True": (lambda: pt.full((6,), True), np.full((6,), True))}
    cfns = {"greater": np.greater, "less_equal": np.less_equal, "equal": np.equal, "not_equal": np.not_equal,
            "logical_and": np.logical_and, "logical_or": np.logical_or, "add": np.add, "mul": np.multiply,
            "sub": np.subtract}
    for cn, (mk, cv) in consts.items():
        for fnm, fn in cfns.items():
            fp = (lambda a, b, fnm=fnm: getattr(pt, fnm)(a, b)) if hasattr(pt, fnm) else \
                (lambda a, b, fnm=fnm: {"add": operator.add, "mul": operator.mul, "sub": operator.sub}[fnm](a, b))
            for order in (0, 1):
                for inner in ("x", "sin(x)", "x>0"):
                    mkx = {"x": lambda x: x, "sin(x)": lambda x: pt.sin(x), "x>0": lambda x: pt.greater(x, 0)}[inner]
                    npx = {"x": lambda x: x, "sin(x)": np.sin, "x>0": lambda x: x > 0}[inner]
                    if fnm == "sub" and (inner == "x>0" and cv.dtype == bool):
                        continue
                    add(f"constant-operand:{fnm}:{cn}:{inner}:{order}",
                        (lambda x, fp=fp, mk=mk, mkx=mkx: fp(mkx(x), mk())) if order == 0 else
                        (lambda x, fp=fp, mk=mk, mkx=mkx: fp(mk(), mkx(x))),
                        (lambda x, fn=fn, cv=cv, npx=npx: fn(npx(x), cv)) if order == 0 else
                        (lambda x, fn=fn, cv=cv, npx=npx: fn(cv, npx(x))),
                        {"x": xf}, "constant-operand", always_execute=(order == 0 and inner != "x"))
    # n-ary constructors with operands of DIFFERENT dtypes, both orders: the declared dtype is the promotion of ALL
    # operands (a dtype taken from the first operand truncates the others in the generated code)
    for d1, d2 in [("int32", "float64"), ("float64", "complex128"), ("bool", "int8"), ("float32", "int64")]:
        for da, db in ((d1, d2), (d2, d1)):
            p, q = _arr(rng, (2, 3), da), _arr(rng, (2, 3), db)
            if np.dtype(db).kind == "f":
                q = q + 0.25
            if np.dtype(da).kind == "f":
                p = p + 0.25
            io = {"x": p, "y": q}
            add(f"mixed-dtype:stack:{da},{db}", lambda x, y: pt.stack([x, y]), lambda x, y: np.stack([x, y]), io, "remap")
            add(f"mixed-dtype:stack-axis1:{da},{db}", lambda x, y: pt.stack([x, y, x], axis=1), lambda x, y: np.stack([x, y, x], axis=1), io, "remap")
            add(f"mixed-dtype:concatenate:{da},{db}", lambda x, y: pt.concatenate([x, y], axis=1),
                lambda x, y: np.concatenate([x, y], axis=1), io, "remap")
            add(f"mixed-dtype:where:{da},{db}", lambda x, y: pt.where(pt.greater(x, 0), x, y), lambda x, y: np.where(x > 0, x, y), io, "binary")
            add(f"mixed-dtype:einsum:{da},{db}", lambda x, y: pt.einsum("ij,ij->i", x, y), lambda x, y: np.einsum("ij,ij->i", x, y), io, "contract")
    # stacked matmul of MIXED RANK with batch axes of DIFFERENT lengths (they align from the right), rank 5 @ 3, unit
    # batch axes that broadcast, 1-d operands; dot / vdot
    for s1, s2 in [((2, 3, 2, 4), (3, 4, 5)), ((3, 4, 5), (2, 3, 5, 2)), ((3, 3, 2, 4), (3, 4, 2)), ((2, 1, 3, 2, 4), (3, 4, 2)),
                   ((2, 3, 2, 4), (1, 4, 3)), ((1, 2, 4), (2, 3, 4, 2)), ((2, 3, 2, 4), (4,)), ((4,), (2, 3, 4, 2)), ((2, 3, 4, 2), (2, 3))]:
        a, b = _arr(rng, s1, "float64"), _arr(rng, s2, "float64")
        add(f"matmul-mixed-rank-batch:{s1}@{s2}", lambda x, y: x @ y, lambda x, y: x @ y, {"x": a, "y": b}, "contract")
    for s1, s2 in [((2, 3, 4), (4,)), ((3, 4), (4,)), ((4,), (4,)), ((2, 3, 4), (2, 4, 3)), ((2, 2, 3, 4), (3, 4, 2)), ((), (3, 4))]:
        a, b = _arr(rng, s1, "float64"), _arr(rng, s2, "float64")
        add(f"dot-mixed-rank:{s1},{s2}", lambda x, y: pt.dot(x, y), lambda x, y: np.dot(x, y), {"x": a, "y": b}, "contract")
    for s1, s2 in [((6,), (6,)), ((2, 3), (6,)), ((2, 3), (3, 2))]:
        a, b = _arr(rng, s1, "complex128"), _arr(rng, s2, "complex128")
        add(f"vdot:{s1},{s2}", lambda x, y: pt.vdot(x, y), lambda x, y: np.vdot(x, y), {"x": a, "y": b}, "contract")
    # advanced indexing with TWO OR MORE slices next to the index arrays (rank 4 / 5)
    a4i = _arr(rng, (3, 4, 2, 6), "int64")
    a5i = _arr(rng, (2, 3, 4, 2, 3), "int64")
    ii, jj = np.array([0, -1, 1]), np.array([1, -2, 0])
    for lbl, mk in {"i,:,j,:": lambda x, i, j: x[i, :, j, :], ":,i,:,j": lambda x, i, j: x[:, i, :, j],
                    "i,:,j,1:6:2": lambda x, i, j: x[i, :, j, 1:6:2], "i,1:,j,::-1": lambda x, i, j: x[i, 1:, j % 2, ::-1],
                    ":,:,i,j": lambda x, i, j: x[:, :, i % 2, j], "i,j,:,:": lambda x, i, j: x[i, j, :, :],
                    "::2,i,:,j": lambda x, i, j: x[::2, i, :, j]}.items():
        add(f"advindex-two-slices:4d:{lbl}", mk, mk, {"x": a4i, "i": ii, "j": jj}, "index", exact=True)
    for lbl, mk in {"i,:,j,:,:": lambda x, i, j: x[i % 2, :, j, :, :], ":,i,:,j,:": lambda x, i, j: x[:, i, :, j % 2, :],
                    ":,i,1:,:,j": lambda x, i, j: x[:, i, 1:, :, j], "i,:,:,j,::2": lambda x, i, j: x[i % 2, :, :, j % 2, ::2]}.items():
        add(f"advindex-two-slices:5d:{lbl}", mk, mk, {"x": a5i, "i": ii, "j": jj}, "index", exact=True)
    # sparse
    dense = np.array([[0., 2., 0., 1.], [3., 0., 0., 0.], [0., 0., 0., 0.], [0., 4., 5., 0.]])
    rows, cols = np.nonzero(dense)
    ev = dense[rows, cols]
    rs = np.concatenate([[0], np.cumsum(np.bincount(rows, minlength=4))]).astype(np.int64)
    for bsh in [(4,), (4, 3)]:
        b = _arr(rng, bsh, "float64")
        add(f"csr-matmul:{bsh}",
            lambda ev, ec, rs, b: pt.make_csr_matrix((4, 4), ev, ec, rs) @ b,
            lambda ev, ec, rs, b, dense=dense: dense @ b,
            {"ev": ev, "ec": cols.astype(np.int64), "rs": rs, "b": b}, "sparse")
    return out

"""Reflective serialisation of a pytato graph into the heap of PtModel.Mapper:
objects are numbered by `id()` in post-order of the reflective walk (children
before parents, so `WFHeap` holds by construction and is re-checked by the
driver), edges carry their edge class.  Never calls a pytato mapper."""
from __future__ import annotations

from dataclasses import dataclass

import numpy as np
from typing import Any

from . import reflect
from .gen.probes import edge_class


@dataclass
class HeapView:
    nodes: list[Any]                 # post-order
    index: dict[int, int]            # id(obj) -> number
    edges: list[list[tuple[str, str, int]]]   # per node: (label, class, child number)
    cls: list[int]                   # structural class: number of the first equal object
    root: int
    attrs: list[int] = None          # fingerprint class of the non-child, non-tag data

    def kind(self, i: int) -> str:
        return type(self.nodes[i]).__name__

    def sexp(self) -> str:
        parts = []
        for i, n in enumerate(self.nodes):
            tags = " ".join(sorted({type(t).__name__ for t in (getattr(n, "tags", None) or ())}))
            kids = " ".join(f"({c} {j})" for _, c, j in self.edges[i])
            parts.append(f"({type(n).__name__} ({tags}) ({kids}) {self.cls[i]} {self.attrs[i]})")
        return "(" + " ".join(parts) + ")"

    def reach(self, start: int, follow=lambda kind, cls: True) -> set[int]:
        seen: set[int] = set()
        st = [start]
        while st:
            i = st.pop()
            if i in seen:
                continue
            seen.add(i)
            for _, c, j in self.edges[i]:
                if follow(self.kind(i), c):
                    st.append(j)
        return seen

    def height(self) -> list[int]:
        ht = [0] * len(self.nodes)
        for i in range(len(self.nodes)):
            ht[i] = 1 + max((ht[j] for _, _, j in self.edges[i]), default=-1)
        return ht


def walk_many(roots, into_functions: bool = True) -> list:
    """post-order over several roots into ONE numbering (objects by id): input and output
    graph of a transformation share the numbers of the objects they share"""
    import sys
    seen: set[int] = set()
    order: list = []

    def rec(n):
        if id(n) in seen:
            return
        seen.add(id(n))
        for _, c in reflect.children(n, into_functions=into_functions):
            rec(c)
        order.append(n)
    old = sys.getrecursionlimit()
    sys.setrecursionlimit(max(old, 20000))
    try:
        for r in roots:
            rec(r)
    finally:
        sys.setrecursionlimit(old)
    return order


def view_many(roots, into_functions: bool = True, attr_ignore=()) -> tuple[HeapView, list[int]]:
    """combined heap of several graphs -> (view, number of each root).  The nodes of the first
    root come first, so `view_many([g])` followed by `view_many([g, transformed])` gives heaps of
    which the second extends the first iff `g` was left structurally unchanged.
    `attr_ignore`: dataclass field names left out of the attribute fingerprint (e.g. ("axes",)
    to compare up to axis tags)."""
    v = view(None, into_functions, _nodes=walk_many(roots, into_functions), attr_ignore=attr_ignore)
    return v, [v.index[id(r)] for r in roots]


def view(root, into_functions: bool = True, _nodes=None, attr_ignore=()) -> HeapView:
    nodes = _nodes if _nodes is not None else list(reflect.walk(root, into_functions=into_functions))
    index = {id(n): i for i, n in enumerate(nodes)}
    edges = []
    for n in nodes:
        edges.append([(lb, edge_class(lb), index[id(c)])
                      for lb, c in reflect.children(n, into_functions=into_functions)])
    first: dict[Any, int] = {}
    cls = []
    for i, n in enumerate(nodes):
        try:
            cls.append(first.setdefault(n, i))
        except TypeError:
            cls.append(i)
    fps: dict[Any, int] = {}
    attrs = [fps.setdefault(attr_key(n, attr_ignore), len(fps)) for n in nodes]
    return HeapView(nodes, index, edges, cls, index[id(root)] if root is not None else len(nodes) - 1, attrs)


def _tok(v):
    """a field value with every array / container / function inside replaced by '@'"""
    import dataclasses
    from collections.abc import Mapping

    from pytato.array import NormalizedSlice, SparseMatrix
    from pytato.distributed.nodes import DistributedSend
    if reflect._is_node(v):
        return "@"
    if isinstance(v, tuple):
        return tuple(_tok(x) for x in v)
    if isinstance(v, Mapping):
        return tuple(sorted(((str(k), _tok(x)) for k, x in v.items()), key=lambda p: p[0]))
    if isinstance(v, (NormalizedSlice, SparseMatrix, DistributedSend)):
        return (type(v).__name__,) + tuple(
            (f.name, _tok(getattr(v, f.name))) for f in dataclasses.fields(v) if f.name != "non_equality_tags")
    try:
        hash(v)
        return v
    except TypeError:
        return ("unhashable", id(v))


def attr_key(n, ignore=()):
    """everything `==` looks at besides the node's children and its own tags, by reflection"""
    import dataclasses

    from pytato.array import DataWrapper, DictOfNamedArrays
    from pytato.function import FunctionDefinition
    if isinstance(n, DataWrapper) and "@dw-by-buffer" in ignore and isinstance(n.data, np.ndarray):
        # the view of deduplicate_data_wrappers: two wrappers denote the same input iff they wrap the same
        # memory with the same layout
        d = n.data
        return ("DataWrapper", d.__array_interface__["data"][0], d.shape, d.strides, str(d.dtype),
                _tok(n.shape), _param_tags(n.tags), _tok(n.axes))
    if isinstance(n, DataWrapper):
        return ("DataWrapper", id(n))            # data wrappers are equal only when identical
    # tag INSTANCES (tags may carry parameters, e.g. FunctionIdentifier) belong to the fingerprint;
    # NodeData.tags lists the tag TYPES only (what TagCountMapper looks at)
    if isinstance(n, DictOfNamedArrays):
        return ("DictOfNamedArrays", tuple(sorted(n._data)), _param_tags(n.tags))
    if isinstance(n, FunctionDefinition):
        return ("FunctionDefinition", n.parameters, n.return_type, tuple(sorted(n.returns)),
                _param_tags(n.tags))
    return (type(n).__name__,) + tuple(
        (f.name, _param_tags(getattr(n, f.name)) if f.name == "tags" else _tok(getattr(n, f.name)))
        for f in dataclasses.fields(n) if f.name != "non_equality_tags" and f.name not in ignore)


def _param_tags(tags):
    """the part of a tag set that the list of tag TYPE names (NodeData.tags) does not capture:
    tags with parameters (e.g. FunctionIdentifier(identifier=…)); parameterless tags are fully
    described by their type name and are left to NodeData.tags (so that the model's relabelling,
    which adds / drops parameterless tags, changes structural equality exactly as in the code)"""
    import dataclasses
    out = []
    for tg in tags:
        if dataclasses.is_dataclass(tg) and not dataclasses.fields(tg):
            continue
        out.append((type(tg).__name__, tg))
    return frozenset(out)


def excl(pairs) -> str:
    """exclusion / inclusion list `((kind class) …)` for the driver"""
    return "(" + " ".join(f"({k} {c})" for k, c in sorted(set(pairs))) + ")"


def atoms(xs) -> str:
    return "(" + " ".join(xs) + ")"


def parse_ids(s: str) -> list[int]:
    s = s.strip()
    assert s.startswith("(") and s.endswith(")"), s
    return [int(x) for x in s[1:-1].split()]


def parse_id_lists(s: str) -> list[list[int]]:
    """`((1 2) () (3))`"""
    s = s.strip()
    assert s.startswith("(") and s.endswith(")"), s
    out, cur, depth = [], None, 0
    tok = ""
    for ch in s[1:-1]:
        if ch == "(":
            cur = []
            tok = ""
        elif ch == ")":
            if tok:
                cur.append(int(tok))
                tok = ""
            out.append(cur)
            cur = None
        elif ch == " ":
            if tok and cur is not None:
                cur.append(int(tok))
            tok = ""
        else:
            tok += ch
    return out

"""Reflective serialisation of a pytato graph for the Lean model of the NumPy-like target
(`(pygen …)` query, lean/PtModel/HandlePyGen.lean).  Never calls pytato's mappers, the raiser
or the generator: node attributes are read off the dataclasses, scalar operands of index
lambdas are annotated by a small structural walk of the expression.

Trusted spellings: the text of a numeric constant's magnitude is taken from
`ast.unparse(ast.Constant(|v|))` (Python's / NumPy's repr); `np.result_type(other.dtype, e)`
is asked of NumPy (promotion oracle)."""
from __future__ import annotations

import ast

import numpy as np
import pymbolic.primitives as prim

from . import reflect, ser

FIXED_NAMES = ("_pt_np", "np", "_pt_kernel")


class Unserialisable(Exception):
    pass


def _q(s: str) -> str:
    if '"' in s or "\n" in s or "\t" in s:
        raise Unserialisable(f"text {s!r}")
    return '"' + s + '"'


def _b(x) -> str:
    return "#t" if x else "#f"


def _shape(shape) -> str:
    return "(" + " ".join(str(int(d)) if isinstance(d, (int, np.integer)) else "?" for d in shape) + ")"


# ------------------------------------------------------------------ scalars

def _is_scalar(x) -> bool:
    return isinstance(x, (bool, int, float, complex, np.generic))


def scalar_form(v) -> str:
    is_np = isinstance(v, np.generic)
    is_bool = isinstance(v, (bool, np.bool_))
    is_cplx = isinstance(v, complex) and not is_np
    with np.errstate(all="ignore"):
        nan = bool(np.isnan(v))
        inf = (not nan) and (not isinstance(v, (complex, np.complexfloating))) and bool(np.isinf(v))
    cls = "nan" if nan else ("posinf" if inf and v > 0 else ("neginf" if inf else "finite"))
    neg = False
    if isinstance(v, (int, float, np.integer, np.floating)) and not is_bool and not nan:
        neg = bool(v < 0) or (isinstance(v, (float, np.floating)) and v == 0 and bool(np.signbit(v)))
    mag = -v if neg else v
    text = "nan" if nan else ast.unparse(ast.Constant(mag))
    dtname = np.array(v).dtype.name if is_np else "-"
    return f"({_b(is_np)} {_b(is_cplx)} {_b(isinstance(v, np.floating))} {_b(is_bool)} {dtname} {cls} {_b(neg)} {_q(text)})"


def drop_casts(e):
    """independent re-implementation of `TypeCastDropper` for the operand walk"""
    from pytato.scalar_expr import TypeCast
    if isinstance(e, TypeCast):
        return drop_casts(e.inner_expr)
    return e


def top_operands(inner):
    """the operand expressions of the outermost operation (after dropping casts around them)"""
    if _is_scalar(inner) or _nan_fill(inner):
        # a fill: `pt.full(shape, c)`; a pymbolic NaN node (of an inexact type) is `pt.full(shape, nan)`
        return [inner]
    if isinstance(inner, (prim.Quotient, prim.FloorDiv, prim.Remainder)):
        ops = [inner.numerator, inner.denominator]
    elif isinstance(inner, prim.Power):
        ops = [inner.base, inner.exponent]
    elif isinstance(inner, prim.Comparison):
        ops = [inner.left, inner.right]
    elif isinstance(inner, prim.If):
        ops = [inner.condition, inner.then, inner.else_]
    elif isinstance(inner, prim.Call):
        ops = list(inner.parameters)
    elif isinstance(inner, prim.LogicalNot):
        ops = [inner.child]
    elif isinstance(inner, (prim.Sum, prim.Product, prim.LogicalAnd, prim.LogicalOr, prim.BitwiseAnd,
                            prim.BitwiseOr, prim.BitwiseXor, prim.Min, prim.Max)):
        ops = list(inner.children)
        if isinstance(inner, prim.Sum) and len(ops) == 2:
            second = drop_casts(ops[1])
            if isinstance(second, prim.Product) and len(second.children) == 2 \
                    and _is_scalar(second.children[0]) and second.children[0] == -1:
                ops = [ops[0], second.children[1]]
    else:
        return []
    return [drop_casts(o) for o in ops]


def _nan_fill(o) -> bool:
    """a NaN node the raiser takes as a scalar: untyped or typed with an inexact type"""
    return isinstance(o, prim.NaN) and (o.data_type is None or np.issubdtype(o.data_type, np.inexact))


def _scalar_value(o):
    if isinstance(o, prim.NaN):
        return o.data_type(float("nan")) if o.data_type else np.nan
    return o


def lit_annotations(il) -> str | None:
    """`(<lit>…)` for the scalar operands of the index lambda; None = ambiguous (one literal value
    spelled in two ways inside one expression)"""
    inner = drop_casts(il.expr)
    ops = top_operands(inner)
    try:
        scalars = [(k, _scalar_value(o)) for k, o in enumerate(ops) if _is_scalar(o) or _nan_fill(o)]
    except (ValueError, OverflowError, TypeError):
        # e.g. a NaN node typed with an integer dtype: `np.int32(nan)` has no value (the raiser fails alike)
        return None
    arrays = []
    for k, o in enumerate(ops):
        nm = o.name if isinstance(o, prim.Variable) else (
            o.aggregate.name if isinstance(o, prim.Subscript) and isinstance(o.aggregate, prim.Variable) else None)
        if nm is not None and nm in il.bindings:
            arrays.append((k, il.bindings[nm]))
    out: dict[str, str] = {}
    for k, v in scalars:
        key = ser.const(v) if not isinstance(v, float) or v == v else "(nan)"
        rt = "#none"
        typed = "#none"
        if len(ops) == 2 and len(arrays) == 1 and len(scalars) == 1:
            other = arrays[0][1]
            try:
                with np.errstate(all="ignore"):
                    r = np.result_type(other.dtype, v)
                rt = f"({r.name} {r.kind})"
            except Exception:   # noqa: BLE001
                rt = "#none"
            try:
                with np.errstate(all="ignore"):
                    typed = scalar_form(il.dtype.type(v))
            except Exception:   # noqa: BLE001
                typed = "#none"
        ann = f"({key} {scalar_form(v)} {rt} {typed})"
        if key in out and out[key] != ann:
            return None
        out[key] = ann
    return "(" + " ".join(out.values()) + ")"


# ------------------------------------------------------------------ nodes

def serialise(root) -> tuple[str, dict]:
    """-> (`(pygen …)` query, info)"""
    from pytato.array import (
        AxisPermutation, BasicIndex, Concatenate, CSRMatmul, DataWrapper, DictOfNamedArrays, Einsum,
        EinsumElementwiseAxis, EinsumReductionAxis, IndexBase, IndexLambda, NamedArray, NormalizedSlice,
        Placeholder, Reshape, Roll, SizeParam, Stack)
    nodes = list(reflect.walk(root, into_functions=False))
    index = {id(n): i for i, n in enumerate(nodes)}
    out = []
    kinds: dict[str, int] = {}

    def cid(x):
        return index[id(x)]
    for n in nodes:
        kinds[type(n).__name__] = kinds.get(type(n).__name__, 0) + 1
        t = type(n)
        if t is Placeholder:
            out.append(f"(ph {ser.name(n.name)} {_shape(n.shape)})")
        elif t is DataWrapper:
            out.append(f"(dw {ser.name(n.name) if n.name is not None else '#none'} {_shape(n.shape)})")
        elif t is SizeParam:
            out.append(f"(sp {ser.name(n.name)})")
        elif t is IndexLambda:
            try:
                lits = lit_annotations(n)
                expr = ser.sexpr(n.expr)
            except (ser.SerError, Unserialisable):
                lits = expr = None
            if lits is None:
                out.append("(other IndexLambda-unserialisable)")
                continue
            binds = " ".join(f"({ser.name(k)} {cid(v)})" for k, v in sorted(n.bindings.items()))
            dt = n.dtype
            out.append(f"(il ({dt.name} {dt.type.__name__} {dt.kind}) {_shape(n.shape)} {expr} ({binds}) {lits})")
        elif t is Roll:
            out.append(f"(roll {cid(n.array)} {int(n.shift)} {int(n.axis)} {_shape(n.shape)})")
        elif t is AxisPermutation:
            out.append(f"(perm {cid(n.array)} ({' '.join(str(int(a)) for a in n.axis_permutation)}) {_shape(n.shape)})")
        elif t is Reshape:
            out.append(f"(reshape {cid(n.array)} {n.order} {_shape(n.shape)})")
        elif t is Stack:
            out.append(f"(stack ({' '.join(str(cid(a)) for a in n.arrays)}) {int(n.axis)} {_shape(n.shape)})")
        elif t is Concatenate:
            out.append(f"(concat ({' '.join(str(cid(a)) for a in n.arrays)}) {int(n.axis)} {_shape(n.shape)})")
        elif isinstance(n, IndexBase):
            ix = []
            ok = True
            for i_ in n.indices:
                if isinstance(i_, (int, np.integer)):
                    ix.append(f"(int {int(i_)})")
                elif isinstance(i_, NormalizedSlice):
                    if not all(isinstance(p, (int, np.integer)) for p in (i_.start, i_.stop, i_.step)):
                        ok = False
                        break
                    ix.append(f"(slice {int(i_.start)} {int(i_.stop)} {int(i_.step)})")
                else:
                    ix.append(f"(arr {cid(i_)})")
            if not ok:
                out.append("(other symbolic-slice)")
            else:
                kw = "indexnc" if type(n).__name__ == "AdvancedIndexInNoncontiguousAxes" else "index"
                out.append(f"({kw} {cid(n.array)} ({' '.join(ix)}) {_shape(n.shape)})")
        elif t is Einsum:
            ds = []
            for acc in n.access_descriptors:
                ds.append("(" + " ".join(
                    f"(e {a.dim})" if isinstance(a, EinsumElementwiseAxis) else f"(r {a.dim})" for a in acc) + ")")
            out.append(f"(einsum ({' '.join(ds)}) ({' '.join(str(cid(a)) for a in n.args)}) {_shape(n.shape)})")
        elif t is NamedArray and isinstance(n._container, DictOfNamedArrays):
            out.append(f"(alias {cid(n._container._data[n.name])} {_shape(n.shape)})")
        elif t is DictOfNamedArrays:
            out.append("(dict (" + " ".join(f"({ser.name(k)} {cid(v)})" for k, v in n._data.items()) + "))")
        elif t is CSRMatmul:
            out.append("(refused CSRMatmul)")
        else:
            out.append(f"(other {t.__name__})")
    names = {n.name for n in nodes if isinstance(n, (Placeholder, SizeParam, DataWrapper)) and n.name is not None}
    if isinstance(root, DictOfNamedArrays):
        names |= set(root._data)
    names |= set(FIXED_NAMES)
    q = f"(pygen ({' '.join(out)}) {index[id(root)]} ({' '.join(ser.name(x) for x in sorted(names))}))"
    return q, {"nodes": len(nodes), "kinds": kinds}


def real_body(program: str) -> tuple[list[str], list[str]]:
    """(keyword-only argument names, body lines) of the generated module text"""
    lines = program.split("\n")
    k = next(i for i, ln in enumerate(lines) if ln.startswith("def _pt_kernel("))
    head = lines[k]
    inside = head[head.index("(") + 1:head.rindex(")")]
    args = [a.strip() for a in inside.split(",") if a.strip() and a.strip() != "*"]
    body = [ln.strip() for ln in lines[k + 1:] if ln.strip()]
    return args, body


def parse_model(ans: str):
    """-> ('program', args, body, fragment: 'yes' | 'no <kinds>' | None) | ('refuse', why) | ('unmodelled', why) | ('error', text)"""
    if not ans.startswith("ok "):
        return ("error", ans)
    a = ans[3:]
    if a.startswith("program "):
        parts = a.split("\t")
        args = [x for x in parts[0][len("program "):].split(",") if x]
        body = parts[1:]
        frag = None
        if body and body[-1].startswith("#fragment "):
            frag = body[-1][len("#fragment "):]
            body = body[:-1]
        return ("program", args, body, frag)
    if a.startswith("refuse "):
        return ("refuse", a[7:])
    if a.startswith("unmodelled "):
        return ("unmodelled", a[11:])
    return ("error", a)

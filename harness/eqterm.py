"""Reflective serialisation of pytato graphs into the term model of
lean/PtModel/Eq.lean (properties C04, C18), plus a reflective rebuild/copy.

Independent of pytato's mappers, of `__eq__`/`__hash__` of nodes and of the key
builder: nodes are walked through `dataclasses.fields`, objects are numbered by
`id()` (sharing and identity are part of the serialised heap).

One node = (kind, attrs, kids):
  attrs  [(field, canonical string)]  — scalar part of every dataclass field; an
         array-valued component appears as the hole `@`
  kids   [(field, [child objects])]   — array-valued components of the field, in order
Every dataclass field contributes one entry to both lists (so the field skeleton
is a function of the kind).  Expansions (the field itself is replaced by dotted
pseudo-fields, mirroring how `EqualityComparer` looks *into* these values):
  CSRMatmul.matrix            -> matrix.<f> for every dataclass field f of the CSRMatrix
  DistributedSendRefHolder.send -> send.<f> for every dataclass field f of the DistributedSend
  DataWrapper.data            -> data.contents (sha256 of the bytes), data.dtype, data.shape
and DataWrapper gets `#id` (object number: the documented identity semantics).
Mappings are canonicalised by sorted key (insertion order is not structure)."""
from __future__ import annotations

import dataclasses
import enum
import hashlib
from collections.abc import Mapping
from typing import Any

import numpy as np

from . import reflect


class SerError(Exception):
    pass


def _is_node(x) -> bool:
    from pytato.array import AbstractResultWithNamedArrays, Array
    from pytato.distributed.nodes import DistributedSend
    from pytato.function import FunctionDefinition
    return isinstance(x, (Array, AbstractResultWithNamedArrays, FunctionDefinition, DistributedSend))


def kind_of(node) -> str:
    return type(node).__name__


_tu_keys: dict[int, tuple[Any, str]] = {}


def _tu_key(tu) -> str:
    """loopy translation units are opaque to the model: identified by loopy's own
    persistent key (stable across processes)"""
    ent = _tu_keys.get(id(tu))
    if ent is None or ent[0] is not tu:
        from loopy.tools import LoopyKeyBuilder
        ent = (tu, LoopyKeyBuilder()(tu))
        _tu_keys[id(tu)] = ent
    return ent[1]


def canon(v, kids: list | None) -> str:
    """canonical, process-independent string of a field value; array-valued
    components are appended to `kids` and rendered as `@`"""
    import pymbolic.primitives as prim
    from pytools.tag import Tag
    if _is_node(v):
        if kids is None:
            raise SerError("array inside an unordered container")
        kids.append(v)
        return "@"
    if v is None:
        return "None"
    if isinstance(v, (bool, np.bool_)):
        return f"b:{bool(v)}"
    if isinstance(v, (int, np.integer)):
        return f"i:{int(v)}"
    if isinstance(v, (float, np.floating)):
        return "f:" + float(v).hex()
    if isinstance(v, (complex, np.complexfloating)):
        c = complex(v)
        return f"c:{c.real.hex()},{c.imag.hex()}"
    if isinstance(v, str):
        return "s:" + repr(v)
    if isinstance(v, bytes):
        return "y:" + v.hex()
    if isinstance(v, np.dtype):
        return "dt:" + v.str
    if isinstance(v, enum.Enum):
        return f"E:{type(v).__qualname__}.{v.name}"
    if isinstance(v, type):
        return f"T:{v.__module__}.{v.__qualname__}"
    if isinstance(v, (tuple, list)):
        return "(" + ",".join(canon(x, kids) for x in v) + ")"
    if isinstance(v, (frozenset, set)):
        return "{" + ",".join(sorted(canon(x, None) for x in v)) + "}"
    if isinstance(v, Mapping):
        items = sorted(v.items(), key=lambda kv: canon(kv[0], None))
        return "{" + ",".join(f"{canon(k, None)}:{canon(x, kids)}" for k, x in items) + "}"
    if isinstance(v, np.ndarray):
        a = np.ascontiguousarray(v)
        return f"nd:{a.dtype.str}:{a.shape}:{hashlib.sha256(a.tobytes()).hexdigest()[:32]}"
    try:
        import loopy as lp
        if isinstance(v, lp.TranslationUnit):
            return "tu:" + _tu_key(v)
    except ImportError:      # pragma: no cover
        pass
    from pytato.reductions import ReductionOperation
    if isinstance(v, ReductionOperation):
        return f"redop:{type(v).__qualname__}"
    if dataclasses.is_dataclass(v) and not isinstance(v, type):
        # Axis, ReductionDescriptor, NormalizedSlice, einsum axis descriptors, tags,
        # pymbolic expression nodes
        mod = "" if isinstance(v, prim.ExpressionNode) else type(v).__module__ + "."
        inner = ",".join(f"{f.name}={canon(getattr(v, f.name), kids)}" for f in dataclasses.fields(v))
        return f"{mod}{type(v).__qualname__}({inner})"
    if isinstance(v, Tag):
        inner = ",".join(f"{k}={canon(x, None)}" for k, x in sorted(vars(v).items()))
        return f"{type(v).__module__}.{type(v).__qualname__}[{inner}]"
    raise SerError(f"cannot canonicalise a {type(v).__module__}.{type(v).__qualname__}")


def _expand(node, fname: str, v):
    """yield (pseudo-field name, value) for a dataclass field"""
    from pytato.array import DataWrapper, SparseMatrix
    from pytato.distributed.nodes import DistributedSend, DistributedSendRefHolder
    if isinstance(v, SparseMatrix):
        for g in dataclasses.fields(v):
            yield f"{fname}.{g.name}", getattr(v, g.name)
        return
    if isinstance(node, DistributedSendRefHolder) and isinstance(v, DistributedSend):
        for g in dataclasses.fields(v):
            yield f"{fname}.{g.name}", getattr(v, g.name)
        return
    if isinstance(node, DataWrapper) and fname == "data":
        if not isinstance(v, (np.ndarray, np.generic)):
            raise SerError(f"wrapped data of type {type(v).__name__}")
        a = np.ascontiguousarray(v) if isinstance(v, np.ndarray) else np.asarray(v)
        yield "data.contents", hashlib.sha256(a.tobytes()).hexdigest()[:32]
        yield "data.dtype", a.dtype
        yield "data.shape", tuple(int(d) for d in a.shape)
        return
    yield fname, v


def node_fields(node) -> list[str]:
    """the (pseudo-)field names of a node, in serialisation order"""
    return [nm for nm, _, _ in node_parts(node)]


def node_parts(node) -> list[tuple[str, str, list]]:
    """[(field, canonical attr string, [child objects])] for one node"""
    from pytato.array import DataWrapper
    if not dataclasses.is_dataclass(node):
        raise SerError(f"not a dataclass node: {type(node)}")
    out = []
    for f in dataclasses.fields(node):
        v = getattr(node, f.name)
        for nm, pv in _expand(node, f.name, v):
            kids: list = []
            out.append((nm, canon(pv, kids), kids))
    if isinstance(node, DataWrapper):
        out.append(("#id", None, []))      # filled in by the heap (object number)
    return out


def _wire_val(s: str) -> str:
    if len(s) <= 72 and '"' not in s and "\n" not in s and "\r" not in s and "\\" not in s:
        return "r:" + s
    return "h:" + hashlib.sha256(s.encode()).hexdigest()[:40]


def _atom(s: str) -> str:
    if not s or any(c in s for c in ' ()"\t\n'):
        raise SerError(f"field or kind name not an atom: {s!r}")
    return s


class HeapSer:
    """several roots -> one heap (post-order, objects numbered by identity)"""

    def __init__(self, check_reflect=True):
        self.index: dict[int, int] = {}
        self.nodes: list[tuple[str, list, list]] = []   # (kind, [(f, val)], [(f, [idx])])
        self.objs: list[Any] = []                       # keeps ids alive
        self.sizes: list[int] = []                      # tree-unfolding sizes
        self.check_reflect = check_reflect
        self.reflect_mismatch: list[str] = []
        self.kind_count: dict[str, int] = {}

    def add(self, root) -> int:
        import sys
        old = sys.getrecursionlimit()
        sys.setrecursionlimit(max(old, 20000))
        try:
            return self._add(root)
        finally:
            sys.setrecursionlimit(old)

    def _add(self, node) -> int:
        i = self.index.get(id(node))
        if i is not None:
            return i
        parts = node_parts(node)
        if self.check_reflect:
            mine = sorted(id(c) for _, _, ks in parts for c in ks)
            theirs = sorted(id(c) for _, c in reflect.children(node, into_functions=True))
            if mine != theirs:
                self.reflect_mismatch.append(kind_of(node))
        kid_idx = [(nm, [self._add(c) for c in ks]) for nm, _, ks in parts]
        i = len(self.nodes)
        attrs = [(nm, _wire_val(f"obj{i}" if nm == "#id" else s)) for nm, s, _ in parts]
        self.index[id(node)] = i
        self.objs.append(node)
        k = kind_of(node)
        self.kind_count[k] = self.kind_count.get(k, 0) + 1
        self.nodes.append((k, attrs, kid_idx))
        self.sizes.append(1 + sum(self.sizes[c] for _, cs in kid_idx for c in cs))
        return i

    def wire(self) -> str:
        out = []
        for k, attrs, kids in self.nodes:
            a = " ".join(f'({_atom(f)} "{v}")' for f, v in attrs)
            c = " ".join(f"({_atom(f)} ({' '.join(map(str, cs))}))" for f, cs in kids)
            out.append(f"({_atom(k)} ({a}) ({c}))")
        return "(" + " ".join(out) + ")"


def tbl_wire(tbl: dict[str, list[str]]) -> str:
    return "(" + " ".join(f"({_atom(k)} ({' '.join(_atom(f) for f in fs)}))"
                          for k, fs in sorted(tbl.items())) + ")"


def cmp_query(tbls: list[dict[str, list[str]]], a, b, check_reflect=True):
    """the `(eq cmp …)` query for the pair (a, b) serialised into one heap;
    returns (query text, HeapSer, index of a, index of b)"""
    hs = HeapSer(check_reflect=check_reflect)
    i = hs.add(a)
    j = hs.add(b)
    q = f"(eq cmp ({' '.join(tbl_wire(t) for t in tbls)}) {hs.wire()} {i} {j})"
    return q, hs, i, j


def parse_cmp_answer(ans: str, ntbl: int):
    """'ok #t 1111 0000' -> (wf, [ {struct, semeq, enc, memo} … ]) or None"""
    parts = ans.split()
    if len(parts) != 2 + ntbl or parts[0] != "ok":
        return None
    cols = []
    for p in parts[2:]:
        if len(p) != 4 or set(p) - {"0", "1"}:
            return None
        cols.append({"struct": p[0] == "1", "semeq": p[1] == "1", "enc": p[2] == "1",
                     "memo": p[3] == "1"})
    return parts[1] == "#t", cols


# --------------------------------------------------------------------------
# reflective copy / substitution
# --------------------------------------------------------------------------

def rebuild(root, subst: dict[int, Any] | None = None, fresh=True, share_data=True, post=None):
    """A structurally identical graph.  `subst` maps id(old node) -> replacement
    node (used as is).  fresh=True: every node is a new object (data wrappers are
    kept when share_data, since they compare by identity); fresh=False: only
    the ancestors of replaced nodes are new objects.  Sharing is preserved."""
    from constantdict import constantdict
    from pytato.array import DataWrapper, DictOfNamedArrays, NormalizedSlice, SparseMatrix
    subst = subst or {}
    memo: dict[int, Any] = {}
    keep: list = []

    def map_value(v):
        if _is_node(v):
            return rec(v)
        if isinstance(v, tuple):
            new = tuple(map_value(x) for x in v)
            return v if all(a is b for a, b in zip(new, v)) else new
        if isinstance(v, Mapping):
            new = {k: map_value(x) for k, x in v.items()}
            if all(new[k] is v[k] for k in v):
                return v
            return constantdict(new)
        if isinstance(v, (SparseMatrix, NormalizedSlice)):
            ch = {}
            for g in dataclasses.fields(v):
                old = getattr(v, g.name)
                nv = map_value(old)
                if nv is not old:
                    ch[g.name] = nv
            if ch or (fresh and isinstance(v, SparseMatrix)):
                return dataclasses.replace(v, **ch)
            return v
        return v

    def rec(node):
        if id(node) in subst:
            return subst[id(node)]
        r = memo.get(id(node))
        if r is not None:
            return r
        keep.append(node)
        if isinstance(node, DictOfNamedArrays):
            data = map_value(node._data)
            if data is node._data and not fresh:
                r = node
            else:
                r = DictOfNamedArrays(constantdict(data) if data is node._data else data,
                                      tags=node.tags)
        else:
            ch = {}
            for f in dataclasses.fields(node):
                old = getattr(node, f.name)
                nv = map_value(old)
                if nv is not old:
                    ch[f.name] = nv
            if isinstance(node, DataWrapper) and share_data and not ch:
                r = node
            elif set(ch) == {"_container"} and _canonical_member(node, ch["_container"]) is not None:
                # a named result of a new container: the container's own (memoised) member object,
                # as every pytato mapper would produce it
                r = _canonical_member(node, ch["_container"])
            elif ch or fresh:
                r = dataclasses.replace(node, **ch)
            else:
                r = node
        if post is not None:
            r = post(node, r)       # bottom-up hook: (original node, its copy) -> replacement
        memo[id(node)] = r
        return r

    import sys
    old = sys.getrecursionlimit()
    sys.setrecursionlimit(max(old, 20000))
    try:
        return rec(root)
    finally:
        sys.setrecursionlimit(old)


def _canonical_member(node, container):
    """container[node.name] if that is field-for-field what `node` would become, else None"""
    try:
        cand = container[node.name]
    except Exception:
        return None
    if type(cand) is not type(node):
        return None
    for f in dataclasses.fields(node):
        if f.name == "_container":
            continue
        if getattr(cand, f.name) != getattr(node, f.name):
            return None
    return cand


def all_nodes(root) -> list[Any]:
    """distinct objects reachable from root (post-order), incl. function bodies
    and DistributedSend nodes, by the same field walk as the serialiser"""
    seen: set[int] = set()
    out: list[Any] = []

    def rec(n):
        if id(n) in seen:
            return
        seen.add(id(n))
        for _, _, ks in node_parts(n):
            for c in ks:
                rec(c)
        # a DistributedSend held by a ref holder is expanded into the holder, but it
        # is an object with its own hash cache: visit it too
        from pytato.distributed.nodes import DistributedSendRefHolder
        if isinstance(n, DistributedSendRefHolder):
            if id(n.send) not in seen:
                seen.add(id(n.send))
                out.append(n.send)
        out.append(n)
    import sys
    old = sys.getrecursionlimit()
    sys.setrecursionlimit(max(old, 20000))
    try:
        rec(root)
    finally:
        sys.setrecursionlimit(old)
    return out

"""Read back the loopy kernel pytato generated (translation validation): a
structural IR of its statements, a serialisation for the Lean kernel model
(`Pt.Kernel` in ptdriver) and an independent Python interpreter with bounds
checking (oracle for C01 / C07 / C11 / C15).

Semantics assumed of loopy (recorded in the trusted base): instructions may
execute in any order consistent with `depends_on`; an iname is one sequential
loop shared by exactly the instructions that name it in `within_inames`; a
Reduction is a fold over its iname's range; substitution rules are macros.
pytato's kernels have a rigid shape: one store per array over its own box of
inames, optionally preceded (same inames) by assignments to private scalar
temporaries holding its reduction bounds.  Any kernel that does not fit is a
hard error (`KernelShapeError`), never silently approximated."""
from __future__ import annotations

import itertools
from dataclasses import dataclass, field
from typing import Any

import numpy as np
import pymbolic.primitives as prim

from . import ser


class KernelShapeError(Exception):
    pass


@dataclass
class KStmt:
    id: str
    lhs: str
    lhs_index: list          # loopy expressions
    inames: list             # ordered loop inames (outer..inner), without reduction inames
    lets: list               # [(scalar temp name, expr, id)] evaluated per iteration before rhs
    rhs: Any
    deps: list               # ids of other KStmts (lets' deps merged, intra-group deps removed)
    noop: bool = False


@dataclass
class KernelIR:
    args: list               # (name, kind 'array'|'value', shape exprs|None, dtype str|None, is_output)
    temps: list              # (name, shape exprs, dtype str, address space str)
    stmts: list[KStmt]
    bounds: dict             # iname -> (lo expr, hi expr exclusive)
    substs: dict             # name -> (arg names, expr)
    names: dict              # categories of names for C15


def _redop_name(op) -> str:
    s = op if isinstance(op, str) else type(op).__name__
    s = s.replace("ReductionOperation", "").lower()
    return {"product": "prod", "sum": "sum", "max": "max", "min": "min", "all": "all", "any": "any"}[s]


def extract(t_unit) -> KernelIR:
    import loopy as lp
    from loopy.symbolic import pw_aff_to_expr
    knl = t_unit.default_entrypoint
    args = []
    for a in knl.args:
        if isinstance(a, lp.ValueArg):
            args.append((a.name, "value", None, str(a.dtype.numpy_dtype) if a.dtype is not None else None, False))
        else:
            args.append((a.name, "array", tuple(a.shape), str(a.dtype.numpy_dtype), bool(a.is_output)))
    temps = [(n, tuple(tv.shape), str(tv.dtype.numpy_dtype), str(tv.address_space))
             for n, tv in knl.temporary_variables.items()]
    bounds = {}
    from loopy.diagnostic import LoopyError
    for iname in sorted(knl.all_inames()):
        try:
            b = knl.get_iname_bounds(iname)
        except LoopyError as e:
            if "is empty" in str(e):
                bounds[iname] = (0, 0)     # empty domain: the loop never runs
                continue
            raise
        lo = pw_aff_to_expr(b.lower_bound_pw_aff)
        hi = pw_aff_to_expr(b.upper_bound_pw_aff)
        bounds[iname] = (lo, hi + 1)
    substs = {n: (tuple(r.arguments), r.expression) for n, r in knl.substitutions.items()}
    scalar_temps = {n for n, shp, _, _ in temps if shp == ()}
    # classify instructions
    insns = list(knl.instructions)
    by_id = {i.id: i for i in insns}
    let_insns = {}
    main = []
    for ins in insns:
        if isinstance(ins, lp.NoOpInstruction):
            main.append(ins)
            continue
        if not isinstance(ins, lp.Assignment):
            raise KernelShapeError(f"unexpected instruction type {type(ins).__name__}")
        if len(ins.assignees) != 1:
            raise KernelShapeError("multi-assignee instruction")
        lhs = ins.assignee
        if isinstance(lhs, prim.Variable) and lhs.name in scalar_temps and ins.within_inames:
            let_insns[lhs.name] = ins
        else:
            main.append(ins)
    stmts = []
    let_owner = {}
    for ins in main:
        if isinstance(ins, lp.NoOpInstruction):
            stmts.append(KStmt(ins.id, "", [], [], [], 0, sorted(ins.depends_on), noop=True))
            continue
        lhs = ins.assignee
        if isinstance(lhs, prim.Subscript):
            name = lhs.aggregate.name
            idx = list(lhs.index if isinstance(lhs.index, tuple) else (lhs.index,))
        elif isinstance(lhs, prim.Variable):
            name, idx = lhs.name, []
        else:
            raise KernelShapeError(f"unexpected assignee {lhs!r}")
        red = set(ins.reduction_inames())
        loop_inames = [i for i in _ordered_inames(idx, ins.within_inames) if i not in red]
        # lets: scalar temps read by this instruction (incl. through reduction bounds) sharing its inames
        used = _variables(ins.expression, substs) | {v for e in idx for v in _variables(e, substs)}
        for r in red:
            lo, hi = bounds[r]
            used |= _variables(lo, substs) | _variables(hi, substs)
        lets = []
        for nm in sorted(used & set(let_insns)):
            li = let_insns[nm]
            if frozenset(li.within_inames) != frozenset(ins.within_inames) - red:
                raise KernelShapeError(f"scalar temporary {nm} does not share the loop nest of its reader {ins.id}")
            if nm in let_owner and let_owner[nm] != ins.id:
                raise KernelShapeError(f"scalar temporary {nm} read by two stores")
            let_owner[nm] = ins.id
            lets.append((nm, li.expression, li.id))
        let_ids = {lid for _, _, lid in lets}
        deps = set(ins.depends_on)
        for _, _, lid in lets:
            if lid not in deps:
                raise KernelShapeError(f"{ins.id} reads a bound temporary without depending on {lid}")
            deps |= set(by_id[lid].depends_on)
        deps -= let_ids
        stmts.append(KStmt(ins.id, name, idx, loop_inames, lets, ins.expression, sorted(deps)))
    orphan = set(let_insns) - set(let_owner)
    if orphan:
        raise KernelShapeError(f"scalar temporaries never read: {sorted(orphan)}")
    names = {
        "args": [a[0] for a in args],
        "temps": [t[0] for t in temps],
        "inames": sorted(knl.all_inames()),
        "insn_ids": [i.id for i in insns],
        "substs": sorted(substs),
    }
    return KernelIR(args, temps, stmts, bounds, substs, names)


def _writer_counts(knl) -> dict:
    cnt: dict = {}
    for ins in knl.instructions:
        try:
            names = set(ins.assignee_var_names())
        except Exception:   # noqa: BLE001
            names = set()
        for n in names:
            cnt[n] = cnt.get(n, 0) + 1
    return cnt


def kernel_names(t_unit) -> dict:
    """the identifier categories of the entry kernel, read straight off the loopy objects (works for every kernel,
    also those `extract` does not interpret, e.g. kernels with call instructions)"""
    knl = t_unit.default_entrypoint
    return {
        "args": [a.name for a in knl.args],
        "temps": list(knl.temporary_variables),
        "inames": sorted(knl.all_inames()),
        "insn_ids": [i.id for i in knl.instructions],
        "substs": sorted(knl.substitutions),
        # variables written by more than one instruction (pytato's kernels are single-assignment: two writers
        # of one name are two objects merged under that name)
        "multi_writers": sorted(n for n, c in _writer_counts(knl).items() if c > 1),
        "callees": sorted(n for n in t_unit.callables_table if n != knl.name and n in getattr(t_unit, "callables_table", {})
                          and type(t_unit.callables_table[n]).__name__ == "CallableKernel"),
    }


def _ordered_inames(idx, within):
    """loop order: as the inames appear in the store index, then the rest sorted"""
    out = []
    for e in idx:
        for v in sorted(_variables(e, {})):
            if v in within and v not in out:
                out.append(v)
    for v in sorted(within):
        if v not in out:
            out.append(v)
    return out


def _variables(e, substs) -> set:
    """all variable names occurring in a loopy expression (substitution rules expanded)"""
    from loopy.symbolic import Reduction, TypeCast
    out: set = set()

    def rec(x):
        if isinstance(x, prim.Variable):
            if x.name in substs and not substs[x.name][0]:
                rec(substs[x.name][1])
            else:
                out.add(x.name)
        elif isinstance(x, prim.Subscript):
            rec(x.aggregate)
            for i in (x.index if isinstance(x.index, tuple) else (x.index,)):
                rec(i)
        elif isinstance(x, (prim.Sum, prim.Product, prim.LogicalAnd, prim.LogicalOr, prim.BitwiseAnd,
                            prim.BitwiseOr, prim.BitwiseXor, prim.Min, prim.Max)):
            for c in x.children:
                rec(c)
        elif isinstance(x, (prim.Quotient, prim.FloorDiv, prim.Remainder)):
            rec(x.numerator)
            rec(x.denominator)
        elif isinstance(x, prim.Power):
            rec(x.base)
            rec(x.exponent)
        elif isinstance(x, prim.Comparison):
            rec(x.left)
            rec(x.right)
        elif isinstance(x, (prim.LogicalNot, prim.BitwiseNot)):
            rec(x.child)
        elif isinstance(x, prim.If):
            rec(x.condition)
            rec(x.then)
            rec(x.else_)
        elif isinstance(x, prim.Call):
            if isinstance(x.function, prim.Variable) and x.function.name in substs:
                rec(substs[x.function.name][1])
            for a in x.parameters:
                rec(a)
        elif isinstance(x, Reduction):
            rec(x.expr)
        elif isinstance(x, TypeCast):
            rec(x.child)
    rec(e)
    return out


# ------------------------------------------------------------------ serialisation

def kexpr(e, ir: KernelIR) -> str:
    """loopy expression -> s-expression (substitution rules expanded, reductions with explicit bounds)"""
    from loopy.symbolic import Reduction, TypeCast

    def rec(x, env=None):
        env = env or {}
        if isinstance(x, (bool, np.bool_, int, np.integer, float, np.floating, complex, np.complexfloating)):
            return ser.const(x)
        if isinstance(x, prim.Variable):
            if x.name in env:
                return env[x.name]
            if x.name in ir.substs and not ir.substs[x.name][0]:
                return rec(ir.substs[x.name][1], env)     # zero-argument substitution rule
            return f"(var {ser.name(x.name)})"
        if isinstance(x, prim.Subscript):
            idx = x.index if isinstance(x.index, tuple) else (x.index,)
            return "(sub " + " ".join([ser.name(x.aggregate.name)] + [rec(i, env) for i in idx]) + ")"
        if isinstance(x, prim.Sum):
            return ser._fold("add", [rec(c, env) for c in x.children])
        if isinstance(x, prim.Product):
            return ser._fold("mul", [rec(c, env) for c in x.children])
        if isinstance(x, prim.Quotient):
            return f"(quot {rec(x.numerator, env)} {rec(x.denominator, env)})"
        if isinstance(x, prim.FloorDiv):
            return f"(fdiv {rec(x.numerator, env)} {rec(x.denominator, env)})"
        if isinstance(x, prim.Remainder):
            return f"(rem {rec(x.numerator, env)} {rec(x.denominator, env)})"
        if isinstance(x, prim.Power):
            return f"(pow {rec(x.base, env)} {rec(x.exponent, env)})"
        if isinstance(x, prim.Comparison):
            return f"(cmp {x.operator} {rec(x.left, env)} {rec(x.right, env)})"
        if isinstance(x, prim.LogicalAnd):
            return ser._fold("and", [rec(c, env) for c in x.children])
        if isinstance(x, prim.LogicalOr):
            return ser._fold("or", [rec(c, env) for c in x.children])
        if isinstance(x, prim.LogicalNot):
            return f"(not {rec(x.child, env)})"
        if isinstance(x, prim.If):
            return f"(if {rec(x.condition, env)} {rec(x.then, env)} {rec(x.else_, env)})"
        if isinstance(x, prim.NaN):
            return "(nan)"
        if isinstance(x, (prim.BitwiseAnd, prim.BitwiseOr, prim.BitwiseXor)):
            tag = {prim.BitwiseAnd: "bitand", prim.BitwiseOr: "bitor", prim.BitwiseXor: "bitxor"}[type(x)]
            return "(call " + " ".join([tag] + [rec(a, env) for a in x.children]) + ")"
        if isinstance(x, prim.Call):
            fn = x.function.name
            if fn in ir.substs:
                argn, body = ir.substs[fn]
                if len(argn) != len(x.parameters):
                    raise KernelShapeError(f"substitution rule {fn} arity")
                env2 = dict(env)
                env2.update({a: rec(p, env) for a, p in zip(argn, x.parameters)})
                return rec(body, env2)
            return "(call " + " ".join([ser.name("pytato.c99." + fn)] + [rec(a, env) for a in x.parameters]) + ")"
        if isinstance(x, TypeCast):
            return f"(cast {np.dtype(x.type.numpy_dtype).name} {rec(x.child, env)})"
        if isinstance(x, Reduction):
            body = rec(x.expr, env)
            op = _redop_name(x.operation)
            for iname in reversed(x.inames):
                lo, hi = ir.bounds[iname]
                body = f"(reduce {op} {ser.name(iname)} {rec(lo, env)} {rec(hi, env)} {body})"
            return body
        raise ser.SerError(f"unknown loopy expression class {type(x).__name__}")
    return rec(e)


def to_wire(ir: KernelIR, sizes: dict | None = None) -> str:
    """`(kernel (stmt id lhs (idx…) ((iname lo hi)…) ((let name expr)…) rhs (deps…))…)`"""
    parts = []
    for s in ir.stmts:
        if s.noop:
            parts.append(f"(noop {ser.name(s.id)} ({' '.join(ser.name(d) for d in s.deps)}))")
            continue
        idx = " ".join(kexpr(e, ir) for e in s.lhs_index)
        loops = " ".join(f"({ser.name(i)} {kexpr(ir.bounds[i][0], ir)} {kexpr(ir.bounds[i][1], ir)})"
                         for i in s.inames)
        lets = " ".join(f"({ser.name(n)} {kexpr(e, ir)})" for n, e, _ in s.lets)
        deps = " ".join(ser.name(d) for d in s.deps)
        parts.append(f"(stmt {ser.name(s.id)} {ser.name(s.lhs)} ({idx}) ({loops}) ({lets}) {kexpr(s.rhs, ir)} ({deps}))")
    return "(" + " ".join(parts) + ")"


# ------------------------------------------------------------------ Python interpreter (oracle)

class KInterp:
    """executes a KernelIR on NumPy arrays, statement by statement in a given order,
    recording every out-of-bounds access"""

    def __init__(self, ir: KernelIR, inputs: dict, sizes: dict | None = None):
        self.ir = ir
        self.sizes = dict(sizes or {})
        self.store: dict[str, np.ndarray] = {}
        self.written: set[str] = set()
        self.oob: list = []
        self.uninit_reads: list = []
        for name, kind, shape, dtype, is_out in ir.args:
            if kind == "value":
                if name in inputs:
                    self.sizes[name] = int(inputs[name])
                continue
            shp = tuple(self._dim(d) for d in shape)
            if not is_out:
                if name not in inputs:
                    raise KeyError(f"no input for kernel argument {name}")
                a = np.asarray(inputs[name], dtype=dtype)
                if a.shape != shp:
                    raise ValueError(f"input {name}: shape {a.shape} vs declared {shp}")
                self.store[name] = a
                self.written.add(name)
            else:
                self.store[name] = np.zeros(shp, dtype=dtype)
        for name, shape, dtype, _ in ir.temps:
            self.store[name] = np.zeros(tuple(self._dim(d) for d in shape), dtype=dtype)

    def _dim(self, d):
        if isinstance(d, (int, np.integer)):
            return int(d)
        return int(self.ev(d, {}))

    def ev(self, e, env):
        from loopy.symbolic import Reduction, TypeCast
        if isinstance(e, (bool, np.bool_, int, np.integer, float, np.floating, complex, np.complexfloating)):
            return e
        if isinstance(e, prim.Variable):
            if e.name in env:
                return env[e.name]
            if e.name in self.ir.substs and not self.ir.substs[e.name][0]:
                return self.ev(self.ir.substs[e.name][1], env)     # zero-argument substitution rule
            if e.name in self.sizes:
                return self.sizes[e.name]
            if e.name in self.store and self.store[e.name].shape == ():
                return self.store[e.name][()]
            raise KeyError(f"unbound {e.name}")
        if isinstance(e, prim.Subscript):
            name = e.aggregate.name
            idx = e.index if isinstance(e.index, tuple) else (e.index,)
            iv = tuple(int(self.ev(i, env)) for i in idx)
            a = self.store[name]
            dd = any(_has_sub(i) for i in idx)
            if len(iv) != a.ndim or any(not (0 <= k < n) for k, n in zip(iv, a.shape)):
                self.oob.append((name, iv, dd, "read"))
                return a.dtype.type(0)
            if name not in self.written:
                self.uninit_reads.append(name)
            return a[iv]
        if isinstance(e, prim.Sum):
            r = self.ev(e.children[0], env)
            for c in e.children[1:]:
                r = r + self.ev(c, env)
            return r
        if isinstance(e, prim.Product):
            r = self.ev(e.children[0], env)
            for c in e.children[1:]:
                r = r * self.ev(c, env)
            return r
        with np.errstate(all="ignore"):
            if isinstance(e, prim.Quotient):
                return np.true_divide(self.ev(e.numerator, env), self.ev(e.denominator, env))
            if isinstance(e, prim.FloorDiv):
                return np.floor_divide(self.ev(e.numerator, env), self.ev(e.denominator, env))
            if isinstance(e, prim.Remainder):
                return np.remainder(self.ev(e.numerator, env), self.ev(e.denominator, env))
            if isinstance(e, prim.Power):
                b, x = self.ev(e.base, env), self.ev(e.exponent, env)
                if isinstance(b, (int, np.integer)) and isinstance(x, (int, np.integer)) and x < 0:
                    return np.float64(b) ** x
                return np.power(b, x)
        if isinstance(e, prim.Comparison):
            import operator
            op = {"==": operator.eq, "!=": operator.ne, "<": operator.lt, "<=": operator.le,
                  ">": operator.gt, ">=": operator.ge}[e.operator]
            return bool(op(self.ev(e.left, env), self.ev(e.right, env)))
        if isinstance(e, prim.LogicalAnd):
            return all(bool(self.ev(c, env)) for c in e.children)
        if isinstance(e, prim.LogicalOr):
            return any(bool(self.ev(c, env)) for c in e.children)
        if isinstance(e, prim.LogicalNot):
            return not bool(self.ev(e.child, env))
        if isinstance(e, prim.If):
            return self.ev(e.then, env) if bool(self.ev(e.condition, env)) else self.ev(e.else_, env)
        if isinstance(e, prim.NaN):
            return np.float64("nan")
        if isinstance(e, prim.BitwiseAnd):
            r = self.ev(e.children[0], env)
            for c in e.children[1:]:
                r = r & self.ev(c, env)
            return r
        if isinstance(e, prim.BitwiseOr):
            r = self.ev(e.children[0], env)
            for c in e.children[1:]:
                r = r | self.ev(c, env)
            return r
        if isinstance(e, prim.BitwiseXor):
            r = self.ev(e.children[0], env)
            for c in e.children[1:]:
                r = r ^ self.ev(c, env)
            return r
        if isinstance(e, prim.Call):
            fn = e.function.name
            if fn in self.ir.substs:
                argn, body = self.ir.substs[fn]
                env2 = dict(env)
                env2.update({a: self.ev(p, env) for a, p in zip(argn, e.parameters)})
                return self.ev(body, env2)
            from .ilinterp import _NP_FUNCS
            f = _NP_FUNCS.get(fn)
            if f is None:
                raise KeyError(f"unknown function {fn}")
            with np.errstate(all="ignore"):
                return f(*[self.ev(a, env) for a in e.parameters])
        if isinstance(e, TypeCast):
            with np.errstate(all="ignore"):
                return np.dtype(e.type.numpy_dtype).type(self.ev(e.child, env))
        if isinstance(e, Reduction):
            from .ilinterp import _reduce
            ranges = []
            for iname in e.inames:
                lo, hi = self.ir.bounds[iname]
                ranges.append(range(int(self.ev(lo, env)), int(self.ev(hi, env))))
            vals = []
            for combo in itertools.product(*ranges):
                env2 = dict(env)
                env2.update(zip(e.inames, combo))
                vals.append(self.ev(e.expr, env2))
            op = _redop_name(e.operation)
            return _reduce({"sum": "SumReductionOperation", "prod": "ProductReductionOperation",
                            "max": "MaxReductionOperation", "min": "MinReductionOperation",
                            "all": "AllReductionOperation", "any": "AnyReductionOperation"}[op], vals)
        raise TypeError(f"unknown loopy expression {type(e).__name__}")

    def run_stmt(self, s: KStmt):
        if s.noop:
            return
        ranges = []
        for iname in s.inames:
            lo, hi = self.ir.bounds[iname]
            ranges.append(range(int(self.ev(lo, {})), int(self.ev(hi, {}))))
        a = self.store[s.lhs]
        for combo in itertools.product(*ranges):
            env = dict(zip(s.inames, combo))
            for nm, e, _ in s.lets:
                self.store[nm][()] = self.ev(e, env)
                self.written.add(nm)
            v = self.ev(s.rhs, env)
            iv = tuple(int(self.ev(i, env)) for i in s.lhs_index)
            if len(iv) != a.ndim or any(not (0 <= k < n) for k, n in zip(iv, a.shape)):
                self.oob.append((s.lhs, iv, False, "write"))
                continue
            with np.errstate(all="ignore"):
                a[iv] = v
        self.written.add(s.lhs)

    def run(self, order=None):
        stmts = self.ir.stmts if order is None else [self.ir.stmts[i] for i in order]
        for s in stmts:
            self.run_stmt(s)
        return {name: self.store[name] for name, kind, shape, dtype, is_out in self.ir.args if is_out}


def _has_sub(e) -> bool:
    return any(True for _ in _subscripts(e))


def _subscripts(e):
    from loopy.symbolic import Reduction, TypeCast
    if isinstance(e, prim.Subscript):
        yield e
    elif isinstance(e, (prim.Sum, prim.Product, prim.LogicalAnd, prim.LogicalOr)):
        for c in e.children:
            yield from _subscripts(c)
    elif isinstance(e, (prim.Quotient, prim.FloorDiv, prim.Remainder)):
        yield from _subscripts(e.numerator)
        yield from _subscripts(e.denominator)
    elif isinstance(e, prim.If):
        for c in (e.condition, e.then, e.else_):
            yield from _subscripts(c)
    elif isinstance(e, prim.Comparison):
        yield from _subscripts(e.left)
        yield from _subscripts(e.right)
    elif isinstance(e, prim.Call):
        for c in e.parameters:
            yield from _subscripts(c)
    elif isinstance(e, TypeCast):
        yield from _subscripts(e.child)
    elif isinstance(e, Reduction):
        yield from _subscripts(e.expr)


def topological_orders(ir: KernelIR, rng, count: int):
    """`count` random topological orders of the statement dependency graph (indices into ir.stmts)"""
    ids = [s.id for s in ir.stmts]
    pos = {i: k for k, i in enumerate(ids)}
    deps = [set(pos[d] for d in s.deps if d in pos) for s in ir.stmts]
    missing = [(s.id, d) for s in ir.stmts for d in s.deps if d not in pos]
    if missing:
        raise KernelShapeError(f"dependency on unknown instruction: {missing[:3]}")
    out = []
    for _ in range(count):
        done: list[int] = []
        doneset: set[int] = set()
        remaining = set(range(len(ids)))
        while remaining:
            ready = sorted(k for k in remaining if deps[k] <= doneset)
            if not ready:
                raise KernelShapeError("dependency cycle among instructions")
            k = rng.choice(ready)
            done.append(k)
            doneset.add(k)
            remaining.discard(k)
        out.append(done)
    return out

"""fakempi — a controlled stand-in for `mpi4py.MPI`, one Python thread per rank.

Two kinds of traffic:

* **Collectives** (`allreduce`, `bcast`, `gather`, `allgather`, `barrier`) rendezvous on
  time-limited barriers.  A rank that raises leaves the protocol exactly as the real code
  does; its peers, which real MPI would leave hanging, get `BlockedOnFailedPeer` at their
  current / next collective.  A barrier that expires without any failed rank is a
  `FakeMPITimeout` (infrastructure problem: the check must exit 2, never VIOLATION).

* **Point-to-point** (`Isend`, `Irecv`, `Request.Waitsome`, `Request.Wait`) goes through a
  `Scheduler` object that owns every nondeterministic choice.  Ranks run one at a time
  (baton passing); a rank gives up the baton only inside `Waitsome`.  At every quiescent
  point (all live ranks inside `Waitsome` or finished) the controller lists the options
  `(rank, non-empty subset of this rank's posted receives whose message has been sent)`
  in a canonical order and asks the scheduler for one.  Because ranks interact only through
  messages and a rank is deterministic between two `Waitsome` calls, these choice lists
  cover every arrival order and every `Waitsome` outcome that MPI permits (a message that
  "has not arrived yet" is a message that is not in the chosen subset).
  *Deadlock* = a quiescent point with no option while some rank is still inside `Waitsome`;
  *spin* = `Waitsome` called with no active request (mpi4py returns None; pytato's loop
  would then spin forever).  Both are detected, not waited for.

Choice lists can be replayed (`Scheduler(prefix=[...])`), drawn from a seed
(`Scheduler(rng=random.Random(s))`) or enumerated (`explore`, DFS over choice lists with
optional pruning on a caller-supplied state key).
"""
from __future__ import annotations

import itertools
import pickle
import sys
import threading
import time
import types
from dataclasses import dataclass, field
from typing import Any, Callable

import numpy as np


# --------------------------------------------------------------------------- exceptions

class FakeMPIError(Exception):
    """base of the conditions raised *into* rank threads by the fake"""


class BlockedOnFailedPeer(FakeMPIError):
    """this rank waits in a collective for a rank that has raised"""


class FakeMPITimeout(FakeMPIError):
    """a wait expired although no rank failed: infrastructure failure"""


class DeadlockDetected(FakeMPIError):
    """no enabled choice while this rank is still inside Waitsome"""


class SpinDetected(FakeMPIError):
    """Waitsome called without any active request (the real loop would spin forever)"""


class ExplorationPruned(FakeMPIError):
    """the explorer cut this run (state already visited)"""


class ReplayMismatch(Exception):
    """a replayed choice list does not fit the run"""


_tls = threading.local()


def _cur():
    w = getattr(_tls, "world", None)
    if w is None:
        raise RuntimeError("fakempi used outside a rank thread")
    return w, _tls.rank


# --------------------------------------------------------------------------- MPI surface

class Op:
    def __init__(self, fn, commute=False):
        self.fn = fn
        self.commute = commute
        self.freed = False

    @classmethod
    def Create(cls, function, commute=False):
        return cls(function, commute)

    def Free(self):
        self.freed = True

    def __call__(self, a, b):
        return self.fn(a, b, None)


SUM = Op(lambda a, b, dt: a + b, True)
MAX = Op(lambda a, b, dt: max(a, b), True)
MIN = Op(lambda a, b, dt: min(a, b), True)
LOR = Op(lambda a, b, dt: bool(a or b), True)
LAND = Op(lambda a, b, dt: bool(a and b), True)
ANY_SOURCE = -1
ANY_TAG = -1


class Request:
    """a posted receive or a started send"""
    def __init__(self, world, rank, kind, peer, tag, buf=None, msg=None):
        self.world = world
        self.rank = rank
        self.kind = kind          # "recv" | "send"
        self.peer = peer          # source (recv) / dest (send)
        self.tag = tag
        self.buf = buf
        self.msg = msg
        self.done = kind == "send"
        self.serial = None

    # -- as used by pytato -------------------------------------------------
    @staticmethod
    def Waitsome(requests, statuses=None):
        world, rank = _cur()
        return world._waitsome(rank, list(requests))

    @staticmethod
    def Waitall(requests, statuses=None):
        for r in requests:
            r.Wait()
        return True

    def Wait(self, status=None):
        world, rank = _cur()
        if self.kind == "send":
            world._send_wait(self)
            return True
        if self.done:
            return True
        # a blocking wait on one receive = Waitsome on it until it completes
        while not self.done:
            world._waitsome(rank, [self])
        return True

    def Test(self, status=None):
        return self.done

    wait = Wait
    test = Test


@dataclass
class Message:
    src: int
    dst: int
    tag: Any
    data: Any
    serial: int
    consumed: bool = False


class Comm:
    def __init__(self, world: "World", rank: int):
        self.world = world
        self._rank = rank

    # -- identity ------------------------------------------------------------
    @property
    def rank(self):
        return self._rank

    @property
    def size(self):
        return self.world.size

    def Get_rank(self):
        return self._rank

    def Get_size(self):
        return self.world.size

    # -- collectives ---------------------------------------------------------
    def barrier(self):
        self.world._exchange(self._rank, "barrier", None)

    Barrier = barrier

    def allreduce(self, sendobj, op=SUM):
        vals = self.world._exchange(self._rank, "allreduce", sendobj)
        acc = vals[0]
        for v in vals[1:]:
            acc = op(acc, v)
        return acc

    def reduce(self, sendobj, op=SUM, root=0):
        vals = self.world._exchange(self._rank, "reduce", sendobj)
        if self._rank != root:
            return None
        acc = vals[0]
        for v in vals[1:]:
            acc = op(acc, v)
        return acc

    def bcast(self, obj=None, root=0):
        vals = self.world._exchange(self._rank, "bcast", obj if self._rank == root else None)
        return vals[root]

    def gather(self, sendobj, root=0):
        vals = self.world._exchange(self._rank, "gather", sendobj)
        return vals if self._rank == root else None

    def allgather(self, sendobj):
        return self.world._exchange(self._rank, "allgather", sendobj)

    # -- point to point --------------------------------------------------------
    def Isend(self, buf, dest, tag=0):
        return self.world._isend(self._rank, buf, dest, tag)

    def Irecv(self, buf, source=ANY_SOURCE, tag=ANY_TAG):
        return self.world._irecv(self._rank, buf, source, tag)

    isend = Isend
    irecv = Irecv


# --------------------------------------------------------------------------- scheduler

class Scheduler:
    """Owns every nondeterministic choice.  `prefix` is replayed first; beyond it choices
    come from `rng` (seeded) or are 0.  `trace` records (choice, number of options)."""
    def __init__(self, prefix=(), rng=None, strict=False):
        self.prefix = list(prefix)
        self.rng = rng
        self.strict = strict
        self.trace: list[tuple[int, int]] = []

    def choose(self, n: int) -> int:
        i = len(self.trace)
        if i < len(self.prefix):
            c = self.prefix[i]
            if not (0 <= c < n):
                raise ReplayMismatch(f"choice {i}: {c} not in range({n})")
        elif self.strict:
            raise ReplayMismatch(f"choice list exhausted at choice {i}")
        elif self.rng is not None:
            c = self.rng.randrange(n)
        else:
            c = 0
        self.trace.append((c, n))
        return c

    @property
    def choices(self):
        return [c for c, _ in self.trace]


def _nonempty_subsets(items):
    for k in range(1, len(items) + 1):
        yield from itertools.combinations(items, k)


# --------------------------------------------------------------------------- world

@dataclass
class RankOutcome:
    status: str = "pending"     # ok | raised | blocked | deadlock | spin | pruned | timeout
    value: Any = None
    exc: BaseException | None = None

    @property
    def exc_class(self):
        return type(self.exc).__name__ if self.exc is not None else None


class World:
    """One run of `size` ranks.  `run(fn)` starts fn(comm) on every rank."""

    def __init__(self, size: int, scheduler: Scheduler | None = None, timeout: float = 30.0,
                 pickle_payloads: bool = True, scheduled: bool = False,
                 on_choice_point: Callable[["World"], bool] | None = None):
        self.size = size
        self.scheduler = scheduler or Scheduler()
        self.timeout = timeout
        self.pickle_payloads = pickle_payloads
        self.scheduled = scheduled           # baton passing (executor runs) or free-running (collective phase)
        self.on_choice_point = on_choice_point
        self.comms = [Comm(self, r) for r in range(size)]
        self.outcomes = [RankOutcome() for _ in range(size)]
        self.failed = False
        # collectives
        self._bcv = threading.Condition()
        self._bgen = 0
        self._barrived = 0
        self._nfailed = 0
        self._ndone = 0
        self._slots: list[Any] = [None] * size
        self._kinds: list[Any] = [None] * size
        self.coll_log: list[list[tuple[str, Any]]] = [[] for _ in range(size)]
        self.coll_mismatch: list[str] = []
        # point to point
        self._lock = threading.RLock()
        self.network: list[Message] = []
        self.requests: list[list[Request]] = [[] for _ in range(size)]
        self._serial = 0
        self.events: list[tuple] = []          # global, sequential in scheduled mode
        self.anomalies: list[str] = []
        # baton
        self._cv = threading.Condition()
        self._turn: int | None = None          # rank that may run; None = controller
        self._waiting: dict[int, list[Request]] = {}   # rank -> requests it is blocked on
        self._wake: dict[int, Any] = {}        # rank -> list of completed indices | exception
        self._state = ["new"] * size           # new | running | waiting | done
        self._empty_waitsome = [0] * size
        self.deadlock = False
        self.pruned = False
        self.choice_points = 0

    # ---------------------------------------------------------------- logging
    def log(self, *ev):
        with self._lock:
            self.events.append(tuple(ev))

    # ---------------------------------------------------------------- collectives
    def _exchange(self, rank, kind, value):
        if self.pickle_payloads and value is not None:
            value = pickle.loads(pickle.dumps(value))
        self._slots[rank] = value
        self._kinds[rank] = kind
        self._bwait()
        vals = list(self._slots)
        kinds = list(self._kinds)
        if rank == 0 and len(set(kinds)) != 1:
            self.coll_mismatch.append(f"collective kinds differ: {kinds}")
        self._bwait()
        if self.pickle_payloads:
            vals = [pickle.loads(pickle.dumps(v)) if v is not None else None for v in vals]
        self.coll_log[rank].append((kind, vals))
        return vals

    def _bwait(self):
        """generation barrier.  A rank that raised (or returned) never arrives; ranks waiting
        for it are told so — but only if their generation has not completed in the meantime."""
        with self._bcv:
            gen = self._bgen
            self._barrived += 1
            if self._barrived == self.size:
                self._barrived = 0
                self._bgen += 1
                self._bcv.notify_all()
                return
            t_end = time.time() + self.timeout
            while self._bgen == gen:
                if self._nfailed > 0:
                    raise BlockedOnFailedPeer()
                if self._ndone > 0:
                    self.coll_mismatch.append("a rank returned while others wait in a collective")
                    raise BlockedOnFailedPeer()
                left = t_end - time.time()
                if left <= 0:
                    raise FakeMPITimeout("collective timed out with no failed rank")
                self._bcv.wait(min(left, 1.0))

    def _leave(self, failed: bool):
        with self._bcv:
            if failed:
                self._nfailed += 1
            else:
                self._ndone += 1
            self._bcv.notify_all()

    # ---------------------------------------------------------------- point to point
    def _isend(self, rank, buf, dest, tag):
        data = np.array(buf, copy=True)
        with self._lock:
            self._serial += 1
            m = Message(rank, dest, tag, data, self._serial)
            for o in self.network:
                if (o.src, o.dst, o.tag) == (rank, dest, tag):
                    self.anomalies.append(f"duplicate-message-id:{rank}->{dest}:tag={tag!r}")
            if not (0 <= dest < self.size):
                self.anomalies.append(f"send-to-nonexistent-rank:{rank}->{dest}:tag={tag!r}")
            self.network.append(m)
            self.events.append(("isend", rank, dest, tag))
        return Request(self, rank, "send", dest, tag, msg=m)

    def _irecv(self, rank, buf, source, tag):
        with self._lock:
            for o in self.requests[rank]:
                if o.kind == "recv" and (o.peer, o.tag) == (source, tag):
                    self.anomalies.append(f"duplicate-recv-id:{source}->{rank}:tag={tag!r}")
            if not (0 <= source < self.size):
                self.anomalies.append(f"recv-from-nonexistent-rank:{source}->{rank}:tag={tag!r}")
            self._serial += 1
            rq = Request(self, rank, "recv", source, tag, buf=buf)
            rq.serial = self._serial
            self.requests[rank].append(rq)
            self.events.append(("irecv", rank, source, tag))
        return rq

    def _send_wait(self, rq: Request):
        # Completion of a non-blocking send needs a matching receive under the rendezvous
        # protocol.  The fake never blocks here; a send nobody receives shows up as a leftover
        # message at the end of the run (`leftover()`), which callers treat as a hang.
        rq.waited = True

    def _available(self, rank, reqs):
        """indices into reqs of active receives whose message is in the network
        (non-overtaking: the oldest unconsumed message with the same (src, dst, tag))"""
        out = []
        taken = set()
        for i, rq in enumerate(reqs):
            if rq.kind != "recv" or rq.done:
                continue
            for m in self.network:
                if not m.consumed and m.serial not in taken and \
                        (m.src, m.dst, m.tag) == (rq.peer, rank, rq.tag):
                    out.append((i, m))
                    taken.add(m.serial)
                    break
        return out

    def _waitsome(self, rank, reqs):
        active = [rq for rq in reqs if rq.kind == "recv" and not rq.done]
        if not active:
            self._empty_waitsome[rank] += 1
            self.events.append(("empty-waitsome", rank))
            if self._empty_waitsome[rank] >= 2:
                raise SpinDetected(f"rank {rank}: Waitsome without active requests")
            return None
        if not self.scheduled:
            raise RuntimeError("Waitsome needs a scheduled World")
        # hand the baton to the controller and wait for its decision
        with self._cv:
            self._waiting[rank] = reqs
            self._state[rank] = "waiting"
            self._turn = None
            self._cv.notify_all()
            t_end = time.time() + self.timeout
            while self._turn != rank:
                left = t_end - time.time()
                if left <= 0:
                    raise FakeMPITimeout(f"rank {rank} waited too long in Waitsome")
                self._cv.wait(left)
            self._state[rank] = "running"
            res = self._wake.pop(rank)
        if isinstance(res, BaseException):
            raise res
        return res

    # ---------------------------------------------------------------- running
    def _rank_main(self, rank, fn):
        _tls.world = self
        _tls.rank = rank
        out = self.outcomes[rank]
        try:
            if self.scheduled:
                with self._cv:
                    t_end = time.time() + self.timeout
                    while self._turn != rank:
                        left = t_end - time.time()
                        if left <= 0:
                            raise FakeMPITimeout(f"rank {rank} never got the baton")
                        self._cv.wait(left)
                    self._state[rank] = "running"
            out.value = fn(self.comms[rank])
            out.status = "ok"
        except BlockedOnFailedPeer as e:
            out.status, out.exc = "blocked", e
        except DeadlockDetected as e:
            out.status, out.exc = "deadlock", e
        except SpinDetected as e:
            out.status, out.exc = "spin", e
        except ExplorationPruned as e:
            out.status, out.exc = "pruned", e
        except FakeMPITimeout as e:
            out.status, out.exc = "timeout", e
        except BaseException as e:          # noqa: BLE001 — what the real code raised
            out.status, out.exc = "raised", e
            self.failed = True
        finally:
            _tls.world = None
            if not self.scheduled:
                self._leave(out.status != "ok")
            if self.scheduled:
                with self._cv:
                    self._state[rank] = "done"
                    self._turn = None
                    self._cv.notify_all()

    def run(self, fn: Callable[[Comm], Any]) -> list[RankOutcome]:
        threads = [threading.Thread(target=self._rank_main, args=(r, fn), daemon=True)
                   for r in range(self.size)]
        for t in threads:
            t.start()
        if self.scheduled:
            try:
                self._control()
            except FakeMPITimeout:
                for o in self.outcomes:
                    if o.status == "pending":
                        o.status = "timeout"
                raise
        deadline = time.time() + self.timeout + 5
        for t in threads:
            t.join(max(0.0, deadline - time.time()))
        if any(t.is_alive() for t in threads):
            for o, t in zip(self.outcomes, threads):
                if t.is_alive():
                    o.status = "timeout"
            raise FakeMPITimeout("rank threads still alive after the time limit")
        return self.outcomes

    # -- controller of a scheduled run ----------------------------------------
    def _give(self, rank, wake=None):
        """pass the baton to `rank` and wait until it comes back"""
        with self._cv:
            if wake is not None:
                self._wake[rank] = wake
                self._waiting.pop(rank, None)
            self._turn = rank
            self._cv.notify_all()
            t_end = time.time() + self.timeout
            while self._turn is not None:
                left = t_end - time.time()
                if left <= 0:
                    raise FakeMPITimeout(f"rank {rank} did not return the baton")
                self._cv.wait(left)

    def options(self):
        """canonical list of (rank, ((request index, message), ...)) choices"""
        opts = []
        for r in sorted(self._waiting):
            av = self._available(r, self._waiting[r])
            av.sort(key=lambda im: (im[1].src, repr(im[1].tag), im[0]))
            for sub in _nonempty_subsets(av):
                opts.append((r, sub))
        return opts

    def available_ids(self):
        """{rank: sorted [(src, tag)]} of receives that could complete now"""
        return {r: sorted(((m.src, m.tag) for _, m in self._available(r, self._waiting[r])),
                          key=repr)
                for r in sorted(self._waiting)}

    def _control(self):
        for r in range(self.size):
            self._give(r)
        while self._waiting:
            opts = self.options()
            self.choice_points += 1
            if self.on_choice_point is not None and opts:
                if not self.on_choice_point(self):
                    self.pruned = True
                    for r in sorted(self._waiting):
                        self._give(r, ExplorationPruned())
                    return
            if not opts:
                self.deadlock = True
                self.events.append(("deadlock", tuple(sorted(self._waiting))))
                for r in sorted(self._waiting):
                    self._give(r, DeadlockDetected(f"rank {r} blocked in Waitsome, nothing can arrive"))
                return
            c = self.scheduler.choose(len(opts))
            r, sub = opts[c]
            idxs = []
            for i, m in sub:
                rq = self._waiting[r][i]
                try:
                    rq.buf[...] = m.data
                except Exception as e:      # shape / dtype mismatch between the two ends
                    self.anomalies.append(f"buffer-mismatch:{m.src}->{m.dst}:tag={m.tag!r}:{type(e).__name__}")
                rq.done = True
                m.consumed = True
                idxs.append(i)
            self.events.append(("deliver", r, tuple((m.src, m.tag) for _, m in sub)))
            self._give(r, sorted(idxs))

    # ---------------------------------------------------------------- summary
    def leftover(self):
        """messages never received and receives never completed"""
        msgs = [(m.src, m.dst, m.tag) for m in self.network if not m.consumed]
        recvs = [(rq.peer, rq.rank, rq.tag) for rs in self.requests for rq in rs
                 if rq.kind == "recv" and not rq.done]
        return msgs, recvs


# --------------------------------------------------------------------------- exploration

@dataclass
class ExploreResult:
    runs: int = 0
    complete: int = 0            # runs that reached the end (not pruned)
    pruned: int = 0
    max_options: int = 0
    max_depth: int = 0
    exhausted: bool = True       # False when the run budget stopped the DFS
    failures: list = field(default_factory=list)   # (choices, description)


def explore(run_once: Callable[[Scheduler, Callable | None], Any],
            check: Callable[[Any, Scheduler], str | None],
            state_key: Callable[[World], Any] | None = None,
            max_runs: int = 2000, stop_on_failure: bool = True) -> ExploreResult:
    """DFS over choice lists.  `run_once(scheduler, on_choice_point)` performs one full run
    and returns something `check` understands; `check` returns a failure description or
    None.  With `state_key`, a run is cut when it reaches (beyond its prefix) a choice point
    whose key was seen before — every (state, choice) edge is still executed once."""
    res = ExploreResult()
    visited: set = set()
    stack: list[list[int]] = [[]]
    while stack:
        if res.runs >= max_runs:
            res.exhausted = False
            break
        prefix = stack.pop()
        sched = Scheduler(prefix=prefix)
        depth_seen = [0]

        def on_cp(world, _sched=sched, _prefix=prefix):
            if state_key is None:
                return True
            d = len(_sched.trace)
            if d < len(_prefix):
                return True
            k = state_key(world)
            if k in visited:
                return False
            visited.add(k)
            return True

        out = run_once(sched, on_cp)
        res.runs += 1
        tr = sched.trace
        res.max_depth = max(res.max_depth, len(tr))
        for d in range(len(prefix), len(tr)):
            c, n = tr[d]
            res.max_options = max(res.max_options, n)
            for alt in range(n - 1, c, -1):
                stack.append([x for x, _ in tr[:d]] + [alt])
        msg = check(out, sched)
        if msg == "pruned":
            res.pruned += 1
        else:
            res.complete += 1
            if msg is not None:
                res.failures.append((sched.choices, msg))
                if stop_on_failure:
                    res.exhausted = False
                    break
    return res


# --------------------------------------------------------------------------- installation

def install():
    """Put the fake `mpi4py` / `mpi4py.MPI` into sys.modules and neutralise
    `pyopencl.array.to_device` (harness process only)."""
    me = sys.modules[__name__]
    pkg = types.ModuleType("mpi4py")
    mpi = types.ModuleType("mpi4py.MPI")
    for name in ("Op", "Request", "Comm", "SUM", "MAX", "MIN", "LOR", "LAND",
                 "ANY_SOURCE", "ANY_TAG"):
        setattr(mpi, name, getattr(me, name))
    mpi.Intracomm = Comm
    mpi.Datatype = object
    pkg.MPI = mpi
    pkg.__fake__ = True
    sys.modules["mpi4py"] = pkg
    sys.modules["mpi4py.MPI"] = mpi
    try:
        import pyopencl.array as cla
    except Exception:     # no pyopencl: a stub is enough for execute.py
        cl = types.ModuleType("pyopencl")
        cla = types.ModuleType("pyopencl.array")
        cl.array = cla
        sys.modules["pyopencl"] = cl
        sys.modules["pyopencl.array"] = cla
    cla.to_device = lambda queue, buf, allocator=None, **kw: buf
    return mpi

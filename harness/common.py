"""Shared plumbing of the /verif checks: paths, seeds, the Lean build and axiom
audit, the ptdriver line protocol, known findings, replays and evidence."""
from __future__ import annotations

import hashlib
import json
import os
import re
import shutil
import subprocess
import sys
import tempfile
import time
from dataclasses import dataclass, field
from pathlib import Path
from typing import Any

VERIF = Path(__file__).resolve().parent.parent
LEAN_DIR = VERIF / "lean"
DRIVER = LEAN_DIR / ".lake" / "build" / "bin" / "ptdriver"
EVIDENCE_DIR = VERIF / "evidence"
REPLAY_DIR = VERIF / "replays"
CORPUS_DIR = VERIF / "corpus"
KNOWN_FILE = VERIF / "known_findings.json"
REPO = Path(os.environ.get("PYTATO_REPO", "/repo"))

ALLOWED_AXIOMS = {"propext", "Classical.choice", "Quot.sound"}
FORBIDDEN_TOKENS = re.compile(
    r"\b(sorry|admit|native_decide|bv_decide|implemented_by|unsafe)\b|^axiom\s|maxHeartbeats 0")


def env_seed() -> int:
    try:
        return int(os.environ.get("VERIF_SEED", "0"))
    except ValueError:
        return 0


def scratch_dir() -> Path:
    """A private scratch directory for this run (removed by Ctx.finish)."""
    base = os.environ.get("VERIF_SCRATCH_BASE") or tempfile.gettempdir()
    return Path(tempfile.mkdtemp(prefix="ptverif_", dir=base))


# --------------------------------------------------------------------------
# Lean side
# --------------------------------------------------------------------------

class LeanError(Exception):
    pass


def run(cmd, cwd=None, timeout=None, env=None, input=None):
    p = subprocess.run(cmd, cwd=cwd, timeout=timeout, env=env, input=input,
                       stdout=subprocess.PIPE, stderr=subprocess.STDOUT, text=True)
    return p.returncode, p.stdout


_lake_lock_path = LEAN_DIR / ".lake-verif.lock"


class _FileLock:
    """Serialise `lake build` between concurrently running checks."""
    def __enter__(self):
        import fcntl
        self.f = open(_lake_lock_path, "w")
        fcntl.flock(self.f, fcntl.LOCK_EX)
        return self

    def __exit__(self, *a):
        import fcntl
        fcntl.flock(self.f, fcntl.LOCK_UN)
        self.f.close()


def lake_build(targets: list[str], timeout=3000) -> tuple[bool, str]:
    with _FileLock():
        rc, out = run(["lake", "build", *targets], cwd=LEAN_DIR, timeout=timeout)
    return rc == 0, out


_driver_copy: Path | None = None


def ensure_driver() -> None:
    """build the driver and take a private copy of the binary (under the build lock): a concurrently running
    check may relink .lake/build/bin/ptdriver at any moment"""
    global _driver_copy
    import shutil
    import tempfile
    with _FileLock():
        rc, out = run(["lake", "build", "ptdriver"], cwd=LEAN_DIR, timeout=3000)
        if rc != 0 or not DRIVER.exists():
            raise LeanError("ptdriver does not build:\n" + out[-4000:])
        dst = Path(tempfile.gettempdir()) / f"ptdriver.{os.getpid()}"
        shutil.copy2(DRIVER, dst)
        _driver_copy = dst


def driver_query(lines: list[str], timeout=3000) -> list[str]:
    """Send one query per line to ptdriver, return one answer per line."""
    if not lines:
        return []
    ensure_driver_once()
    p = subprocess.run([str(_driver_copy or DRIVER)], input="\n".join(lines) + "\n", text=True,
                       stdout=subprocess.PIPE, stderr=subprocess.PIPE, timeout=timeout)
    if p.returncode != 0:
        raise LeanError(f"ptdriver exited {p.returncode}: {p.stderr[-2000:]}")
    out = p.stdout.split("\n")
    if out and out[-1] == "":
        out.pop()
    if len(out) != len(lines):
        raise LeanError(f"ptdriver answered {len(out)} lines for {len(lines)} queries")
    return out


def driver_query_parallel(lines: list[str], nproc=12, timeout=3000) -> list[str]:
    """Split a large batch over several driver processes (order preserved)."""
    if len(lines) < 2000:
        return driver_query(lines, timeout)
    ensure_driver_once()
    from concurrent.futures import ThreadPoolExecutor
    n = min(nproc, max(1, len(lines) // 1000))
    chunk = (len(lines) + n - 1) // n
    parts = [lines[i:i + chunk] for i in range(0, len(lines), chunk)]
    with ThreadPoolExecutor(max_workers=n) as ex:
        res = list(ex.map(lambda part: driver_query(part, timeout), parts))
    return [a for r in res for a in r]


_driver_ready = False


def ensure_driver_once():
    global _driver_ready
    if not _driver_ready:
        ensure_driver()
        _driver_ready = True


def grep_forbidden(files: list[Path]) -> list[str]:
    """Forbidden tokens outside comments in the given Lean files."""
    hits = []
    for f in files:
        try:
            text = f.read_text()
        except OSError:
            continue
        # strip block comments and line comments
        text_nc = re.sub(r"/-.*?-/", lambda m: "\n" * m.group(0).count("\n"), text, flags=re.S)
        for ln, line in enumerate(text_nc.split("\n"), 1):
            line = re.sub(r"--.*$", "", line)
            if FORBIDDEN_TOKENS.search(line):
                hits.append(f"{f.relative_to(VERIF)}:{ln}: {line.strip()}")
    return hits


def lean_sources() -> list[Path]:
    return [p for p in LEAN_DIR.rglob("*.lean") if ".lake" not in p.parts]


def axiom_audit(module: str, theorems: list[str]) -> dict[str, Any]:
    """`#print axioms` for each theorem of an already built module.
    Returns {theorem: [axioms] | 'MISSING'}."""
    src = [f"import {module}"] + [f"#print axioms {t}" for t in theorems]
    with tempfile.NamedTemporaryFile("w", suffix=".lean", dir=LEAN_DIR, delete=False) as f:
        f.write("\n".join(src) + "\n")
        path = f.name
    try:
        rc, out = run(["lake", "env", "lean", path], cwd=LEAN_DIR, timeout=1200)
    finally:
        os.unlink(path)
    res: dict[str, Any] = {}
    # messages look like: "'Pt.foo' depends on axioms: [propext, ...]" or
    # "'Pt.foo' does not depend on any axioms"
    flat = out.replace("\n", " ")
    for t in theorems:
        m = re.search(r"'" + re.escape(t) + r"' depends on axioms: \[([^\]]*)\]", flat)
        if m:
            res[t] = [a.strip() for a in m.group(1).split(",") if a.strip()]
            continue
        if re.search(r"'" + re.escape(t) + r"' does not depend on any axioms", flat):
            res[t] = []
            continue
        res[t] = "MISSING"
    res["_raw_rc"] = rc
    if rc != 0:
        res["_raw"] = out[-3000:]
    return res


# --------------------------------------------------------------------------
# Known findings
# --------------------------------------------------------------------------

def load_known() -> dict[str, Any]:
    if KNOWN_FILE.exists():
        return json.loads(KNOWN_FILE.read_text())
    return {"known": [], "fixed": []}


# --------------------------------------------------------------------------
# Context of one check run
# --------------------------------------------------------------------------

@dataclass
class Ctx:
    prop: str
    tier: str
    seed: int
    t0: float = field(default_factory=time.time)
    violations: list[dict] = field(default_factory=list)
    known_hit: dict[str, str] = field(default_factory=dict)
    coverage: dict[str, Any] = field(default_factory=dict)
    assumptions: list[str] = field(default_factory=list)
    obligations: list[dict] = field(default_factory=list)   # {name, ok, axioms}
    broken: list[str] = field(default_factory=list)         # broken obligations / correspondences awaiting a search
    batches: dict[str, dict] = field(default_factory=dict)
    samples: list[Any] = field(default_factory=list)
    checker_cmds: list[str] = field(default_factory=list)
    _scratch: Path | None = None
    level: str = "proof"

    # ---- scratch -----------------------------------------------------
    @property
    def scratch(self) -> Path:
        if self._scratch is None:
            self._scratch = scratch_dir()
        return self._scratch

    @property
    def thorough(self) -> bool:
        return self.tier == "thorough"

    # ---- known findings ------------------------------------------------
    def known_signatures(self) -> dict[str, str]:
        k = load_known()
        return {e["signature"]: e.get("what", "") for e in k.get("known", [])
                if e.get("property") == self.prop}

    # ---- reporting -------------------------------------------------------
    def violation(self, signature: str, what: str, replay: dict, found_input=True):
        """Record a property violation on the real code.  Known signatures are
        reported as KNOWN-FINDING and do not fail the run."""
        known = self.known_signatures()
        if signature in known:
            if signature not in self.known_hit:
                self.known_hit[signature] = what
            return
        if any(v["signature"] == signature for v in self.violations):
            return
        REPLAY_DIR.joinpath(self.prop).mkdir(parents=True, exist_ok=True)
        safe = re.sub(r"[^A-Za-z0-9_.-]+", "_", signature)[:120]
        path = REPLAY_DIR / self.prop / f"{safe}.json"
        replay = dict(replay)
        replay.update({"property": self.prop, "signature": signature, "what": what,
                       "seed": self.seed, "tier": self.tier, "found_input": found_input})
        path.write_text(json.dumps(replay, indent=1, default=str))
        self.violations.append({"signature": signature, "what": what, "replay": str(path),
                                "found_input": found_input})

    def note_batch(self, name: str, cases: int, disagreements: int = 0, exhaustive=False,
                   nontrivial: int | None = None, **extra):
        b = self.batches.setdefault(name, {"cases": 0, "disagreements": 0,
                                           "exhaustive": exhaustive, "nontrivial": 0})
        b["cases"] += cases
        b["disagreements"] += disagreements
        b["nontrivial"] += cases if nontrivial is None else nontrivial
        b["exhaustive"] = exhaustive
        b.update(extra)

    def sample(self, s: Any, limit=12):
        if len(self.samples) < limit:
            self.samples.append(s)

    # ---- Lean obligations -------------------------------------------------
    def lean_obligations(self, module: str, theorems: list[str],
                         extra_targets: list[str] | None = None) -> bool:
        """Build `module` (and what it imports, incl. regenerated tables) and audit
        the axioms of the listed theorems.  Returns True when every obligation
        is discharged with allowed axioms; records the broken ones otherwise."""
        targets = [module] + (extra_targets or [])
        if os.environ.get("VERIF_SKIP_LEAN"):   # development aid only; never set by registered commands
            return True
        cmd = "cd lean && lake build " + " ".join(targets)
        self.checker_cmds.append(cmd)
        ok, out = lake_build(targets)
        if not ok:
            # which declarations failed?
            failed = sorted(set(re.findall(r"error: ([^\s:]+\.lean:\d+:\d+)", out)))
            for t in theorems:
                self.obligations.append({"name": t, "ok": False, "axioms": None})
            self.broken.append(f"lean-build:{module}")
            self.coverage.setdefault("lean_build_errors", []).append(
                {"module": module, "where": failed[:10], "tail": out[-1500:]})
            return False
        audit = axiom_audit(module, theorems)
        allok = True
        for t in theorems:
            ax = audit.get(t)
            good = isinstance(ax, list) and set(ax) <= ALLOWED_AXIOMS
            self.obligations.append({"name": t, "ok": good, "axioms": ax})
            if not good:
                allok = False
                self.broken.append(f"lean-axioms:{t}:{ax}")
        hits = grep_forbidden(lean_sources())
        if hits:
            allok = False
            self.broken.append("forbidden-tokens:" + "; ".join(hits[:5]))
        if self.thorough and allok:
            # independent re-check of the compiled module (and everything it imports) by leanchecker
            t0 = time.time()
            try:
                rc, out = run(["lake", "env", "leanchecker", module], cwd=LEAN_DIR, timeout=1500)
            except subprocess.TimeoutExpired:
                rc, out = None, "timeout"
            self.coverage.setdefault("leanchecker", {})[module] = {"rc": rc, "seconds": round(time.time() - t0, 1)}
            self.checker_cmds.append(f"cd lean && lake env leanchecker {module}")
            if rc not in (0, None):
                allok = False
                self.broken.append(f"leanchecker:{module}:{out[-300:]}")
        return allok

    # ---- finish -------------------------------------------------------------
    def finish(self) -> int:
        # broken obligations / correspondences for which no failing input was found
        if self.broken and not self.violations:
            for b in self.broken:
                self.violation(f"unproved:{b}", f"obligation or correspondence no longer checks: {b}",
                               {"theorem_or_correspondence": b,
                                "details": self.coverage.get("lean_build_errors")},
                               found_input=False)
        for sig, what in self.known_hit.items():
            print(f"KNOWN-FINDING: property={self.prop} {sig} — {what}")
        for v in self.violations:
            tail = "" if v["found_input"] else " no-failing-input-found"
            print(f"VIOLATION property={self.prop} replay={v['replay']}{tail}")
            print(f"  {v['signature']}: {v['what']}")
        self.write_evidence()
        if self._scratch is not None:
            shutil.rmtree(self._scratch, ignore_errors=True)
        return 1 if self.violations else 0

    def write_evidence(self):
        EVIDENCE_DIR.mkdir(exist_ok=True)
        cases = sum(b["cases"] for b in self.batches.values())
        nontriv = sum(b.get("nontrivial", 0) for b in self.batches.values())
        n_obl = len(self.obligations)
        n_dis = sum(1 for o in self.obligations if o["ok"])
        axioms = sorted({a for o in self.obligations if isinstance(o.get("axioms"), list)
                         for a in o["axioms"]})
        cov: dict[str, Any] = dict(self.coverage)
        cov.update({
            "obligations": n_obl,
            "discharged": n_dis,
            "checker_cmd": " && ".join(dict.fromkeys(self.checker_cmds)) or "none",
            "trusted_base": [
                "Lean 4.33.0 kernel",
                "axioms used by the audited theorems this run: " + (", ".join(axioms) or "none"),
                "harness/ (translator + correspondence harness, Python)",
                "ptdriver = compiled PtModel (Lean compiler + C toolchain) for the executable side of the correspondence",
                *self.assumptions,
            ],
            "theorems": self.obligations,
            "evaluations": cases,
            "distinct_nontrivial": nontriv,
            "rule": cov.get("rule", "see batches: each batch lists how its cases are enumerated/generated; "
                            "a case is counted once per distinct input tuple sent to both the real code and the model"),
            "batches": self.batches,
            "samples": self.samples or ["(no samples recorded)"],
            "known_findings_hit": sorted(self.known_hit),
            "broken": self.broken,
            "exhaustive": bool(self.batches) and all(b.get("exhaustive") for b in self.batches.values()),
        })
        level = self.level
        if n_obl == 0 or n_dis == 0:
            # no Lean obligation was discharged in this run: do not present proof-level keys;
            # the schema then falls back to the generic counts (evaluations / distinct_nontrivial)
            cov["lean_obligations_attempted"] = cov.pop("obligations")
            cov["lean_obligations_discharged"] = cov.pop("discharged")
        ev = {
            "property_id": self.prop,
            "tier": self.tier,
            "seed": self.seed,
            "level": level,
            "coverage": cov,
            "assumptions": self.assumptions,
            "wall_s": round(time.time() - self.t0, 2),
            "violations": len(self.violations),
        }
        (EVIDENCE_DIR / f"{self.prop}.json").write_text(json.dumps(ev, indent=1, default=str))


def sha256_file(p: Path) -> str:
    return hashlib.sha256(p.read_bytes()).hexdigest()


def setup_repo_import():
    """Make `import pytato` resolve to /repo's working tree."""
    sys.path.insert(0, str(REPO))
    os.environ.setdefault("PYTATO_VERIF", "1")

"""Reflective walk over pytato graphs: enumerates the array-valued children of a
node by looking at its dataclass fields — never through pytato's mappers, so it
can serve as an independent oracle for which children a node has.

Edge labels:
  operand:<field>[:<i>]   an Array stored in a field (or tuple/mapping entry of it)
  shape:<i>               array-valued shape component
  index:<i>               array-valued index (incl. array-valued slice start/stop)
  csr:<field>             part of a sparse matrix
  send:data               payload of a DistributedSend held by a ref holder
  pass                    passthrough_data of a DistributedSendRefHolder
  bind:<name>             binding of an IndexLambda / Call / LoopyCall
  container               the container of a NamedArray / call result
  ret:<name>              array returned by a FunctionDefinition (function body; separate scope)
  entry:<name>            member of a DictOfNamedArrays
"""
from __future__ import annotations

import dataclasses
from collections.abc import Mapping
from typing import Any, Iterator


def _is_array(x) -> bool:
    from pytato.array import Array
    return isinstance(x, Array)


def _is_node(x) -> bool:
    """things pytato's mappers dispatch on"""
    from pytato.array import AbstractResultWithNamedArrays, Array
    from pytato.function import FunctionDefinition
    return isinstance(x, (Array, AbstractResultWithNamedArrays, FunctionDefinition))


def children(node, *, into_functions=False) -> list[tuple[str, Any]]:
    """direct children (label, child) of a node, by reflection over dataclass fields"""
    from pytato.array import (
        AbstractResultWithNamedArrays, Array, CSRMatmul, DictOfNamedArrays, IndexBase,
        NamedArray, NormalizedSlice, SparseMatrix)
    from pytato.distributed.nodes import DistributedSend, DistributedSendRefHolder
    from pytato.function import Call, FunctionDefinition, NamedCallResult
    out: list[tuple[str, Any]] = []
    if isinstance(node, DictOfNamedArrays):
        for k in sorted(node._data):
            out.append((f"entry:{k}", node._data[k]))
        return out
    if isinstance(node, FunctionDefinition):
        for k in sorted(node.returns):
            out.append((f"ret:{k}", node.returns[k]))
        return out
    if not dataclasses.is_dataclass(node):
        raise TypeError(f"not a dataclass node: {type(node)}")
    for f in dataclasses.fields(node):
        v = getattr(node, f.name)
        if f.name in ("tags", "non_equality_tags", "axes"):
            continue
        if f.name == "shape" and isinstance(v, tuple):
            for i, d in enumerate(v):
                if _is_array(d):
                    out.append((f"shape:{i}", d))
            continue
        if f.name == "_container":
            out.append(("container", v))
            continue
        if f.name == "indices" and isinstance(node, IndexBase):
            for i, ix in enumerate(v):
                if _is_array(ix):
                    out.append((f"index:{i}", ix))
                elif isinstance(ix, NormalizedSlice):
                    for part in ("start", "stop", "step"):
                        pv = getattr(ix, part)
                        if _is_array(pv):
                            out.append((f"index:{i}:{part}", pv))
            continue
        if isinstance(v, SparseMatrix):
            for g in dataclasses.fields(v):
                gv = getattr(v, g.name)
                if _is_array(gv):
                    out.append((f"csr:{g.name}", gv))
                elif g.name == "shape":
                    for i, d in enumerate(gv):
                        if _is_array(d):
                            out.append((f"csr:shape:{i}", d))
            continue
        if isinstance(v, DistributedSend):
            out.append(("send:data", v.data))
            continue
        if isinstance(node, DistributedSendRefHolder) and f.name == "passthrough_data":
            out.append(("pass", v))
            continue
        if isinstance(v, FunctionDefinition):
            if into_functions:
                out.append(("function", v))
            continue
        if _is_array(v):
            out.append((f"operand:{f.name}", v))
        elif isinstance(v, AbstractResultWithNamedArrays):
            out.append((f"operand:{f.name}", v))
        elif isinstance(v, tuple):
            for i, x in enumerate(v):
                if _is_array(x):
                    out.append((f"operand:{f.name}:{i}", x))
        elif isinstance(v, Mapping):
            for k in sorted(v, key=str):
                x = v[k]
                if _is_array(x):
                    out.append((f"bind:{k}", x))
    return out


def derived_shape_children(node) -> list[tuple[str, Any]]:
    """array-valued components of a *derived* .shape (not a stored field)"""
    from pytato.array import Array
    out = []
    if isinstance(node, Array):
        stored = {f.name for f in dataclasses.fields(node)} if dataclasses.is_dataclass(node) else set()
        if "shape" not in stored:
            for i, d in enumerate(node.shape):
                if _is_array(d):
                    out.append((f"dshape:{i}", d))
    return out


def walk(root, *, into_functions=False) -> Iterator[Any]:
    """all distinct *objects* reachable from root (by id), post-order"""
    seen: set[int] = set()
    order: list[Any] = []

    def rec(n):
        if id(n) in seen:
            return
        seen.add(id(n))
        for _, c in children(n, into_functions=into_functions):
            rec(c)
        order.append(n)
    import sys
    old = sys.getrecursionlimit()
    sys.setrecursionlimit(max(old, 20000))
    try:
        rec(root)
    finally:
        sys.setrecursionlimit(old)
    return iter(order)


def distinct_nodes(root, **kw) -> list[Any]:
    """distinct nodes up to structural equality (pytato ==), first occurrence kept"""
    out, seen = [], set()
    for n in walk(root, **kw):
        try:
            if n in seen:
                continue
            seen.add(n)
        except TypeError:
            pass
        out.append(n)
    return out

"""Child interpreter of the C04 / C18 checks (started with another
PYTHONHASHSEED): rebuild graphs from their recipes, unpickle the parent's
pickles, report equality / hashes / persistent keys, ship own pickles back.

    python -m harness.eqchild JOB.json
"""
from __future__ import annotations

import json
import pickle
import sys


def main(jobfile: str) -> int:
    from . import common
    common.setup_repo_import()
    job = json.loads(open(jobfile).read())
    from pytato.analysis import PytatoKeyBuilder

    from . import eqcases, eqterm
    from .gen import eqdags
    keyb = PytatoKeyBuilder()
    with open(job["pickles_in"], "rb") as f:
        parent = pickle.load(f)
    results = []
    out_pickles = {}
    for i in range(job["n"]):
        r = eqdags.build(job["seed"], i, with_loopy=job["with_loopy"])
        p = pickle.loads(parent[i])
        res = {"i": i}
        # before anything hashes p: a cached hash must not have travelled
        res["hv_present"] = eqcases.hash_cache_kinds(p)
        res.update(eqcases.observe(r, p))
        if res["eq"] is not True:
            res["culprit_eq"] = eqcases.culprit(r, p, lambda x, y: not (x == y))
        if res["hash_eq"] is not True:
            res["culprit_hash"] = eqcases.culprit(r, p, lambda x, y: (x == y) and hash(x) != hash(y))
        res["key_r"] = keyb(r)
        res["key_p"] = keyb(p)
        res["node_keys_r"] = [keyb(n) for n in eqterm.all_nodes(r)]
        res["node_kinds_r"] = [eqterm.kind_of(n) for n in eqterm.all_nodes(r)]
        hash(r)
        raw = pickle.dumps(r)
        out_pickles[i] = raw
        rt = pickle.loads(raw)
        res["key_rt"] = keyb(rt)
        res["rt_eq"] = bool(rt == r)
        res["rt_hash_eq"] = hash(rt) == hash(r)
        results.append(res)
    with open(job["pickles_out"], "wb") as f:
        pickle.dump(out_pickles, f)
    with open(job["result"], "w") as f:
        json.dump(results, f)
    return 0


if __name__ == "__main__":
    sys.exit(main(sys.argv[1]))

"""Child interpreter of the C04 / C18 checks (started with another
PYTHONHASHSEED): rebuild graphs from their recipes, unpickle the parent's
pickles, report equality / hashes / persistent keys, ship own pickles back.

    python -m harness.eqchild JOB.json
"""
from __future__ import annotations

import json
import pickle
import sys


def main(jobfile: str) -> int:
    from . import common
    common.setup_repo_import()
    job = json.loads(open(jobfile).read())
    from pytato.analysis import PytatoKeyBuilder

    from . import eqcases, eqterm
    from .gen import eqdags
    keyb = PytatoKeyBuilder()
    with open(job["pickles_in"], "rb") as f:
        parent = pickle.load(f)
    results = []
    out_pickles = {}
    for i in range(job["n"]):
        r = eqdags.build(job["seed"], i, with_loopy=job["with_loopy"])
        p = pickle.loads(parent[i])
        res = {"i": i}
        # before anything hashes p: a cached hash must not have travelled
        res["hv_present"] = eqcases.hash_cache_kinds(p)
        res.update(eqcases.observe(r, p))
        if res["eq"] is not True:
            res["culprit_eq"] = eqcases.culprit(r, p, lambda x, y: not (x == y))
        if res["hash_eq"] is not True:
            res["culprit_hash"] = eqcases.culprit(r, p, lambda x, y: (x == y) and hash(x) != hash(y))
        res["key_r"] = keyb(r)
        res["key_p"] = keyb(p)
        res["node_keys_r"] = [keyb(n) for n in eqterm.all_nodes(r)]
        res["node_kinds_r"] = [eqterm.kind_of(n) for n in eqterm.all_nodes(r)]
        hash(r)
        raw = pickle.dumps(r)
        out_pickles[i] = raw
        rt = pickle.loads(raw)
        res["key_rt"] = keyb(rt)
        res["rt_eq"] = bool(rt == r)
        res["rt_hash_eq"] = hash(rt) == hash(r)
        results.append(res)
    with open(job["pickles_out"], "wb") as f:
        pickle.dump(out_pickles, f)
    with open(job["result"], "w") as f:
        json.dump(results, f)
    # deterministic families (harness.gen.eqfamilies): keys, structure digests, equality of twin graphs, pickles
    if job.get("families"):
        import hashlib

        from .gen import eqfamilies
        fam_res, fam_pk = {}, {}
        for name in job["families"]:
            rows = {}
            for lbl, g1, g2 in eqfamilies.build(name, job.get("tier", "quick")):
                hs = eqterm.HeapSer(check_reflect=False)
                hs.add(g1)
                rows[lbl] = {"key": keyb(g1), "struct": hashlib.sha1(hs.wire().encode()).hexdigest()[:16]}
                if g2 is not g1:
                    rows[lbl].update(twin_eq=bool(g1 == g2) and bool(g2 == g1), twin_hash_eq=hash(g1) == hash(g2),
                                     twin_key_eq=keyb(g2) == rows[lbl]["key"])
                if name in job.get("pickle_families", []):
                    hash(g1)
                    fam_pk[f"{name}/{lbl}"] = pickle.dumps(g1)
            fam_res[name] = rows
        with open(job["result"] + ".families", "w") as f:
            json.dump(fam_res, f)
        with open(job["pickles_out"] + ".families", "wb") as f:
            pickle.dump(fam_pk, f)
    return 0


if __name__ == "__main__":
    sys.exit(main(sys.argv[1]))

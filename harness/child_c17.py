"""Child interpreter of the C17 check: rebuilds the programs of one stream from
(seed, indices) under this process's PYTHONHASHSEED and allocation history and
writes, per program, the artefacts that must be process independent."""
from __future__ import annotations

import hashlib
import json
import os
import sys
import tempfile


def main():
    seed, outpath, warmup = int(sys.argv[1]), sys.argv[2], int(sys.argv[3])
    indices = [int(x) for x in sys.argv[4].split(",")]
    repo = os.environ.get("PYTATO_REPO", "/repo")
    sys.path.insert(0, repo)
    sys.path.insert(0, os.path.dirname(os.path.dirname(os.path.abspath(__file__))))
    sc = os.environ["VERIF_CHILD_SCRATCH"]
    os.environ["TMPDIR"] = sc
    os.environ["XDG_CACHE_HOME"] = os.path.join(sc, "cache")
    tempfile.tempdir = sc
    import warnings
    warnings.simplefilter("ignore")
    import loopy as lp
    import pytato as pt
    from harness import cexec, pytarget
    from harness.gen import programs
    from pytato.analysis import PytatoKeyBuilder
    # different allocation history: build and discard other graphs first
    junk = []
    for w in range(warmup):
        junk.append(programs.generate(seed + 99, w).expr())
    del junk
    out = {}
    # ... and, in every other child, code generated for an unrelated graph that calls a DIFFERENT loopy kernel of the
    # same name as the ones below (a per-process table of callee names must not leak into the next generate_loopy)
    lcalls = [int(x) for x in sys.argv[6].split(",")] if len(sys.argv) > 6 and sys.argv[6] else []
    if lcalls and warmup % 4 == 2:
        from harness.gen import loopycalls
        for w in range(2):
            pt.generate_loopy(loopycalls.history_graph(w))

    def h(s):
        return hashlib.sha256(s.encode()).hexdigest()[:20]

    for i in indices:
        rec = {}
        try:
            p = programs.generate(seed, i)
            expr = pt.transform.deduplicate(p.expr())
            rec["key"] = PytatoKeyBuilder()(expr)
            try:
                prog = pt.generate_loopy(expr)
                dump = json.dumps(cexec.canonical_dump(prog.program), sort_keys=True, default=str)
                rec["dump"] = dump
                rec["bound_names"] = sorted(prog.bound_arguments)
                try:
                    rec["cl"] = lp.generate_code_v2(prog.program).device_code()
                except Exception as e:   # noqa: BLE001
                    rec["cl_error"] = type(e).__name__
                # twice in one process
                prog2 = pt.generate_loopy(pt.transform.deduplicate(programs.generate(seed, i).expr()))
                rec["twice_same"] = json.dumps(cexec.canonical_dump(prog2.program), sort_keys=True,
                                               default=str) == dump
            except Exception as e:   # noqa: BLE001
                rec["loopy_error"] = type(e).__name__
            try:
                bp = pytarget.generate(expr)
                rec["py"] = bp.program
                rec["py_expected"] = sorted(bp.expected_arguments)
            except Exception as e:   # noqa: BLE001
                rec["py_error"] = type(e).__name__
        except Exception as e:   # noqa: BLE001
            rec["error"] = f"{type(e).__name__}: {e}"
        out[str(i)] = rec
    # multi-output programs whose outputs are sub-expressions of other outputs (harness/gen/multiout.py)
    multi = [int(x) for x in sys.argv[5].split(",")] if len(sys.argv) > 5 and sys.argv[5] else []
    if multi:
        from harness.gen import multiout
    for j in multi:
        rec = {}
        try:
            expr = pt.transform.deduplicate(multiout.generate(j))
            rec["key"] = PytatoKeyBuilder()(expr)
            try:
                prog = pt.generate_loopy(expr)
                rec["dump"] = json.dumps(cexec.canonical_dump(prog.program), sort_keys=True, default=str)
                rec["arg_order"] = [a.name for a in prog.program.default_entrypoint.args]
                rec["bound_names"] = sorted(prog.bound_arguments)
                try:
                    rec["cl"] = lp.generate_code_v2(prog.program).device_code()
                except Exception as e:   # noqa: BLE001
                    rec["cl_error"] = type(e).__name__
            except Exception as e:   # noqa: BLE001
                rec["loopy_error"] = type(e).__name__
            try:
                bp = pytarget.generate(expr)
                rec["py"] = bp.program
                rec["py_expected"] = sorted(bp.expected_arguments)
            except Exception as e:   # noqa: BLE001
                rec["py_error"] = type(e).__name__
        except Exception as e:   # noqa: BLE001
            rec["error"] = f"{type(e).__name__}: {e}"
        out[f"m{j}"] = rec
    if lcalls:
        from harness.gen import loopycalls
    for j in lcalls:
        rec = {}
        try:
            expr = loopycalls.generate(j)
            try:
                prog = pt.generate_loopy(expr)
                rec["dump"] = json.dumps(cexec.canonical_dump(prog.program), sort_keys=True, default=str)
                rec["callees"] = sorted(str(n) for n in prog.program.callables_table)
                rec["arg_order"] = [a.name for a in prog.program.default_entrypoint.args]
                try:
                    rec["cl"] = lp.generate_code_v2(prog.program).device_code()
                except Exception as e:   # noqa: BLE001
                    rec["cl_error"] = type(e).__name__
                prog2 = pt.generate_loopy(loopycalls.generate(j))
                rec["twice_same"] = (json.dumps(cexec.canonical_dump(prog2.program), sort_keys=True, default=str)
                                     == rec["dump"]
                                     and sorted(str(n) for n in prog2.program.callables_table) == rec["callees"])
                if "cl" in rec:
                    rec["twice_same"] = rec["twice_same"] and \
                        lp.generate_code_v2(prog2.program).device_code() == rec["cl"]
            except Exception as e:   # noqa: BLE001
                rec["loopy_error"] = type(e).__name__ + ": " + str(e)[:100]
        except Exception as e:   # noqa: BLE001
            rec["error"] = f"{type(e).__name__}: {e}"
        out[f"lc{j}"] = rec
    ncase = [int(x) for x in sys.argv[7].split(",")] if len(sys.argv) > 7 and sys.argv[7] else []
    if ncase:
        from harness.gen import namecase
    for j in ncase:
        rec = {}
        try:
            expr = namecase.generate(j)
            rec["key"] = PytatoKeyBuilder()(expr)
            try:
                prog = pt.generate_loopy(expr)
                rec["dump"] = json.dumps(cexec.canonical_dump(prog.program), sort_keys=True, default=str)
                rec["arg_order"] = [a.name for a in prog.program.default_entrypoint.args]
                rec["bound_names"] = sorted(prog.bound_arguments)
                try:
                    rec["cl"] = lp.generate_code_v2(prog.program).device_code()
                except Exception as e:   # noqa: BLE001
                    rec["cl_error"] = type(e).__name__
            except Exception as e:   # noqa: BLE001
                rec["loopy_error"] = type(e).__name__
            try:
                bp = pytarget.generate(expr)
                rec["py"] = bp.program
                rec["py_expected"] = sorted(bp.expected_arguments)
            except Exception as e:   # noqa: BLE001
                rec["py_error"] = type(e).__name__
        except Exception as e:   # noqa: BLE001
            rec["error"] = f"{type(e).__name__}: {e}"
        out[f"nc{j}"] = rec
    with open(outpath, "w") as f:
        json.dump(out, f)


if __name__ == "__main__":
    main()

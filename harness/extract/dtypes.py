"""Translator: dtype inference of the live pytato vs the installed NumPy, for every
operator/function x operand kind x dtype pair -> lean/PtGen/Dtypes.lean"""
from __future__ import annotations

import operator
import warnings

import numpy as np

from .. import common

OUT = common.LEAN_DIR / "PtGen" / "Dtypes.lean"

DTYPES = ["bool", "int8", "int16", "int32", "int64", "uint8", "uint16", "uint32", "uint64",
          "float32", "float64", "complex64", "complex128"]

PY_SCALARS = [("pyint", 3), ("pyfloat", 2.5), ("pycomplex", 1 + 2j), ("pybool", True)]
NP_SCALARS = [("np_int8", np.int8(3)), ("np_int64", np.int64(3)), ("np_float32", np.float32(2.5)),
              ("np_float64", np.float64(2.5)), ("np_complex64", np.complex64(1 + 2j)), ("np_bool", np.bool_(True))]


def _binary_ops():
    import pytato as pt
    ops = [("add", operator.add, operator.add), ("sub", operator.sub, operator.sub),
           ("mul", operator.mul, operator.mul), ("truediv", operator.truediv, operator.truediv),
           ("floordiv", operator.floordiv, operator.floordiv), ("mod", operator.mod, operator.mod),
           ("pow", operator.pow, operator.pow), ("and", operator.and_, operator.and_),
           ("or", operator.or_, operator.or_), ("xor", operator.xor, operator.xor),
           ("less", pt.less, np.less), ("less_equal", pt.less_equal, np.less_equal),
           ("greater", pt.greater, np.greater), ("greater_equal", pt.greater_equal, np.greater_equal),
           ("equal", pt.equal, np.equal), ("not_equal", pt.not_equal, np.not_equal),
           ("logical_and", pt.logical_and, np.logical_and), ("logical_or", pt.logical_or, np.logical_or),
           ("maximum", pt.maximum, np.maximum), ("minimum", pt.minimum, np.minimum),
           ("where", lambda a, b: pt.where(pt.make_placeholder("c", (2,), np.bool_), a, b),
            lambda a, b: np.where(np.array([True, False]), a, b))]
    return ops


def _unary_ops():
    import pytato as pt
    return [("neg", operator.neg, operator.neg), ("abs", abs, np.abs),
            ("sum", pt.sum, np.sum), ("prod", pt.prod, np.prod), ("amax", pt.amax, np.amax), ("amin", pt.amin, np.amin),
            ("all", pt.all, np.all), ("any", pt.any, np.any),
            ("sin", pt.sin, np.sin), ("exp", pt.exp, np.exp), ("sqrt", pt.sqrt, np.sqrt), ("isnan", pt.isnan, np.isnan),
            ("real", pt.real, np.real), ("imag", pt.imag, np.imag), ("conj", pt.conj, np.conj),
            ("transpose", lambda a: a.T, lambda a: a.T), ("zeros_like", pt.zeros_like, np.zeros_like),
            ("ones_like", pt.ones_like, np.ones_like),
            ("logical_not", pt.logical_not, np.logical_not)]


def _run(f, *args):
    try:
        with warnings.catch_warnings():
            warnings.simplefilter("ignore")
            with np.errstate(all="ignore"):
                r = f(*args)
        dt = getattr(r, "dtype", None)
        if dt is None:
            dt = np.asarray(r).dtype
        return np.dtype(dt).name
    except Exception as e:   # noqa: BLE001
        return "!" + type(e).__name__


def category(op, lk, ldt, rk, rdt, npr, ptr) -> str:
    """a stable, coarse signature for a deviation (used in known_findings.json)"""
    if npr.startswith("!") and ptr.startswith("!"):
        return "both-reject"
    if npr.startswith("!"):
        return "numpy-rejects-dtype:" + op       # TypeError of a ufunc: outside "shape, axis or index errors"
    if ptr.startswith("!"):
        return "pytato-rejects:" + op            # allowed: rejected when the expression is built
    kinds = {lk, rk}
    if ldt == "bool" and (rdt == "bool" or rk in ("pybool", "np_bool")) or \
            (rdt == "bool" and lk in ("pybool", "np_bool")):
        return f"dtype:bool-operands:{op}"
    if kinds & {"pyint", "pyfloat", "pycomplex", "pybool"}:
        return f"dtype:python-scalar:{op}"
    if any(k.startswith("np_") for k in kinds):
        return f"dtype:numpy-scalar:{op}"
    if rk == "-":
        if op in ("sum", "prod", "amax", "amin"):
            return f"dtype:reduction-keeps-operand-dtype:{op}"
        if op in ("all", "any"):
            return f"dtype:all-any-keep-operand-dtype:{op}"
        return f"dtype:unary:{op}:{np.dtype(ldt).kind}"
    return f"dtype:array-array:{op}"


def rows():
    import pytato as pt
    out = []
    for op, fpt, fnp in _binary_ops():
        for ldt in DTYPES:
            pa = pt.make_placeholder("a", (2,), ldt)
            na = np.ones(2, dtype=ldt)
            for rdt in DTYPES:
                pb = pt.make_placeholder("b", (2,), rdt)
                nb = np.ones(2, dtype=rdt)
                out.append((op, "array", ldt, "array", rdt, _run(fnp, na, nb), _run(fpt, pa, pb)))
            for sk, sv in PY_SCALARS + NP_SCALARS:
                out.append((op, "array", ldt, sk, "-", _run(fnp, na, sv), _run(fpt, pa, sv)))
                out.append((op, sk, "-", "array", ldt, _run(fnp, sv, na), _run(fpt, sv, pa)))
    for op, fpt, fnp in _unary_ops():
        for ldt in DTYPES:
            pa = pt.make_placeholder("a", (2, 2), ldt)
            na = np.ones((2, 2), dtype=ldt)
            out.append((op, "array", ldt, "-", "-", _run(fnp, na), _run(fpt, pa)))
    return out


def render(rs, known_cats) -> str:
    lines = ["/- GENERATED by harness/extract/dtypes.py from the live pytato and the installed NumPy on every run.",
             "   (op, lhs kind, lhs dtype, rhs kind, rhs dtype, NumPy result, pytato result, deviation category)",
             "   results: a dtype name, or !ExceptionClass.  Rows are split into chunks (elaborator recursion depth). -/",
             "set_option maxRecDepth 20000",
             "namespace PtGen", "",
             "abbrev DtypeRow := String × String × String × String × String × String × String × String", ""]
    chunk = 300
    names = []
    for ci in range(0, len(rs), chunk):
        nm = f"dtypeRows{ci // chunk}"
        names.append(nm)
        body = []
        for op, lk, ldt, rk, rdt, npr, ptr in rs[ci:ci + chunk]:
            cat = "" if npr == ptr else category(op, lk, ldt, rk, rdt, npr, ptr)
            body.append(f'  ("{op}", "{lk}", "{ldt}", "{rk}", "{rdt}", "{npr}", "{ptr}", "{cat}")')
        lines.append(f"def {nm} : List DtypeRow := [")
        lines.append(",\n".join(body))
        lines.append("]")
        lines.append("")
    lines.append("def dtypeChunks : List (List DtypeRow) := [" + ", ".join(names) + "]")
    lines.append("def dtypeRows : List DtypeRow := dtypeChunks.flatten")
    lines += ["",
              "/-- deviation categories listed in the committed known_findings.json (property C03) -/",
              "def knownDtypeCategories : List String := ["
              + ", ".join(f'"{c}"' for c in sorted(known_cats)) + "]", "", "end PtGen", ""]
    return "\n".join(lines)


def regenerate():
    rs = rows()
    known = {e["signature"] for e in common.load_known().get("known", [])
             if e.get("property") == "C03" and e["signature"].startswith("dtype:")}
    text = render(rs, known)
    if not OUT.exists() or OUT.read_text() != text:
        OUT.write_text(text)
    return rs

"""TRANSLATOR for C04 / C18: behavioural probing of the live `==`, `!=`, `hash`,
set/dict membership and `PytatoKeyBuilder` over every node kind and every
dataclass field  ->  lean/PtGen/EqTable.lean (plain Lean data, deterministic).

For every instance of `harness.gen.kinds.specs()` (plus the extra instances
below) and every alternative value of every field, the pair (base, mutant)
differs in exactly one (pseudo-)field of the reflective serialisation
(`harness.eqterm`); the row is named after that field.  Mutants that differ in
no field (mapping insertion order reversed: rows `<field>-order`; a data wrapper
around equal data in another object: row `#id`) probe that nothing *else* is
looked at.

Tables (all `List (String × List String)`, kinds and fields sorted):
  fields            every probe row name per kind
  semanticFields    C04: all fields except creation tracebacks (`non_equality_tags`),
                    `-order` rows and — except for identity-compared kinds — `#id`
  semanticFieldsKey C18: the same without `#id` (wrapped data counts by contents/dtype/shape)
  eqFlips / eqFlipsSome     rows where every / some probe flipped `==`
  hashFlips                 rows where some probe changed `hash`
  keyFlips / keyFlipsSome   rows where every / some probe changed the persistent key
and row lists (`List (String × String)`): unprobedRows (no second valid value),
internalRows (the public API cannot produce the change: `tagged` / `with_tagged_axis`
raise, or no public constructor yields the mutant — see `public_attempts`),
tracebackRows, identityKinds, and the exclusions rendered from the committed
known_findings.json (never from today's observations): knownEqRows,
knownEqSpuriousRows, knownHashRows, knownKeyRows, knownKeyUnstableRows,
knownIdentityKinds."""
from __future__ import annotations

import dataclasses
import os
import tempfile
from collections.abc import Mapping
from dataclasses import dataclass, field
from typing import Any

import numpy as np

from .. import common, eqterm
from ..gen import kinds

OUT = common.LEAN_DIR / "PtGen" / "EqTable.lean"


# --------------------------------------------------------------------------
# extra probe instances (same KindSpec format as gen/kinds.py)
# --------------------------------------------------------------------------

_lp_cache: dict[str, Any] = {}


def lp_kernels():
    """loopy kernels used by probes and by the random DAG generator (built once)"""
    if _lp_cache:
        return _lp_cache
    import loopy as lp
    f64 = np.float64

    def vec(name, out=False):
        return lp.GlobalArg(name, dtype=f64, shape=(4,), is_input=not out)
    twice = lp.make_kernel("{[i]: 0<=i<4}", "out[i] = 2*a[i]", [vec("a"), vec("out", True)],
                           name="twice", lang_version=(2018, 2))
    thrice = lp.make_kernel("{[i]: 0<=i<4}", "out[i] = 3*a[i]", [vec("a"), vec("out", True)],
                            name="thrice", lang_version=(2018, 2))
    axpb = lp.make_kernel(
        "{[i]: 0<=i<4}", "out[i] = alpha*a[i] + b[i]\nout2[i] = a[i] - b[i]",
        [vec("a"), vec("b"), lp.ValueArg("alpha", dtype=f64), vec("out", True), vec("out2", True)],
        name="axpb", lang_version=(2018, 2))
    _lp_cache.update(twice=twice, thrice=thrice, axpb=axpb, both=lp.merge([twice, thrice]))
    return _lp_cache


def extra_specs(with_loopy=True) -> dict[str, kinds.KindSpec]:
    import pytato as pt
    from constantdict import constantdict
    from pytato.function import ReturnType, trace_call
    out: dict[str, kinds.KindSpec] = {}
    f64, i64 = np.dtype("float64"), np.dtype("int64")
    x = pt.make_placeholder("x", (4, 3), f64)
    y = pt.make_placeholder("y", (4, 3), f64)
    n = pt.make_size_param("n")
    m = pt.make_size_param("m")

    def add(name, base, variants):
        out[name] = kinds.KindSpec(name, base, variants)

    # wrapped data: one element, dtype with identical bytes, shape with identical bytes
    d0 = np.arange(12, dtype=np.float64).reshape(4, 3)
    d1 = d0.copy()
    d1[2, 1] = 99.0
    add("DataWrapper_contents", pt.make_data_wrapper(d0), {"data": [d1, d0.copy()]})
    z_i = np.zeros((4, 3), dtype=np.int64)
    z_f = np.zeros((4, 3), dtype=np.float64)
    add("DataWrapper_dtype", pt.make_data_wrapper(z_i), {"data": [z_f]})
    add("DataWrapper_symshape", pt.make_data_wrapper(z_i, shape=(n, m)),
        {"data": [np.zeros((3, 4), dtype=np.int64)]})
    # two reduction variables / two einsum reduction axes (mapping-order probes)
    add("IndexLambda_reduction2", pt.sum(x), {})
    add("Einsum_two", pt.einsum("ij,ij->", x, y), {})

    # function definitions: tuple- vs dict-returning with the same key
    def ft(a, b):
        return (a + b,)
    rt = trace_call(ft, x, y)
    fdef = rt[0]._container.function
    add("FunctionDefinition_tuple", fdef, {"return_type": [ReturnType.DICT_OF_ARRAYS]})
    if with_loopy:
        from pytato.loopy import call_loopy
        k = lp_kernels()
        a4 = pt.make_placeholder("a4", (4,), f64)
        b4 = pt.make_placeholder("b4", (4,), f64)
        both = call_loopy(k["both"], {"a": a4}, entrypoint="twice")
        add("LoopyCall_entry", both, {"entrypoint": ["thrice"]})
        two = call_loopy(k["axpb"], {"a": a4, "b": b4, "alpha": 2.0})
        add("LoopyCall_scalar", two, {
            "bindings": [constantdict({"a": a4, "b": b4, "alpha": 3.0}),
                         constantdict({"a": b4, "b": a4, "alpha": 2.0})]})
        add("LoopyCallResult_two", two["out"], {"name": ["out2"]})
    return out


def all_specs(with_loopy=True) -> dict[str, kinds.KindSpec]:
    s = dict(kinds.specs(with_loopy=with_loopy))
    for k, v in extra_specs(with_loopy=with_loopy).items():
        assert k not in s
        s[k] = v
    return s


# --------------------------------------------------------------------------
# probing
# --------------------------------------------------------------------------

@dataclass
class Probe:
    kind: str
    spec: str
    dcfield: str          # the dataclass field that was replaced
    variant: int | str    # index into spec.variants[dcfield], or "order"
    row: str              # the (pseudo-)field the pair differs in ("a+b" = compound)
    eq: Any = None
    eq_rev: Any = None
    ne: Any = None
    hash_eq: Any = None
    key_eq: Any = None
    in_set: Any = None
    in_dict: Any = None
    desc: str = ""
    invalid: bool = False     # a length mutant whose derived attributes (shape, dtype, axes) no longer compute

    @property
    def compound(self) -> bool:
        return "+" in self.row or self.invalid

    def replay(self) -> dict:
        return {"probe": {"spec": self.spec, "field": self.dcfield, "variant": self.variant,
                          "row": self.row, "kind": self.kind},
                "observed": {"eq": self.eq, "eq_reversed": self.eq_rev, "ne": self.ne,
                             "hash_equal": self.hash_eq, "key_equal": self.key_eq,
                             "in_set": self.in_set, "in_dict": self.in_dict},
                "pair": self.desc}


def _safe(fn):
    try:
        return fn()
    except Exception as e:   # an exception is an observation
        return f"EXC:{type(e).__name__}"


def diff_rows(a, b) -> list[str]:
    """(pseudo-)fields in which the serialisations of two nodes of one kind differ
    (children compared by identity); `#id` is not a difference by itself"""
    pa, pb = eqterm.node_parts(a), eqterm.node_parts(b)
    assert [p[0] for p in pa] == [p[0] for p in pb]
    out = []
    for (nm, sa, ka), (_, sb, kb) in zip(pa, pb):
        if nm == "#id":
            continue
        if sa != sb or len(ka) != len(kb) or any(u is not v for u, v in zip(ka, kb)):
            out.append(nm)
    return out


def observe(p: Probe, base, mut, keyb):
    p.eq = _safe(lambda: bool(base == mut))
    p.eq_rev = _safe(lambda: bool(mut == base))
    p.ne = _safe(lambda: bool(base != mut))
    p.hash_eq = _safe(lambda: hash(base) == hash(mut))
    p.key_eq = _safe(lambda: keyb(base) == keyb(mut))
    p.in_set = _safe(lambda: mut in {base})
    p.in_dict = _safe(lambda: {base: 1}.get(mut) == 1)


def _short(v) -> str:
    import re
    s = re.sub(r" at 0x[0-9a-f]+", "", " ".join(repr(v).split()))
    return s if len(s) <= 160 else s[:157] + "..."


def reorder_variants(base):
    """(dataclass field, reordered mapping) for mapping fields with >= 2 entries"""
    from constantdict import constantdict
    for f in dataclasses.fields(base):
        v = getattr(base, f.name)
        if isinstance(v, Mapping) and not eqterm._is_node(v) and len(v) >= 2:
            yield f.name, constantdict(reversed(list(v.items())))


def _different_like(e):
    """a value of the type of `e` that differs from it (None: no recipe)"""
    import pytato as pt
    from pytato.array import (
        Array, Axis, EinsumElementwiseAxis, EinsumReductionAxis, NormalizedSlice, ReductionDescriptor)
    if isinstance(e, Array):
        return pt.make_placeholder("len_extra", e.shape, e.dtype)
    if isinstance(e, bool):
        return not e
    if isinstance(e, (int, np.integer)):
        return int(e) + 1
    if isinstance(e, float):
        return e + 1.0
    if isinstance(e, str):
        return e + "_x"
    if isinstance(e, Axis):
        return Axis(frozenset(e.tags ^ {kinds.VBarTag()}))
    if isinstance(e, ReductionDescriptor):
        return ReductionDescriptor(frozenset(e.tags ^ {kinds.VBarTag()}))
    if isinstance(e, NormalizedSlice):
        return NormalizedSlice(0, 1, 1) if e != NormalizedSlice(0, 1, 1) else NormalizedSlice(0, 2, 1)
    if isinstance(e, EinsumElementwiseAxis):
        return EinsumElementwiseAxis(e.dim + 7)
    if isinstance(e, EinsumReductionAxis):
        return EinsumReductionAxis(e.dim + 7)
    if isinstance(e, tuple):
        return (*e, e[-1]) if e else (0,)
    from pytools.tag import Tag
    if isinstance(e, Tag):
        return kinds.VBarTag() if not isinstance(e, kinds.VBarTag) else kinds.VFooTag()
    return None


def _container_length_variants(v):
    """[(label, value of another LENGTH)] for a tuple / non-node mapping / frozenset"""
    from constantdict import constantdict
    out = []
    if isinstance(v, tuple):
        if len(v) >= 1:
            out.append(("proper prefix (last element dropped)", v[:-1]))
            out.append(("extended by an equal element", (*v, v[-1])))
            d = _different_like(v[-1])
            if d is not None:
                out.append(("extended by a different element", (*v, d)))
            if isinstance(v[0], tuple):
                out.append(("first element shortened", (v[0][:-1], *v[1:])) if v[0] else
                           ("first element extended", ((0,), *v[1:])))
                if v[0]:
                    out.append(("first element extended by an equal entry", ((*v[0], v[0][-1]), *v[1:])))
        if len(v) >= 2:
            out.append(("first element dropped", v[1:]))
            out.append(("empty instead of non-empty", ()))
        if len(v) == 0:
            out.append(("non-empty instead of empty", (0,)))
    elif isinstance(v, Mapping) and not eqterm._is_node(v):
        items = list(v.items())
        if items:
            out.append(("last entry dropped", constantdict(items[:-1])))
            k, x = items[-1]
            nk = (k + "_zz") if isinstance(k, str) else None
            if nk is None:
                nk = _different_like(k)
            if nk is not None and nk not in v:
                out.append(("extended by an entry with an equal value", constantdict([*items, (nk, x)])))
                d = _different_like(x)
                if d is not None:
                    out.append(("extended by an entry with a different value", constantdict([*items, (nk, d)])))
        if len(items) >= 2:
            out.append(("empty instead of non-empty", constantdict()))
    elif isinstance(v, frozenset):
        els = sorted(v, key=repr)
        if els:
            out.append(("one element dropped", frozenset(els[:-1])))
            d = _different_like(els[-1])
            if d is not None and d not in v:
                out.append(("one element added", frozenset([*els, d])))
        else:
            out.append(("non-empty instead of empty", frozenset({kinds.VBarTag()})))
    return out


def length_variants(base) -> list[tuple[str, str, Any]]:
    """[(dataclass field, label, value)]: the variadic fields of `base` (tuples, mappings, sets — also inside
    a sparse matrix / a held send) with another LENGTH: proper prefix, extension by an equal / a different
    element, empty vs non-empty.  A comparer that zips without a length check calls such pairs equal."""
    from pytato.array import SparseMatrix
    from pytato.distributed.nodes import DistributedSend
    out = []
    for f in dataclasses.fields(base):
        v = getattr(base, f.name)
        for lbl, nv in _container_length_variants(v):
            out.append((f.name, lbl, nv))
        if isinstance(v, (SparseMatrix, DistributedSend)) and dataclasses.is_dataclass(v):
            for g in dataclasses.fields(v):
                for lbl, nv in _container_length_variants(getattr(v, g.name)):
                    try:
                        out.append((f.name, f"{g.name}: {lbl}", dataclasses.replace(v, **{g.name: nv})))
                    except Exception:   # noqa: BLE001
                        pass
    return out


def _still_valid(node) -> bool:
    """do the derived attributes of a mutated node still compute and agree (rank = number of axes)?"""
    from pytato.array import Array
    if not isinstance(node, Array):
        return True
    try:
        shape = node.shape
        node.dtype   # noqa: B018
        return len(node.axes) == len(shape)
    except Exception:   # noqa: BLE001
        return False


def build_pair(specs, spec_name: str, dcfield: str, variant):
    sp = specs[spec_name]
    if isinstance(variant, str) and variant.startswith("len:"):
        lv = [x for x in length_variants(sp.base) if x[0] == dcfield]
        _, _, val = lv[int(variant[4:])]
        return sp.base, kinds.mutate(sp.base, dcfield, val)
    if variant == "order":
        for f, val in reorder_variants(sp.base):
            if f == dcfield:
                return sp.base, kinds.mutate(sp.base, dcfield, val)
        raise KeyError((spec_name, dcfield, variant))
    return sp.base, kinds.mutate(sp.base, dcfield, sp.variants[dcfield][int(variant)])


def probe_all(specs=None, with_loopy=True) -> tuple[list[Probe], dict]:
    from pytato.analysis import PytatoKeyBuilder
    specs = specs or all_specs(with_loopy=with_loopy)
    keyb = PytatoKeyBuilder()
    probes: list[Probe] = []
    info: dict[str, Any] = {"fields": {}, "identity": {}, "internal": [], "problems": []}
    attempts = public_attempts()
    reachable: dict[tuple[str, str], bool] = {}
    for sname in sorted(specs):
        sp = specs[sname]
        base = sp.base
        kind = eqterm.kind_of(base)
        rows = eqterm.node_fields(base)
        info["fields"].setdefault(kind, [])
        for r in rows:
            if r not in info["fields"][kind]:
                info["fields"][kind].append(r)
        # identity-compared?  (a field-for-field identical new object)
        try:
            twin = kinds.mutate(base, dataclasses.fields(base)[0].name,
                                getattr(base, dataclasses.fields(base)[0].name))
            ident = not bool(base == twin)
            twin_hash_eq = hash(base) == hash(twin)
        except Exception as e:
            info["problems"].append(f"twin:{sname}:{type(e).__name__}")
            ident, twin_hash_eq = False, True
        info["identity"][kind] = info["identity"].get(kind, False) or ident
        if not ident and not twin_hash_eq:
            info["problems"].append(f"twin-hash:{sname}")
        # API-forbidden changes
        checks = []
        if "tags" in rows and hasattr(base, "tagged"):
            checks.append(("tags", lambda: base.tagged(kinds.VFooTag())))
        if "axes" in rows and getattr(base, "ndim", 0) > 0 and hasattr(base, "with_tagged_axis"):
            checks.append(("axes", lambda: base.with_tagged_axis(0, kinds.VFooTag())))
        for fld, call in checks:
            try:
                call()
            except ValueError as e:
                if "illegal" in str(e) and (kind, fld) not in info["internal"]:
                    info["internal"].append((kind, fld))
            except Exception:
                pass
        for dcf in [f.name for f in dataclasses.fields(base)]:
            for vi, val in enumerate(sp.variants.get(dcf, [])):
                try:
                    mut = kinds.mutate(base, dcf, val)
                except Exception as e:
                    info["problems"].append(f"mutate:{sname}.{dcf}[{vi}]:{type(e).__name__}")
                    continue
                d = diff_rows(base, mut)
                if not d:
                    row = "#id" if "#id" in rows else f"{dcf}-same"
                else:
                    row = "+".join(d)
                p = Probe(kind, sname, dcf, vi, row, desc=f"{sname}: {dcf} -> {_short(val)}")
                observe(p, base, mut, keyb)
                probes.append(p)
                att = attempts.get((kind, row))
                if att is not None:
                    reachable.setdefault((kind, row), False)
                    try:
                        reachable[(kind, row)] = reachable[(kind, row)] or bool(att(base, mut))
                    except Exception as e:
                        info["problems"].append(f"public-attempt:{kind}.{row}:{type(e).__name__}")
                        reachable[(kind, row)] = True
        per_field: dict[str, int] = {}
        for dcf, lbl, val in length_variants(base):
            li = per_field.get(dcf, 0)
            per_field[dcf] = li + 1
            try:
                mut = kinds.mutate(base, dcf, val)
            except Exception:   # noqa: BLE001   (a constructor that validates the length: nothing to compare)
                info.setdefault("length_rejected", []).append(f"{sname}.{dcf}: {lbl}")
                continue
            try:
                d = diff_rows(base, mut)
            except Exception:   # noqa: BLE001   (field skeleton changed)
                d = [dcf]
            if not d:
                info["problems"].append(f"length-mutant-unchanged:{sname}.{dcf}:{lbl}")
                continue
            p = Probe(kind, sname, dcf, f"len:{li}", "+".join(d), desc=f"{sname}: {dcf} -> {lbl}",
                      invalid=not _still_valid(mut))
            observe(p, base, mut, keyb)
            probes.append(p)
        for dcf, val in reorder_variants(base):
            mut = kinds.mutate(base, dcf, val)
            d = diff_rows(base, mut)
            if d:
                info["problems"].append(f"reorder-changes-term:{sname}.{dcf}:{d}")
                continue
            row = f"{dcf}-order"
            if row not in info["fields"][kind]:
                info["fields"][kind].append(row)
            p = Probe(kind, sname, dcf, "order", row,
                      desc=f"{sname}: {dcf} with insertion order reversed")
            observe(p, base, mut, keyb)
            probes.append(p)
    for row, ok in sorted(reachable.items()):
        if not ok and row not in info["internal"]:
            info["internal"].append(row)
    return probes, info


# --------------------------------------------------------------------------
# rows reachable only through `dataclasses.replace` (DESIGN §5 C04: marker `internal`)
# --------------------------------------------------------------------------

def _csr_shape_public(base, mut) -> bool:
    """can the public constructors build the product with the mutant's matrix shape
    and everything else unchanged?"""
    import pytato as pt
    m = mut.matrix
    try:
        prod = pt.make_csr_matrix(m.shape, m.elem_values, m.elem_col_indices, m.row_starts,
                                  tags=m.tags, axes=m.axes) @ base.array
    except Exception:
        return False
    return not diff_rows(prod, mut)


def _has_param(fn, name: str) -> bool:
    import inspect
    try:
        return name in inspect.signature(fn).parameters
    except (TypeError, ValueError):
        return True


def public_attempts():
    """(kind, row) -> predicate(base, mutant): is the mutant reachable through the
    public constructors?  Evaluated on the live code; rows for which it is False
    are `internal` (probed and reported, excluded from the obligations)."""
    import pytato as pt
    return {
        ("CSRMatmul", "matrix.shape"): _csr_shape_public,
        # the matrix dtype is derived from elem_values by the only constructor
        ("CSRMatmul", "matrix.dtype"): lambda b, m: _has_param(pt.make_csr_matrix, "dtype"),
        # the reduction variable name is fixed by the only constructor
        ("CSRMatmul", "reduction_var"): lambda b, m: _has_param(pt.sparse_matmul, "reduction_var"),
    }


# --------------------------------------------------------------------------
# tables
# --------------------------------------------------------------------------

def _is_traceback(f: str) -> bool:
    return f == "non_equality_tags" or f.endswith(".non_equality_tags")


@dataclass
class Tables:
    kinds: list[str] = field(default_factory=list)
    fields: dict[str, list[str]] = field(default_factory=dict)
    semantic: dict[str, list[str]] = field(default_factory=dict)
    semantic_key: dict[str, list[str]] = field(default_factory=dict)
    eq_all: dict[str, list[str]] = field(default_factory=dict)
    eq_some: dict[str, list[str]] = field(default_factory=dict)
    hash_some: dict[str, list[str]] = field(default_factory=dict)
    key_all: dict[str, list[str]] = field(default_factory=dict)
    key_some: dict[str, list[str]] = field(default_factory=dict)
    unprobed: list[tuple[str, str]] = field(default_factory=list)
    internal: list[tuple[str, str]] = field(default_factory=list)
    traceback: list[tuple[str, str]] = field(default_factory=list)
    identity_kinds: list[str] = field(default_factory=list)
    known: dict[str, list] = field(default_factory=dict)
    probes: list[Probe] = field(default_factory=list)
    problems: list[str] = field(default_factory=list)

    def rows(self, t: dict[str, list[str]]) -> set[tuple[str, str]]:
        return {(k, f) for k, fs in t.items() for f in fs}


def build_tables(probes: list[Probe], info: dict) -> Tables:
    t = Tables()
    t.probes = probes
    t.problems = list(info["problems"])
    t.kinds = sorted(info["fields"])
    t.identity_kinds = sorted(k for k, v in info["identity"].items() if v)
    t.internal = sorted(info["internal"])
    by_row: dict[tuple[str, str], list[Probe]] = {}
    for p in probes:
        if p.compound:
            continue
        by_row.setdefault((p.kind, p.row), []).append(p)
    for k in t.kinds:
        fs = sorted(info["fields"][k])
        for f in sorted({r for (kk, r) in by_row if kk == k} - set(fs)):
            fs.append(f)        # e.g. `<field>-same` rows
        fs = sorted(fs)
        t.fields[k] = fs
        ident = k in t.identity_kinds

        def sem(f, with_id):
            if _is_traceback(f) or f.endswith("-order") or f.endswith("-same"):
                return False
            if f == "#id":
                return with_id
            return True
        t.semantic[k] = [f for f in fs if sem(f, ident)]
        t.semantic_key[k] = [f for f in fs if sem(f, False)]
        t.eq_all[k], t.eq_some[k], t.hash_some[k], t.key_all[k], t.key_some[k] = [], [], [], [], []
        for f in fs:
            ps = by_row.get((k, f), [])
            if _is_traceback(f):
                t.traceback.append((k, f))
            if not ps:
                t.unprobed.append((k, f))
                continue
            if all(p.eq is False and p.eq_rev is False for p in ps):
                t.eq_all[k].append(f)
            if any(p.eq is not True or p.eq_rev is not True for p in ps):
                t.eq_some[k].append(f)
            if any(p.hash_eq is not True for p in ps):
                t.hash_some[k].append(f)
            if all(p.key_eq is False for p in ps):
                t.key_all[k].append(f)
            if any(p.key_eq is not True for p in ps):
                t.key_some[k].append(f)
    t.unprobed.sort()
    t.traceback.sort()
    t.known = known_rows()
    return t


_KNOWN_PREFIXES = {
    ("C04", "eq-ignores:"): "knownEqRows",
    ("C04", "eq-spurious:"): "knownEqSpuriousRows",
    ("C04", "hash-finer-than-eq:"): "knownHashRows",
    ("C18", "key-ignores:"): "knownKeyRows",
    ("C18", "key-unstable:"): "knownKeyUnstableRows",
}


def known_rows() -> dict[str, list]:
    """exclusions of the table obligations: ONLY from the committed known_findings.json"""
    out: dict[str, list] = {v: [] for v in _KNOWN_PREFIXES.values()}
    out["knownIdentityKinds"] = []
    for e in common.load_known().get("known", []):
        prop, sig = e.get("property"), e.get("signature", "")
        for (pp, pre), name in _KNOWN_PREFIXES.items():
            if prop == pp and sig.startswith(pre):
                rest = sig[len(pre):]
                if "." in rest:
                    k, f = rest.split(".", 1)
                    out[name].append((k, f))
        if prop == "C04" and sig.startswith("identity-eq:"):
            out["knownIdentityKinds"].append(sig[len("identity-eq:"):])
    for v in out.values():
        v.sort()
    return out


# --------------------------------------------------------------------------
# the obligations, evaluated in Python (to name the failing row)
# --------------------------------------------------------------------------

DOCUMENTED_IDENTITY = ["DataWrapper"]


def failing_rows(t: Tables) -> dict[str, list[tuple[str, str]]]:
    """per Lean obligation name: the rows that violate it, *before* known-row
    exclusions (the caller routes each through ctx.violation, which knows the
    known signatures).  Mirrors lean/PtProofs/C04.lean and C18.lean."""
    R = t.rows
    unprobed, internal = set(t.unprobed), set(t.internal)
    eq_all, eq_some, hash_some = R(t.eq_all), R(t.eq_some), R(t.hash_some)
    key_all, key_some = R(t.key_all), R(t.key_some)
    sem, semk, tb = R(t.semantic), R(t.semantic_key), set(t.traceback)
    out: dict[str, list] = {}
    out["eq_compares_every_semantic_field"] = sorted(
        r for r in sem if r not in internal and r not in unprobed and r not in eq_all)
    out["eq_ignores_only_nonsemantic"] = sorted(
        r for r in eq_some if r[0] not in t.identity_kinds and r not in sem)
    out["hash_respects_eq"] = sorted(
        r for r in hash_some if r not in internal and r not in eq_all)
    out["identity_kinds_documented"] = sorted(
        (k, "") for k in t.identity_kinds if k not in DOCUMENTED_IDENTITY)
    out["key_fields_complete"] = sorted(
        r for r in semk if r not in unprobed and r not in key_all)
    out["key_ignores_only_nonsemantic"] = sorted(
        r for r in key_some if r not in semk and r not in tb)
    return out


# --------------------------------------------------------------------------
# rendering
# --------------------------------------------------------------------------

def _s(x: str) -> str:
    assert '"' not in x and "\\" not in x and "\n" not in x, x
    return '"' + x + '"'


def _tbl(name: str, d: dict[str, list[str]], kinds_: list[str], doc: str) -> str:
    rows = ",\n".join(f"  ({_s(k)}, [{', '.join(_s(f) for f in d.get(k, []))}])" for k in kinds_)
    return f"/-- {doc} -/\ndef {name} : List (String × List String) := [\n{rows}]\n"


def _rows(name: str, rows: list[tuple[str, str]], doc: str) -> str:
    body = ",\n".join(f"  ({_s(k)}, {_s(f)})" for k, f in rows)
    return f"/-- {doc} -/\ndef {name} : List (String × String) := [{chr(10) + body if body else ''}]\n"


def _strs(name: str, xs: list[str], doc: str) -> str:
    return f"/-- {doc} -/\ndef {name} : List String := [{', '.join(_s(x) for x in xs)}]\n"


def render(t: Tables) -> str:
    fr = failing_rows(t)
    kn = t.known
    # status of the full-strength statements today (no exclusions)
    eq_full = not fr["eq_compares_every_semantic_field"]
    key_full = not fr["key_fields_complete"]
    parts = [
        "/-\n  GENERATED by harness/extract/eqtable.py from the live pytato code — do not edit.\n"
        "  Regenerated on every run of ./check C04 / C18 before `lake build`.\n"
        "  Rows: (node kind, (pseudo-)field).  See the generator's docstring.\n-/\n"
        "namespace PtGen\n",
        _strs("kinds", t.kinds, "node kinds (classes) that were probed"),
        _tbl("fields", t.fields, t.kinds, "every probe row per kind"),
        _tbl("semanticFields", t.semantic, t.kinds,
             "C04: every field except creation tracebacks, order rows and (non-identity kinds) `#id`"),
        _tbl("semanticFieldsKey", t.semantic_key, t.kinds,
             "C18: the same without `#id` (wrapped data counts by contents, dtype, shape)"),
        _tbl("eqFlips", t.eq_all, t.kinds, "rows where EVERY probe pair compared unequal (both directions)"),
        _tbl("eqFlipsSome", t.eq_some, t.kinds, "rows where SOME probe pair compared unequal"),
        _tbl("hashFlips", t.hash_some, t.kinds, "rows where SOME probe pair hashed differently"),
        _tbl("keyFlips", t.key_all, t.kinds, "rows where EVERY probe pair got different persistent keys"),
        _tbl("keyFlipsSome", t.key_some, t.kinds, "rows where SOME probe pair got different persistent keys"),
        _rows("unprobedRows", t.unprobed, "rows without a second valid value (nothing to observe)"),
        _rows("internalRows", t.internal,
              "rows whose change the public API cannot produce (only dataclasses.replace)"),
        _rows("tracebackRows", t.traceback, "creation-traceback rows (exempt by the property statements)"),
        _strs("identityKinds", t.identity_kinds, "kinds whose instances compare by object identity"),
        _strs("documentedIdentityKinds", DOCUMENTED_IDENTITY,
              "identity comparison is documented behaviour for these"),
        _rows("knownEqRows", kn["knownEqRows"], "known_findings.json: C04 eq-ignores:K.f"),
        _rows("knownEqSpuriousRows", kn["knownEqSpuriousRows"], "known_findings.json: C04 eq-spurious:K.f"),
        _rows("knownHashRows", kn["knownHashRows"], "known_findings.json: C04 hash-finer-than-eq:K.f"),
        _strs("knownIdentityKinds", kn["knownIdentityKinds"], "known_findings.json: C04 identity-eq:K"),
        _rows("knownKeyRows", kn["knownKeyRows"], "known_findings.json: C18 key-ignores:K.f"),
        _rows("knownKeyUnstableRows", kn["knownKeyUnstableRows"], "known_findings.json: C18 key-unstable:K.f"),
        f"/-- does the full-strength C04 statement (no exclusions) hold of today's table? -/\n"
        f"def eqFullHolds : Bool := {'true' if eq_full else 'false'}\n",
        f"/-- does the full-strength C18 statement (no exclusions) hold of today's table? -/\n"
        f"def keyFullHolds : Bool := {'true' if key_full else 'false'}\n",
        "end PtGen\n",
    ]
    return "\n".join(parts)


def write_atomic(path, text: str):
    path.parent.mkdir(parents=True, exist_ok=True)
    try:
        if path.read_text() == text:
            return False
    except OSError:
        pass
    fd, tmp = tempfile.mkstemp(dir=str(path.parent), prefix=".eqtable_", suffix=".tmp")
    with os.fdopen(fd, "w") as f:
        f.write(text)
    os.replace(tmp, path)
    return True


def extract(with_loopy=True, write=True) -> Tables:
    probes, info = probe_all(with_loopy=with_loopy)
    t = build_tables(probes, info)
    if write:
        write_atomic(OUT, render(t))
    return t


def concrete_node_classes() -> list[str]:
    """every concrete node class the live package defines (what the probes must cover)"""
    import pytato.distributed.nodes as dn
    import pytato.function as fn
    import pytato.loopy as lpmod  # noqa: F401  (registers LoopyCall*)
    from pytato.array import AbstractResultWithNamedArrays, Array
    import inspect
    out = set()

    def walk(c):
        for s in c.__subclasses__():
            walk(s)
            if not inspect.isabstract(s) and s.__module__.startswith("pytato") \
                    and dataclasses.is_dataclass(s):
                out.add(s.__name__)
    walk(Array)
    walk(AbstractResultWithNamedArrays)
    out.add(fn.FunctionDefinition.__name__)
    out.add(dn.DistributedSend.__name__)
    # bases that are never instantiated
    for nm in ("IndexRemappingBase", "IndexBase", "InputArgumentBase", "SparseMatmul",
               "NamedArray" if False else "_"):
        out.discard(nm)
    return sorted(out)


if __name__ == "__main__":     # manual run: python -m harness.extract.eqtable
    common.setup_repo_import()
    tt = extract()
    print(OUT, "written;", len(tt.probes), "probes")
    for name, rows in failing_rows(tt).items():
        print(name, rows)
    print("problems:", tt.problems)

"""TRANSLATOR for C13 / C20: which children does every public mapper recurse into,
per node kind — observed on the live code, emitted as Lean tables
(`lean/PtGen/Children.lean`) whose completeness is a kernel-checked obligation.

Method: every mapper instance's class is swapped for a subclass whose `rec` /
`rec_function_definition` log (caller node, callee node) and then defer to the
original; the mapper is run on a probe node in which every edge leads to a
distinct child object (harness.gen.probes); the callee ids are translated to
edge labels by the reflective walk (harness.reflect — never a pytato mapper).
"""
from __future__ import annotations

import contextlib
import inspect
import json
from dataclasses import dataclass, field
from pathlib import Path
from typing import Any, Callable

from .. import common, reflect
from ..gen import kinds as genkinds
from ..gen import probes

OUT = common.LEAN_DIR / "PtGen" / "Children.lean"


# --------------------------------------------------------------------------
# instrumentation
# --------------------------------------------------------------------------

class BudgetExceeded(Exception):
    """a traversal made more calls than its (linear) budget allows: aborted early"""


@contextlib.contextmanager
def eq_counter(budget: int | None = None):
    """count, AT CLASS LEVEL, every `EqualityComparer.rec` call and every comparer created while
    active — also by comparers created afresh inside `Array.__eq__`, tuple `==`, dict lookups …
    (a counting subclass would not see those).  Aborts with BudgetExceeded beyond `budget` calls."""
    import pytato.equality as peq
    cls = peq.EqualityComparer
    orig_rec, orig_init = cls.rec, cls.__init__
    st = {"rec": 0, "comparers": 0}

    def rec(self, e1, e2):
        st["rec"] += 1
        if budget is not None and st["rec"] > budget:
            raise BudgetExceeded(f"EqualityComparer.rec called more than {budget} times")
        return orig_rec(self, e1, e2)

    def init(self, *a, **kw):
        st["comparers"] += 1
        orig_init(self, *a, **kw)
    cls.rec, cls.__init__ = rec, init
    try:
        yield st
    finally:
        cls.rec, cls.__init__ = orig_rec, orig_init


class CallLog:
    """(caller, callee) pairs of `rec` calls; shared by all instances created
    while it is active (cloned mappers, nested equality comparers)"""

    def __init__(self, stub_below: Any = None, budget: int | None = None):
        self.budget = budget
        self.stack: list[Any] = []
        self.pairs: list[tuple[int | None, int]] = []
        self.keep: list[Any] = []       # keep callee objects alive (ids stay unique)
        self.ncalls = 0
        self.method_calls: dict[int, int] = {}     # id(node) -> invocations of its map_* method
        self.method_order: list[int] = []
        self.instance_calls: dict[tuple[int, int], int] = {}
        self.rec_results: dict[int, list[Any]] = {}    # id(input node) -> result of every rec() on it
        # table extraction: only the probe node's own method runs; calls on its
        # children are recorded and answered by a neutral stand-in, so a refusal
        # or omission is attributed to exactly one (mapper, kind) row
        self.stub_below = stub_below

    def parent(self):
        for p in reversed(self.stack):
            if reflect._is_node(p):
                return p
        return None

    def stubbed(self, expr) -> bool:
        return (self.stub_below is not None and reflect._is_node(expr)
                and self.parent() is self.stub_below)

    def enter(self, expr):
        parent = None
        for p in reversed(self.stack):
            if reflect._is_node(p):
                parent = id(p)
                break
        self.pairs.append((parent, id(expr)))
        self.keep.append(expr)
        self.stack.append(expr)
        self.ncalls += 1
        if self.budget is not None and self.ncalls > self.budget:
            self.stack.pop()
            raise BudgetExceeded(f"more than {self.budget} rec() calls")

    def exit(self):
        self.stack.pop()

    def callees_of(self, node) -> list[int]:
        return [c for p, c in self.pairs if p == id(node)]


_LOGGING_CACHE: dict[type, type] = {}


def logging_class(cls: type, log_getter: Callable[[], CallLog | None]) -> type:
    """subclass of `cls` whose rec/rec_function_definition log to the current CallLog"""

    class Logging(cls):  # type: ignore[misc,valid-type]
        def rec(self, expr, *a, **kw):
            lg = log_getter()
            if lg is None:
                return super().rec(expr, *a, **kw)
            stub = lg.stubbed(expr)
            lg.enter(expr)
            try:
                if stub:
                    return _stand_in(self, expr)
                res = super().rec(expr, *a, **kw)
                # what THIS use of `expr` was mapped to (cache hit or miss alike)
                lg.rec_results.setdefault(id(expr), []).append(res)
                return res
            finally:
                lg.exit()

        if hasattr(cls, "rec_function_definition"):
            def rec_function_definition(self, expr, *a, **kw):
                lg = log_getter()
                if lg is None:
                    return super().rec_function_definition(expr, *a, **kw)
                stub = lg.stubbed(expr)
                lg.enter(expr)
                try:
                    if stub:
                        return _stand_in(self, expr)
                    return super().rec_function_definition(expr, *a, **kw)
                finally:
                    lg.exit()

    def counting(orig):
        def wrapped(self, expr, *a, **kw):
            lg = log_getter()
            if lg is not None and reflect._is_node(expr):
                lg.method_calls[id(expr)] = lg.method_calls.get(id(expr), 0) + 1
                # per mapper INSTANCE: a function body is walked by a clone with its own cache
                k = (id(self), id(expr))
                lg.instance_calls[k] = lg.instance_calls.get(k, 0) + 1
                lg.keep.append(self)
                lg.method_order.append(id(expr))
                lg.keep.append(expr)
            return orig(self, expr, *a, **kw)
        return wrapped

    # the per-node methods (dispatch targets `map_*`): counted once per invocation; a
    # `super().map_x(...)` inside an override resolves past this subclass and is not recounted
    for name in dir(cls):
        if name.startswith("map_") and name != "map_foreign" and inspect.isfunction(getattr(cls, name)):
            setattr(Logging, name, counting(getattr(cls, name)))

    Logging.__name__ = cls.__name__
    Logging.__qualname__ = cls.__qualname__
    Logging._verif_logging = True
    return Logging


def _stand_in(mapper, expr):
    """neutral result for a stubbed child"""
    import pytato.equality as peq
    import pytato.stringifier as pst
    import pytato.transform as ptf
    if isinstance(mapper, (ptf.TransformMapper, ptf.TransformMapperWithExtraArgs)):
        return expr
    if isinstance(mapper, peq.EqualityComparer):
        return True
    if isinstance(mapper, pst.Reprifier):
        return "_"
    if isinstance(mapper, ptf.CombineMapper):
        return mapper.combine()
    return None


_current_log: list[CallLog | None] = [None]


def _get_log():
    return _current_log[0]


def instrument(inst):
    """swap the instance's class for its logging subclass (in place)"""
    cls = type(inst)
    if getattr(cls, "_verif_logging", False):
        return inst
    if cls not in _LOGGING_CACHE:
        _LOGGING_CACHE[cls] = logging_class(cls, _get_log)
    inst.__class__ = _LOGGING_CACHE[cls]
    return inst


@contextlib.contextmanager
def logging_to(log: CallLog):
    old = _current_log[0]
    _current_log[0] = log
    try:
        yield log
    finally:
        _current_log[0] = old


@contextlib.contextmanager
def patched_class(module, name: str):
    """replace `module.<name>` by its logging subclass for the duration (for
    mapper-based *functions* that construct their own mapper)"""
    cls = getattr(module, name)
    if getattr(cls, "_verif_logging", False):      # already patched (nested use)
        yield
        return
    if cls not in _LOGGING_CACHE:
        _LOGGING_CACHE[cls] = logging_class(cls, _get_log)
    setattr(module, name, _LOGGING_CACHE[cls])
    try:
        yield
    finally:
        setattr(module, name, cls)


# --------------------------------------------------------------------------
# the mappers
# --------------------------------------------------------------------------

@dataclass
class MapperEntry:
    name: str
    run: Callable[[Any], Any]            # run the (instrumented) mapper / function on a node
    skips_function_bodies: str | None = None   # reason (quote) when function bodies are out of scope
    make: Callable[[], Any] | None = None      # fresh un-instrumented instance (for the dynamic checks)
    cached: bool = True
    transform: bool = False
    family: str = "transform"
    wraps: str | None = None             # for functions: the mapper class they run


def _doc_has(obj, text: str, module=None) -> bool:
    """is `text` still in the class's docstring / source (classes rewritten by
    optimize_mapper have no retrievable source: search their module's file)"""
    if text in (getattr(obj, "__doc__", None) or ""):
        return True
    try:
        return text in inspect.getsource(obj)
    except (OSError, TypeError):
        pass
    try:
        import sys
        mod = module or sys.modules[obj.__module__]
        src = Path(mod.__file__).read_text()
        i = src.index(f"class {obj.__name__}(")
        j = src.find("\nclass ", i + 1)
        return text in src[i:j if j > 0 else None]
    except (KeyError, ValueError, OSError, TypeError, AttributeError):
        return False


def mapper_entries() -> list[MapperEntry]:
    import pytato.analysis as pa
    import pytato.equality as peq
    import pytato.stringifier as pst
    import pytato.transform as ptf
    from ..gen.kinds import VFooTag

    class _Combine(ptf.CombineMapper):
        """smallest concrete CombineMapper (the base is abstract in `combine`)"""
        def combine(self, *args):
            return None
    _Combine.__name__ = "CombineMapper"

    class _CachedWalk(ptf.CachedWalkMapper):
        """smallest concrete CachedWalkMapper (the base is abstract in the key)"""
        def get_cache_key(self, expr):
            return id(expr)

        def get_function_definition_cache_key(self, expr):
            return id(expr)
    _CachedWalk.__name__ = "CachedWalkMapper"

    out: list[MapperEntry] = []

    def cls_entry(name, make, skips=None, call=None, **kw):
        def run(node, make=make, call=call, name=name):
            # instances the mapper constructs itself by class name (e.g.
            # `InputGatherer()` for a function body) are instrumented as well
            with contextlib.ExitStack() as st:
                for mod in (ptf, pa):
                    if isinstance(getattr(mod, name, None), type):
                        st.enter_context(patched_class(mod, name))
                inst = instrument(make())
                return (call or (lambda i, n: i(n)))(inst, node)
        out.append(MapperEntry(name, run, skips, make=make, **kw))

    def fn_entry(name, module, clsname, fn, skips=None, **kw):
        def run(node, module=module, clsname=clsname, fn=fn):
            with patched_class(module, clsname):
                return fn(node)
        out.append(MapperEntry("fn:" + name, run, skips, wraps=clsname, **kw))

    # reasons a mapper is documented not to enter function bodies; each quote is
    # checked against today's source (else the exclusion is dropped)
    def quote(obj, text, module=None):
        return text if _doc_has(obj, text, module) else None

    q_topo = quote(ptf.TopoSortMapper, "Does not consider the nodes inside", ptf)
    q_dep = quote(ptf.DependencyMapper, "do not include arrays from the function's body")
    q_users = quote(ptf.UsersCollector, "Instantiate another UsersCollector")
    # ListOfUsersCollector returns a node-keyed mapping of one namespace, like the two above
    q_lusers = quote(pa.ListOfUsersCollector, "def map_call")

    cls_entry("CopyMapper", ptf.CopyMapper, transform=True)
    cls_entry("CopyMapperWithExtraArgs", ptf.CopyMapperWithExtraArgs, transform=True)
    cls_entry("Deduplicator", ptf.Deduplicator, transform=True)
    cls_entry("CachedMapAndCopyMapper", lambda: ptf.CachedMapAndCopyMapper(lambda x: x), transform=True)
    cls_entry("DataWrapperDeduplicator", ptf.DataWrapperDeduplicator, transform=True)
    cls_entry("CombineMapper", _Combine)
    cls_entry("DependencyMapper", ptf.DependencyMapper, q_dep)
    cls_entry("SubsetDependencyMapper", lambda: ptf.SubsetDependencyMapper(frozenset()), q_dep)
    cls_entry("InputGatherer", ptf.InputGatherer)
    cls_entry("ListOfInputsGatherer", ptf.ListOfInputsGatherer)
    cls_entry("SizeParamGatherer", ptf.SizeParamGatherer)
    cls_entry("WalkMapper", ptf.WalkMapper, cached=False)
    cls_entry("CachedWalkMapper", _CachedWalk)
    cls_entry("TopoSortMapper", ptf.TopoSortMapper, q_topo)
    cls_entry("UsersCollector", ptf.UsersCollector, q_users)
    cls_entry("ListOfUsersCollector", pa.ListOfUsersCollector, q_lusers, family="analysis")
    cls_entry("NodeCountMapper", lambda: pa.NodeCountMapper(count_duplicates=True), family="analysis")
    cls_entry("NodeMultiplicityMapper", pa.NodeMultiplicityMapper, family="analysis")
    cls_entry("CallSiteCountMapper", pa.CallSiteCountMapper, family="analysis")
    cls_entry("TagCountMapper", lambda: pa.TagCountMapper(VFooTag), family="analysis")
    cls_entry("MaterializedNodeCollector", pa.MaterializedNodeCollector, family="analysis")

    # equality: rec(expr1, expr2) on two equal but distinct copies; nested `==`
    # creates further comparers, so the class is patched module-wide
    def run_eq(node):
        # `==` on non-node fields (NormalizedSlice, tuples) creates further comparers that
        # cannot be instrumented; the row is therefore read off the RESULT: an edge counts as
        # compared when replacing its child (in an otherwise equal copy) makes the nodes unequal
        cmp = peq.EqualityComparer()
        if not cmp(node, equal_copy(node)):
            raise AssertionError("equal copy compares unequal")
        reached = []
        for label, c in reflect.children(node, into_functions=True):
            try:
                other = probes.replace_child(equal_copy(node), label, different_from(c))
            except TypeError:
                continue
            if not peq.EqualityComparer()(node, other):
                reached.append(label)
        return ("labels", reached)
    out.append(MapperEntry("EqualityComparer", run_eq, None, family="equality",
                           make=peq.EqualityComparer))

    def run_repr(node):
        # children hidden in non-node fields (CSRMatrix, DistributedSend) are printed through
        # nested, per-object cached repr() calls; the row is therefore read off the OUTPUT:
        # an edge counts as reached when its child's own rendering occurs in the string
        text = pst.Reprifier(truncation_depth=10 ** 6)(node)
        return ("string", text)
    out.append(MapperEntry("Reprifier", run_repr, None, cached=True, family="stringifier",
                           make=lambda: pst.Reprifier(truncation_depth=10 ** 6)))

    # mapper-based public functions
    fn_entry("deduplicate", ptf, "Deduplicator", ptf.deduplicate, transform=True)
    fn_entry("map_and_copy", ptf, "CachedMapAndCopyMapper",
             lambda n: ptf.map_and_copy(n, lambda x: x), transform=True)
    fn_entry("deduplicate_data_wrappers", ptf, "DataWrapperDeduplicator",
             ptf.deduplicate_data_wrappers, transform=True)
    fn_entry("get_users", ptf, "UsersCollector", ptf.get_users, q_users)
    fn_entry("get_nusers", pa, "ListOfUsersCollector", pa.get_nusers, q_lusers, family="analysis")
    fn_entry("get_list_of_users", pa, "ListOfUsersCollector", pa.get_list_of_users, q_lusers,
             family="analysis")
    fn_entry("get_num_nodes", pa, "NodeCountMapper",
             lambda n: pa.get_num_nodes(n, count_duplicates=True), family="analysis")
    fn_entry("get_node_type_counts", pa, "NodeCountMapper", pa.get_node_type_counts, family="analysis")
    fn_entry("get_node_multiplicities", pa, "NodeMultiplicityMapper", pa.get_node_multiplicities,
             family="analysis")
    fn_entry("get_num_call_sites", pa, "CallSiteCountMapper", pa.get_num_call_sites, family="analysis")
    fn_entry("get_num_tags_of_type", pa, "TagCountMapper",
             lambda n: pa.get_num_tags_of_type(n, VFooTag), family="analysis")
    fn_entry("collect_materialized_nodes", pa, "MaterializedNodeCollector",
             pa.collect_materialized_nodes, family="analysis")
    return out


def different_from(child):
    """a valid stand-in for `child` that is structurally different from it"""
    import dataclasses

    from pytato.array import Array, DictOfNamedArrays
    from pytato.function import Call, FunctionDefinition
    from pytato.loopy import LoopyCall
    from ..gen.kinds import VFooTag
    if isinstance(child, Array) and not child.shape == () or isinstance(child, Array):
        try:
            return probes.fresh_like(child)
        except TypeError:
            pass
    if isinstance(child, DictOfNamedArrays):
        return DictOfNamedArrays(dict(child._data), tags=child.tags | {VFooTag()})
    if isinstance(child, (Call, LoopyCall, FunctionDefinition)):
        return dataclasses.replace(child, tags=child.tags | {VFooTag()})
    raise TypeError(type(child).__name__)


def equal_copy(node):
    """a structurally equal copy of `node` sharing no *array* object with it
    (DataWrappers compare by identity and are shared), built reflectively"""
    import dataclasses

    from pytato.array import DataWrapper, DictOfNamedArrays
    from pytato.function import FunctionDefinition
    memo: dict[int, Any] = {}

    def cp(n):
        if id(n) in memo:
            return memo[id(n)]
        if isinstance(n, DataWrapper):
            memo[id(n)] = n
            return n
        new = n
        touched = False
        for label, c in reflect.children(n, into_functions=True):
            new = probes.replace_child(new, label, cp(c))
            touched = True
        if not touched:
            if isinstance(n, DictOfNamedArrays):
                new = DictOfNamedArrays(dict(n._data), tags=n.tags)
            elif isinstance(n, FunctionDefinition):
                new = dataclasses.replace(n)
            else:
                new = dataclasses.replace(n)
        memo[id(n)] = new
        return new
    return cp(node)


# --------------------------------------------------------------------------
# extraction
# --------------------------------------------------------------------------

def edge_table(node) -> dict[int, str]:
    """id(child) -> label for stored edges, then derived-shape edges"""
    lab: dict[int, str] = {}
    for label, c in reflect.children(node, into_functions=True):
        lab.setdefault(id(c), label)
    for label, c in reflect.derived_shape_children(node):
        lab.setdefault(id(c), label)
    return lab


def probe_row(entry: MapperEntry, node) -> tuple[str, Any]:
    """('visited', sorted labels) | ('raises', exception class name)"""
    lab = edge_table(node)
    log = CallLog(stub_below=node)
    try:
        with logging_to(log):
            res = entry.run(node)
    except Exception as e:      # noqa: BLE001 - the table records refusals as data
        return "raises", type(e).__name__
    if isinstance(res, tuple) and len(res) == 2 and res[0] == "labels":
        return "visited", sorted(res[1])
    if isinstance(res, tuple) and len(res) == 2 and res[0] == "string":
        import pytato.stringifier as pst
        labels = []
        for label, c in reflect.children(node, into_functions=True):
            sub = pst.Reprifier(truncation_depth=10 ** 6)(c) if not isinstance(c, dict) else None
            if sub and sub in res[1]:
                labels.append(label)
        return "visited", sorted(labels)
    labels = sorted({lab[c] for c in log.callees_of(node) if c in lab})
    return "visited", labels


MAPPER_KINDS_SKIP = {"DistributedSend"}     # not an ArrayOrNames: reached through its holder only


def users_rows(node) -> dict[str, tuple[str, Any]]:
    """C20: per implementation the edges of `node` it reports (with multiplicity)"""
    import pytato.analysis as pa
    import pytato.transform as ptf
    lab = edge_table(node)
    kids_by_label = {label: c for label, c in reflect.children(node, into_functions=True)}
    for label, c in reflect.derived_shape_children(node):
        kids_by_label.setdefault(label, c) if id(c) in lab and lab[id(c)] == label else None
    res: dict[str, tuple[str, Any]] = {}
    # ListOfUsersCollector: child -> [users]
    try:
        lu = pa.ListOfUsersCollector()
        lu(node)
        labels = []
        for label, c in kids_by_label.items():
            users = lu.array_to_users.get(c, []) if _hashable(c) else []
            labels += [label] * sum(1 for u in users if u is node)
        res["ListOfUsersCollector"] = ("reports", sorted(labels))
    except Exception as e:   # noqa: BLE001
        res["ListOfUsersCollector"] = ("raises", type(e).__name__)
    # UsersCollector: child -> {users}
    try:
        uc = ptf.UsersCollector()
        uc(node)
        labels = []
        for label, c in kids_by_label.items():
            users = uc.node_to_users.get(c, set()) if _hashable(c) else set()
            if any(u is node for u in users):
                labels.append(label)
        res["UsersCollector"] = ("reports", sorted(labels))
    except Exception as e:   # noqa: BLE001
        res["UsersCollector"] = ("raises", type(e).__name__)
    # ListOfDirectPredecessorsGetter: node -> [preds]
    try:
        dp = pa.ListOfDirectPredecessorsGetter()(node)
        derived = reflect.derived_shape_children(node)

        def label_of(p):
            if id(p) in lab:
                return lab[id(p)]
            # a derived `.shape` is rebuilt on every access: identify by equality
            for dl, dc in derived:
                if type(dc) is type(p) and dc == p:
                    return dl
            return "other:" + type(p).__name__
        labels = sorted(label_of(p) for p in dp)
        res["ListOfDirectPredecessorsGetter"] = ("reports", labels)
    except Exception as e:   # noqa: BLE001
        res["ListOfDirectPredecessorsGetter"] = ("raises", type(e).__name__)
    return res


def _hashable(x) -> bool:
    try:
        hash(x)
        return True
    except TypeError:
        return False


USERS_IMPLS = ["ListOfUsersCollector", "UsersCollector", "ListOfDirectPredecessorsGetter"]
# a FunctionDefinition is not an expression graph root (`ArrayOrNames`) for the users collectors
USERS_KINDS_SKIP = {"FunctionDefinition"}


def documented_exclusions() -> list[tuple[str, str, str, str]]:
    """(mapper, node class, edge class, quote): a child the mapper need not recurse into by
    its documented semantics; the quote must still be in today's source"""
    import pytato.equality as peq
    out = []
    q = "return expr1 is expr2"
    if _doc_has(peq.EqualityComparer.map_data_wrapper, q):
        # data wrappers are equal only when identical: nothing to compare below them
        out.append(("EqualityComparer", "DataWrapper", "shape", q))
    return out


@dataclass
class Tables:
    kinds: dict[str, Any] = field(default_factory=dict)                 # probe name -> node
    array_edges: dict[str, list[tuple[str, str]]] = field(default_factory=dict)   # kind -> [(label, class)]
    derived_edges: dict[str, list[tuple[str, str]]] = field(default_factory=dict)
    rows: list[tuple[str, str, list[str]]] = field(default_factory=list)          # mapper, kind, labels
    unsupported: list[tuple[str, str, str]] = field(default_factory=list)         # mapper, kind, exception
    skips: dict[str, str] = field(default_factory=dict)                 # mapper -> quoted reason
    users: list[tuple[str, str, list[str]]] = field(default_factory=list)         # impl, kind, labels
    users_unsupported: list[tuple[str, str, str]] = field(default_factory=list)
    entries: list[MapperEntry] = field(default_factory=list)
    kind_class: dict[str, str] = field(default_factory=dict)            # probe name -> class name
    doc_exclusions: list[tuple[str, str, str, str]] = field(default_factory=list)  # mapper, class, edge class, quote

    def cls(self, kind: str) -> str:
        return self.kind_class[kind]


def extract(with_loopy: bool = True) -> Tables:
    t = Tables()
    t.kinds = {k: v for k, v in probes.probe_nodes(with_loopy).items()
               if type(v).__name__ not in MAPPER_KINDS_SKIP}
    t.entries = mapper_entries()
    t.kind_class = {k: type(v).__name__ for k, v in t.kinds.items()}
    t.doc_exclusions = documented_exclusions()
    for k, node in t.kinds.items():
        t.array_edges[k] = [(lb, probes.edge_class(lb))
                            for lb, _ in reflect.children(node, into_functions=True)]
        stored = {id(c) for _, c in reflect.children(node, into_functions=True)}
        t.derived_edges[k] = [(lb, probes.edge_class(lb))
                              for lb, c in reflect.derived_shape_children(node) if id(c) not in stored]
    for e in t.entries:
        if e.skips_function_bodies:
            t.skips[e.name] = e.skips_function_bodies
        for k, node in t.kinds.items():
            st, val = probe_row(e, node)
            if st == "visited":
                t.rows.append((e.name, k, val))
            else:
                t.unsupported.append((e.name, k, val))
    for k, node in t.kinds.items():
        if t.kind_class[k] in USERS_KINDS_SKIP:
            continue
        for impl, (st, val) in users_rows(node).items():
            if st == "reports":
                t.users.append((impl, k, val))
            else:
                t.users_unsupported.append((impl, k, val))
    return t


# --------------------------------------------------------------------------
# expectations (mirrored by the Lean obligations; used to LOCATE failing rows)
# --------------------------------------------------------------------------

FUNCTION_BODY_CLASSES = ("function", "ret")


def scope_excluded(t: Tables, mapper: str, cls: str, kind: str | None = None) -> bool:
    if mapper in t.skips and cls in FUNCTION_BODY_CLASSES:
        return True
    if kind is not None:
        return any(m == mapper and kc == t.cls(kind) and ec == cls for m, kc, ec, _ in t.doc_exclusions)
    return False


def missing_rows(t: Tables) -> list[tuple[str, str, str, str]]:
    """(mapper, kind, label, class) of every expected edge a mapper did not recurse into"""
    out = []
    for m, k, labels in t.rows:
        for lb, cls in t.array_edges[k]:
            if scope_excluded(t, m, cls, k):
                continue
            if lb not in labels:
                out.append((m, k, lb, cls))
    return out


def users_pattern(t: Tables, kind: str, label: str) -> str:
    """e.g. 'L-U-P+': which of the three implementations report the edge;
    '!' = the implementation raises on this kind"""
    s = ""
    for impl, ch in zip(USERS_IMPLS, "LUP"):
        row = [r for r in t.users if r[0] == impl and r[1] == kind]
        if not row:
            s += ch + "!"
        else:
            s += ch + ("+" if label in row[0][2] else "-")
    return s


def users_disagreements(t: Tables) -> list[tuple[str, str, str, str]]:
    """(kind, label, class, pattern) for every edge not reported by all three"""
    out = []
    for k in t.kinds:
        labels: list[str] = []
        for impl, kk, ls in t.users:
            if kk == k:
                labels += [x for x in ls if x not in labels]
        for lb in sorted(labels):
            pat = users_pattern(t, k, lb)
            if pat != "L+U+P+":
                out.append((k, lb, probes.edge_class(lb), pat))
            else:
                # multiplicities of the two list-valued implementations
                cl = [r[2].count(lb) for r in t.users if r[1] == k and r[0] == USERS_IMPLS[0]]
                cp = [r[2].count(lb) for r in t.users if r[1] == k and r[0] == USERS_IMPLS[2]]
                if cl != cp:
                    out.append((k, lb, probes.edge_class(lb), f"mult:{cl}:{cp}"))
        for impl, kk, exc in t.users_unsupported:
            if kk == k:
                out.append((k, "*", "raises", f"{impl}:{exc}"))
    return out


def exclusions_for(t: Tables, mapper: str) -> list[tuple[str, str]]:
    """the (node class, edge class) pairs the mapper was observed NOT to follow — the `sel`
    of the Lean model for this mapper, read off today's table"""
    out = set()
    for m, k, labels in t.rows:
        if m != mapper:
            continue
        for lb, ec in t.array_edges[k]:
            if lb not in labels:
                out.add((t.cls(k), ec))
    return sorted(out)


def refused_kinds(t: Tables, mapper: str) -> dict[str, str]:
    """node class -> exception the mapper raises on it (today's table)"""
    return {t.cls(k): x for m, k, x in t.unsupported if m == mapper}


# --------------------------------------------------------------------------
# signatures
# --------------------------------------------------------------------------

INDEX_CLASSES = ("BasicIndex", "AdvancedIndexInContiguousAxes", "AdvancedIndexInNoncontiguousAxes")


def index_family(cls: str) -> str:
    return "IndexBase" if cls in INDEX_CLASSES else cls


def mapper_alias(t: Tables) -> dict[str, str]:
    """mapper-based function -> mapper class it runs (signatures name the class)"""
    out = {}
    for e in t.entries:
        if e.name.startswith("fn:") and e.wraps:
            out[e.name] = e.wraps
    return out


def aggregated_mappers(t: Tables) -> list[str]:
    """mapper classes observed through their `rec` calls (all but the two observed through
    their output): an edge class missed by ALL of them is one finding, not thirty"""
    return sorted({mapper_alias(t).get(e.name, e.name) for e in t.entries
                   if e.family in ("transform", "analysis")})


def miss_signatures(t: Tables) -> dict[str, list[tuple[str, str, str, str]]]:
    """signature -> failing rows.  An (index-family class, edge class) missed by every
    aggregated mapper gets the single signature mapper-misses:ALL:<Class>:<edge class>."""
    alias = mapper_alias(t)
    agg = set(aggregated_mappers(t))
    miss = missing_rows(t)
    by_edge: dict[tuple[str, str], set[str]] = {}
    for m, k, lb, ec in miss:
        by_edge.setdefault((index_family(t.cls(k)), ec), set()).add(alias.get(m, m))
    sigs: dict[str, list] = {}
    for m, k, lb, ec in miss:
        mm = alias.get(m, m)
        fam = index_family(t.cls(k))
        if mm in agg and agg <= by_edge[(fam, ec)]:
            sig = f"mapper-misses:ALL:{fam}:{ec}"
        else:
            sig = f"mapper-misses:{mm}:{t.cls(k)}:{ec}"
        sigs.setdefault(sig, []).append((m, k, lb, ec))
    return sigs


def users_signatures(t: Tables) -> dict[str, list[tuple[str, str, str, str]]]:
    sigs: dict[str, list] = {}
    for k, lb, ec, pat in users_disagreements(t):
        if ec == "raises":
            impl, exc = pat.split(":")
            sig = f"users-raises:{impl}:{t.cls(k)}"
        else:
            sig = f"users-disagree:{t.cls(k)}:{ec}:{pat}"
        sigs.setdefault(sig, []).append((k, lb, ec, pat))
    return sigs


def _pattern_nums(pat: str) -> list[int] | None:
    out = []
    for i in range(0, len(pat), 2):
        mark = pat[i + 1:i + 2]
        if mark not in "-+!" or not mark:
            return None
        out.append("-+!".index(mark))
    return out


# --------------------------------------------------------------------------
# known findings -> rows
# --------------------------------------------------------------------------

def known_rows():
    """rows excluded from the table obligations: ONLY from the committed known_findings.json.
    C13 `mapper-misses:<Mapper|ALL>:<Class>:<edge class>`;
    C20 `users-disagree:<Class>:<edge class>:<pattern>` and `users-raises:<Impl>:<Class>`."""
    k = common.load_known()
    c13, c20, c20r = [], [], []
    for e in k.get("known", []):
        parts = e.get("signature", "").split(":")
        if e.get("property") == "C13" and parts[0] == "mapper-misses" and len(parts) == 4:
            c13.append((parts[1], parts[2], parts[3]))
        if e.get("property") == "C20" and parts[0] == "users-disagree" and len(parts) == 4:
            nums = _pattern_nums(parts[3])
            if nums is not None:
                c20.append((parts[1], parts[2], nums))
        if e.get("property") == "C20" and parts[0] == "users-raises" and len(parts) == 3:
            c20r.append((parts[1], parts[2]))
    return c13, c20, c20r


# --------------------------------------------------------------------------
# Lean rendering
# --------------------------------------------------------------------------

def _s(x: str) -> str:
    return json.dumps(x)


def _lst(xs, f=_s) -> str:
    return "[" + ", ".join(f(x) for x in xs) + "]"


def _t3(r) -> str:
    return f"({_s(r[0])}, {_s(r[1])}, {_s(r[2])})"


def _pairs(v) -> str:
    return _lst(v, lambda p: f"({_s(p[0])}, {_s(p[1])})")


def render(t: Tables) -> str:
    c13, c20, c20r = known_rows()
    L = []
    L.append("/- GENERATED by harness/extract/children.py from the live pytato sources — do not edit.")
    L.append("   Regenerated on every run of ./check C13 / C20 before `lake build`. -/")
    L.append("import PtModel.Tables")
    L.append("namespace PtGen")
    L.append("open Pt.Tables")
    L.append("")
    L.append("/-- probe kind ↦ every array-valued edge the node stores: (label, class); from the reflective")
    L.append("    walk over dataclass fields, independent of all mappers -/")
    L.append("def arrayEdges : List (String × List (String × String)) := [")
    L.append(",\n".join(f"  ({_s(k)}, {_pairs(v)})" for k, v in t.array_edges.items()))
    L.append("]")
    L.append("")
    L.append("/-- probe kind ↦ array-valued components of a *derived* shape (not stored) -/")
    L.append("def derivedEdges : List (String × List (String × String)) := [")
    L.append(",\n".join(f"  ({_s(k)}, {_pairs(v)})" for k, v in t.derived_edges.items()))
    L.append("]")
    L.append("")
    L.append("def kindClass : List (String × String) := " + _pairs(list(t.kind_class.items())))
    L.append("")
    L.append("/-- (mapper, probe kind, labels of the children the mapper's method recursed into) -/")
    L.append("def mapperKinds : List (String × String × List String) := [")
    L.append(",\n".join(f"  ({_s(m)}, {_s(k)}, {_lst(ls)})" for m, k, ls in t.rows))
    L.append("]")
    L.append("")
    L.append("/-- (mapper, probe kind, exception): the mapper refuses the kind loudly (data, no obligation) -/")
    L.append("def unsupported : List (String × String × String) := [")
    L.append(",\n".join("  " + _t3(r) for r in t.unsupported))
    L.append("]")
    L.append("")
    L.append("def mapperAlias : List (String × String) := " + _pairs(sorted(mapper_alias(t).items())))
    L.append("")
    L.append("/-- mappers whose documentation puts function bodies out of scope (quote found in today's source) -/")
    L.append("def skipsFunctionBodies : List String := " + _lst(sorted(t.skips)))
    L.append("")
    L.append("/-- (mapper, node class, edge class) excused by documented semantics (quote found in today's source) -/")
    L.append("def documentedExclusions : List (String × String × String) := "
             + _lst([r[:3] for r in t.doc_exclusions], _t3))
    L.append("")
    L.append("/-- C13 known findings — rendered from known_findings.json only -/")
    L.append("def knownMisses : List (String × String × String) := " + _lst(c13, _t3))
    L.append("")
    L.append("def childrenTables : ChildrenTables :=")
    L.append("  { arrayEdges := arrayEdges, kindClass := kindClass, mapperKinds := mapperKinds,")
    L.append("    mapperAlias := mapperAlias, skipsFunctionBodies := skipsFunctionBodies,")
    L.append("    documentedExclusions := documentedExclusions, knownMisses := knownMisses,")
    L.append("    aggregated := " + _lst(aggregated_mappers(t)) + " }")
    L.append("")
    L.append("/-- C20: (implementation, probe kind, edges of the node it reports as user/predecessor pairs) -/")
    L.append("def usersEdges : List (String × String × List String) := [")
    L.append(",\n".join(f"  ({_s(m)}, {_s(k)}, {_lst(ls)})" for m, k, ls in t.users))
    L.append("]")
    L.append("")
    L.append("def usersUnsupported : List (String × String × String) := [")
    L.append(",\n".join("  " + _t3(r) for r in t.users_unsupported))
    L.append("]")
    L.append("")
    allu = []
    for k in t.kinds:
        seen: list[str] = []
        for impl, kk, ls in t.users:
            if kk == k:
                seen += [x for x in ls if x not in seen]
        allu += [(k, lb, probes.edge_class(lb)) for lb in sorted(seen)]
    L.append("/-- (probe kind, label, class) of every edge some implementation reports -/")
    L.append("def usersLabels : List (String × String × String) := [")
    L.append(",\n".join("  " + _t3(r) for r in allu))
    L.append("]")
    L.append("")
    L.append("/-- C20 known findings — rendered from known_findings.json only -/")
    L.append("def knownUsersDisagree : List (String × String × List Nat) := "
             + _lst(c20, lambda r: f"({_s(r[0])}, {_s(r[1])}, [{', '.join(map(str, r[2]))}])"))
    L.append("def knownUsersRaises : List (String × String) := " + _pairs(c20r))
    L.append("")
    L.append("def usersTables : UsersTables :=")
    L.append("  { impls := " + _lst(USERS_IMPLS) + ", usersEdges := usersEdges,")
    L.append("    usersUnsupported := usersUnsupported, usersLabels := usersLabels, kindClass := kindClass,")
    L.append("    known := knownUsersDisagree, knownRaises := knownUsersRaises }")
    L.append("")
    L.append("end PtGen")
    return "\n".join(L) + "\n"


def render_witness(t: Tables) -> str:
    """negations of the FULL statements, emitted only for what fails TODAY (so a repaired
    tree is never blocked), kernel-checked next to the `_partial` obligations"""
    L = ["/- GENERATED by harness/extract/children.py — do not edit. -/",
         "import PtGen.Children", "namespace PtGen", "open Pt.Tables", ""]
    L.append("/-- full-strength C13 table statement: no known-finding exclusions -/")
    L.append("abbrev ChildrenFull : Prop := childrenTables.complete false = true")
    L.append("/-- full-strength C20 table statement: no known-finding exclusions -/")
    L.append("abbrev UsersFull : Prop := usersTables.agreeAll false = true")
    L.append("")
    if missing_rows(t):
        L.append("/-- today's tables exhibit missed children (witness rows are replayed on the real code) -/")
        L.append("theorem childrenFull_fails_today : ¬ ChildrenFull := by decide +kernel")
    if users_disagreements(t):
        L.append("/-- today's tables exhibit disagreeing users/predecessor implementations -/")
        L.append("theorem usersFull_fails_today : ¬ UsersFull := by decide +kernel")
    L.append("")
    L.append("end PtGen")
    return "\n".join(L) + "\n"


OUT_WITNESS = common.LEAN_DIR / "PtGen" / "ChildrenWitness.lean"


def regenerate(with_loopy: bool = True) -> Tables:
    t = extract(with_loopy)
    OUT.parent.mkdir(exist_ok=True)
    for path, text in ((OUT, render(t)), (OUT_WITNESS, render_witness(t))):
        if not path.exists() or path.read_text() != text:
            path.write_text(text)
    return t


if __name__ == "__main__":
    common.setup_repo_import()
    tb = regenerate()
    print(f"{len(tb.rows)} rows, {len(tb.unsupported)} refusals, {len(missing_rows(tb))} missing edges")

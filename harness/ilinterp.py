"""Pointwise interpreter of IndexLambda expressions, written from the IndexLambda
docstring ("the value at index (_0,…,_{n-1}) is expr with bindings as arrays").
Independent of pytato's own mappers and of the Lean model: it is the oracle of
the failing-input searches.  Records every out-of-bounds subscript."""
from __future__ import annotations

import math

import numpy as np
import pymbolic.primitives as prim


class ILError(Exception):
    pass


_NP_FUNCS = {
    "abs": np.abs, "fabs": np.abs, "sqrt": np.sqrt, "sin": np.sin, "cos": np.cos, "tan": np.tan,
    "arcsin": np.arcsin, "arccos": np.arccos, "arctan": np.arctan, "sinh": np.sinh,
    "cosh": np.cosh, "tanh": np.tanh, "exp": np.exp, "log": np.log, "log10": np.log10,
    "isnan": np.isnan, "real": np.real, "imag": np.imag, "conj": np.conj,
    "arctan2": np.arctan2, "floor": np.floor, "ceil": np.ceil,
    "asin": np.arcsin, "acos": np.arccos, "atan": np.arctan, "atan2": np.arctan2,
    "fmax": np.fmax, "fmin": np.fmin, "max": np.maximum, "min": np.minimum,
    "sign": np.sign, "trunc": np.trunc, "pow": np.power,
}


class Interp:
    def __init__(self, bindings: dict[str, np.ndarray]):
        self.bindings = bindings
        self.oob: list[tuple] = []        # (name, index tuple, data_dependent?)
        self.naccess = 0

    def ev(self, e, env):
        from pytato.scalar_expr import Reduce, TypeCast
        if isinstance(e, (bool, np.bool_, int, np.integer, float, np.floating, complex,
                          np.complexfloating)):
            return e
        if isinstance(e, prim.Variable):
            if e.name in env:
                return env[e.name]
            if e.name in self.bindings:
                a = self.bindings[e.name]
                if a.shape != ():
                    raise ILError(f"bare reference to non-scalar binding {e.name}")
                return a[()]
            raise ILError(f"unbound variable {e.name}")
        if isinstance(e, prim.Subscript):
            a = self.bindings[e.aggregate.name]
            idx = e.index if isinstance(e.index, tuple) else (e.index,)
            iv = tuple(self.ev(i, env) for i in idx)
            self.naccess += 1
            dd = any(_has_sub(i) for i in idx)
            ivi = []
            for v in iv:
                if isinstance(v, (float, np.floating)) and float(v) != int(v):
                    raise ILError("non-integer index")
                ivi.append(int(v))
            if len(ivi) != a.ndim or any(not (0 <= k < n) for k, n in zip(ivi, a.shape)):
                self.oob.append((e.aggregate.name, tuple(ivi), dd))
                return _undef(a.dtype)
            return a[tuple(ivi)]
        if isinstance(e, prim.Sum):
            r = self.ev(e.children[0], env)
            for c in e.children[1:]:
                r = r + self.ev(c, env)
            return r
        if isinstance(e, prim.Product):
            r = self.ev(e.children[0], env)
            for c in e.children[1:]:
                r = r * self.ev(c, env)
            return r
        if isinstance(e, prim.Quotient):
            n, d = self.ev(e.numerator, env), self.ev(e.denominator, env)
            with np.errstate(all="ignore"):
                return np.true_divide(n, d)
        if isinstance(e, prim.FloorDiv):
            n, d = self.ev(e.numerator, env), self.ev(e.denominator, env)
            with np.errstate(all="ignore"):
                return np.floor_divide(n, d)
        if isinstance(e, prim.Remainder):
            n, d = self.ev(e.numerator, env), self.ev(e.denominator, env)
            with np.errstate(all="ignore"):
                return np.remainder(n, d)
        if isinstance(e, prim.Power):
            b, x = self.ev(e.base, env), self.ev(e.exponent, env)
            with np.errstate(all="ignore"):
                if isinstance(b, (int, np.integer)) and isinstance(x, (int, np.integer)) and x < 0:
                    return np.float64(b) ** x
                return np.power(b, x)
        if isinstance(e, prim.Comparison):
            import operator
            op = {"==": operator.eq, "!=": operator.ne, "<": operator.lt, "<=": operator.le,
                  ">": operator.gt, ">=": operator.ge}[e.operator]
            return bool(op(self.ev(e.left, env), self.ev(e.right, env)))
        if isinstance(e, prim.LogicalAnd):
            return all(bool(self.ev(c, env)) for c in e.children)
        if isinstance(e, prim.LogicalOr):
            return any(bool(self.ev(c, env)) for c in e.children)
        if isinstance(e, prim.LogicalNot):
            return not bool(self.ev(e.child, env))
        if isinstance(e, prim.If):
            return self.ev(e.then, env) if bool(self.ev(e.condition, env)) else self.ev(e.else_, env)
        if isinstance(e, prim.NaN):
            return np.float64("nan") if e.data_type is None else e.data_type("nan")
        if isinstance(e, prim.BitwiseAnd):
            r = self.ev(e.children[0], env)
            for c in e.children[1:]:
                r = r & self.ev(c, env)
            return r
        if isinstance(e, prim.BitwiseOr):
            r = self.ev(e.children[0], env)
            for c in e.children[1:]:
                r = r | self.ev(c, env)
            return r
        if isinstance(e, prim.BitwiseXor):
            r = self.ev(e.children[0], env)
            for c in e.children[1:]:
                r = r ^ self.ev(c, env)
            return r
        if isinstance(e, prim.BitwiseNot):
            return ~self.ev(e.child, env)
        if isinstance(e, prim.Call):
            fname = e.function.name
            args = [self.ev(a, env) for a in e.parameters]
            if fname == "pytato.zero":
                return 0
            if fname.startswith("pytato.c99."):
                f = _NP_FUNCS.get(fname[len("pytato.c99."):])
                if f is None:
                    raise ILError(f"unknown function {fname}")
                with np.errstate(all="ignore"):
                    return f(*args)
            raise ILError(f"unknown function {fname}")
        if isinstance(e, TypeCast):
            v = self.ev(e.inner_expr, env)
            with np.errstate(all="ignore"):
                return np.dtype(e.dtype).type(v)
        if isinstance(e, Reduce):
            op = type(e.op).__name__
            names = sorted(e.bounds)
            ranges = []
            for v in names:
                lo, hi = e.bounds[v]
                ranges.append(range(int(self.ev(lo, env)), int(self.ev(hi, env))))
            vals = []
            import itertools
            for combo in itertools.product(*ranges):
                env2 = dict(env)
                env2.update(zip(names, combo))
                vals.append(self.ev(e.inner_expr, env2))
            return _reduce(op, vals)
        raise ILError(f"unknown expression class {type(e).__name__}")


def _undef(dt):
    if np.dtype(dt).kind in "fc":
        return np.dtype(dt).type("nan")
    return np.dtype(dt).type(0)


def _has_sub(e) -> bool:
    from pytato.scalar_expr import Reduce, TypeCast
    if isinstance(e, prim.Subscript):
        return True
    if isinstance(e, (prim.Sum, prim.Product, prim.LogicalAnd, prim.LogicalOr, prim.BitwiseAnd,
                      prim.BitwiseOr, prim.BitwiseXor)):
        return any(_has_sub(c) for c in e.children)
    if isinstance(e, (prim.Quotient, prim.FloorDiv, prim.Remainder)):
        return _has_sub(e.numerator) or _has_sub(e.denominator)
    if isinstance(e, prim.Power):
        return _has_sub(e.base) or _has_sub(e.exponent)
    if isinstance(e, prim.Comparison):
        return _has_sub(e.left) or _has_sub(e.right)
    if isinstance(e, (prim.LogicalNot, prim.BitwiseNot)):
        return _has_sub(e.child)
    if isinstance(e, prim.If):
        return _has_sub(e.condition) or _has_sub(e.then) or _has_sub(e.else_)
    if isinstance(e, prim.Call):
        return any(_has_sub(a) for a in e.parameters)
    if isinstance(e, TypeCast):
        return _has_sub(e.inner_expr)
    if isinstance(e, Reduce):
        return _has_sub(e.inner_expr) or any(_has_sub(b) for lo_hi in e.bounds.values() for b in lo_hi)
    return False


def _reduce(op, vals):
    if op == "SumReductionOperation":
        r = 0
        for v in vals:
            r = r + v
        return r
    if op == "ProductReductionOperation":
        r = 1
        for v in vals:
            r = r * v
        return r
    if op == "MaxReductionOperation":
        if not vals:
            raise ILError("max of empty")
        r = vals[0]
        for v in vals[1:]:
            r = np.maximum(r, v)
        return r
    if op == "MinReductionOperation":
        if not vals:
            raise ILError("min of empty")
        r = vals[0]
        for v in vals[1:]:
            r = np.minimum(r, v)
        return r
    if op == "AllReductionOperation":
        return all(bool(v) for v in vals)
    if op == "AnyReductionOperation":
        return any(bool(v) for v in vals)
    raise ILError(f"unknown reduction {op}")


def eval_index_lambda(il, bindings: dict[str, np.ndarray], shape=None):
    """Evaluate an IndexLambda pointwise.  Returns (ndarray, Interp)."""
    shape = tuple(int(d) for d in (il.shape if shape is None else shape))
    it = Interp({k: np.asarray(v) for k, v in bindings.items()})
    out = np.empty(shape, dtype=il.dtype)
    for idx in np.ndindex(*shape):
        env = {f"_{k}": int(v) for k, v in enumerate(idx)}
        with np.errstate(all="ignore"):
            v = it.ev(il.expr, env)
            out[idx] = v
    return out, it

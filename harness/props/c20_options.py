"""C20 — the keyword OPTIONS of the analyses: every analysis / getter class and function of
pytato.analysis, constructed / called with EVERY value of each Boolean keyword it offers (found by
reflection over the signatures), must

  (a) agree with its sibling (the class behind a function, the set-valued getter next to the
      list-valued one) under the same value of the same keyword;
  (b) do what the keyword says, judged by a reflective walk: `include_functions` adds exactly the
      FunctionDefinition a node refers to; `count_duplicates` switches between objects and `==`
      classes; `include_outputs` adds exactly the outputs;
  (c) be affected by the option at all when its sibling is.
A Boolean keyword that appears in a signature and has no entry below is reported as unjudged.
"""
from __future__ import annotations

import inspect
from collections import Counter

from .. import reflect
from . import c13_collectors
from .c13 import TRAVERSAL_LIMIT_S, build_graph, time_limit


def bool_options():
    import pytato.analysis as pa
    out = []
    for name, obj in sorted(vars(pa).items()):
        if name.startswith("_") or getattr(obj, "__module__", None) != pa.__name__:
            continue
        if inspect.isclass(obj):
            fn = obj.__init__
        elif inspect.isfunction(obj):
            fn = obj
        else:
            continue
        try:
            sig = inspect.signature(fn)
        except (TypeError, ValueError):
            continue
        for p in sig.parameters.values():
            ann = str(p.annotation)
            if p.name.startswith("_") or p.name == "self":
                continue
            if isinstance(p.default, bool) or "bool" in ann:
                out.append((name, obj, p.name))
    return out


def _ids(xs):
    return Counter(id(x) for x in xs)


def runners():
    """name -> (target kind, run(obj, target, **kw) -> comparable)"""
    def per_node(obj, n, **kw):
        return frozenset(obj(**kw)(n))             # as a set under == (components of a derived shape are made anew)

    def counts(obj, g, **kw):
        m = obj(**kw)
        m(g)
        return {k.__name__: v for k, v in m.expr_type_counts.items() if v}

    def materialized(obj, g, **kw):
        m = obj(**kw)
        m(g)
        return sorted(_ids(m.materialized_nodes))
    return {
        "ListOfDirectPredecessorsGetter": ("node", per_node),
        "DirectPredecessorsGetter": ("node", per_node),
        "NodeCountMapper": ("graph", counts),
        "get_node_type_counts": ("graph", lambda f, g, **kw: {k.__name__: v for k, v in f(g, **kw).items() if v}),
        "get_num_nodes": ("graph", lambda f, g, **kw: f(g, **kw)),
        "MaterializedNodeCollector": ("graph", materialized),
        "collect_materialized_nodes": ("graph", lambda f, g, **kw: sorted(_ids(f(g, **kw)))),
    }


SIBLINGS = [("DirectPredecessorsGetter", "ListOfDirectPredecessorsGetter", lambda a, b: a == b),
            ("get_node_type_counts", "NodeCountMapper", lambda a, b: a == b),
            ("get_num_nodes", "NodeCountMapper", lambda a, b: a == sum(b.values())),
            ("collect_materialized_nodes", "MaterializedNodeCollector", lambda a, b: a == b)]


def graphs(ctx):
    out = list(c13_collectors.hand_made())
    for spec in ({"family": "nested_calls", "depth": 2, "order": "outer-first", "repeat": 2},
                 {"family": "every_edge"}, {"family": "diamond", "dup": True}):
        out.append((str(spec), build_graph(spec)))
    return out


def check_options(ctx):
    import pytato.analysis as pa
    from pytato.function import FunctionDefinition
    R = runners()
    opts = bool_options()
    unjudged = sorted({f"{n}({k})" for n, _, k in opts if n not in R})
    n = bad = 0
    reported = set()
    effect: dict[tuple[str, str], bool] = {}

    def report(sig, text, extra):
        nonlocal bad
        bad += 1
        if sig not in reported:
            reported.add(sig)
            ctx.violation(sig, text, dict(extra, check="options"))

    gs = graphs(ctx)
    by_name = {n: o for n, o, _ in opts}
    kws = {}
    for nme, _, k in opts:
        kws.setdefault(nme, []).append(k)
    for gname, g in gs:
        nodes = [o for o in reflect.walk(g, into_functions=True)]
        for nme, obj, kw in opts:
            if nme not in R:
                continue
            kind, run = R[nme]
            targets = nodes if kind == "node" else [g]
            for tgt in targets:
                res = {}
                for val in (False, True):
                    try:
                        with time_limit(TRAVERSAL_LIMIT_S):
                            res[val] = run(obj, tgt, **{kw: val})
                    except Exception as e:   # noqa: BLE001  (refusals of node kinds: the other batches)
                        res[val] = ("raises", type(e).__name__)
                n += 1
                if res[True] != res[False]:
                    effect[(nme, kw)] = True
                effect.setdefault((nme, kw), False)
                # (a) siblings under the same value
                for a, b, same in SIBLINGS:
                    if nme != a or kw not in kws.get(b, []):
                        continue
                    for val in (False, True):
                        try:
                            with time_limit(TRAVERSAL_LIMIT_S):
                                rb = R[b][1](by_name[b], tgt, **{kw: val})
                        except Exception as e:   # noqa: BLE001
                            rb = ("raises", type(e).__name__)
                        ra = res[val]
                        if isinstance(ra, tuple) or isinstance(rb, tuple):
                            ok = ra == rb
                        else:
                            ok = same(ra, rb)
                        if not ok:
                            report(f"option-disagrees-with-sibling:{a}:{kw}",
                                   f"{a}({kw}={val}) and {b}({kw}={val}) disagree on a {type(tgt).__name__} of {gname}: "
                                   f"{str(ra)[:120]} vs {str(rb)[:120]}",
                                   {"function": a, "sibling": b, "keyword": kw, "value": val, "graph": gname})
                # (b) what the keyword says
                if kw == "include_functions" and kind == "node" and not isinstance(res[True], tuple) \
                        and not isinstance(res[False], tuple):
                    fds = frozenset(c for _, c in reflect.children(tgt, into_functions=True)
                                    if isinstance(c, FunctionDefinition)) if not isinstance(tgt, FunctionDefinition) \
                        else frozenset()
                    extra = res[True] - res[False]
                    if extra != fds or res[False] - res[True]:
                        report(f"option-not-honoured:{nme}:{kw}",
                               f"{nme}({kw}=True) on a {type(tgt).__name__} of {gname} adds {len(extra)} object(s) to the "
                               f"result of {kw}=False; the node refers to {len(fds)} function definition(s)",
                               {"function": nme, "keyword": kw, "graph": gname, "kind": type(tgt).__name__})
    # (c) an option that does nothing while the sibling's does
    for a, b, _ in SIBLINGS:
        for kw in kws.get(a, []):
            if kw in kws.get(b, []) and effect.get((b, kw)) and not effect.get((a, kw), True):
                report(f"option-has-no-effect:{a}:{kw}", f"{a}: {kw} changes nothing on any graph, while it does for {b}",
                       {"function": a, "keyword": kw})
    ctx.note_batch("keyword-options-of-the-analyses", n, bad, exhaustive=True,
                   options=[f"{nm}({k})" for nm, _, k in opts], unjudged=unjudged,
                   options_with_an_effect=sorted(f"{a}({k})" for (a, k), v in effect.items() if v))
    _ = pa

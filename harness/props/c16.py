"""C16 — symbolic shapes: decisions are sound and one kernel serves every size.

Theorems (PtProofs/C16.lean): affEq_iff, isNonNeg_iff, broadcast_decision_sound
over the model `Pt.affEq` / `Pt.isNonNeg` of `are_shape_components_equal` /
`_is_non_negative` (which call ISL in the real code).

Tie: (1) exhaustive / seeded pairs of affine shape expressions over 1..3 size
parameters, coefficients in [-3,3], built as *pytato expressions* in several
syntactic forms: the real decisions vs the Lean model (ptdriver) vs an
independent grid oracle (values of the real expression on the affinely spanning
grid {0, e_x}); (2) programs over symbolic-shape placeholders: `Array.shape`
evaluated at concrete sizes vs NumPy's shape on concrete operands; (3) one
compiled kernel per symbolic program executed at several sizes (loopy C
target) vs the reference evaluator."""
from __future__ import annotations

import itertools
import random

import numpy as np

from .. import common, ser
from ..refeval import RefEval, evaluate, close

THEOREMS = ["Pt.affEq_iff", "Pt.isNonNeg_iff", "Pt.broadcast_decision_sound",
            "Pt.eval_norm", "Pt.nodup_norm"]

# part (b): shape inference per node kind (PtModel/SymShape.lean, PtProofs/C16Shape.lean)
SHAPE_THEOREMS = [
    "Pt.symshape_eval_eq_concr", "Pt.symshape_broadcast_sound", "Pt.symshape_where_sound",
    "Pt.symshape_broadcast_axis_accepts_iff", "Pt.symshape_broadcast_pair_accepts_iff",
    "Pt.symshape_broadcast_axis_complete", "Pt.symshape_transpose_sound", "Pt.symshape_roll_sound",
    "Pt.symshape_stack_sound", "Pt.symshape_stack_complete", "Pt.symshape_concat_sound",
    "Pt.symshape_concat_incomplete", "Pt.symshape_reduce_sound", "Pt.symshape_full_sound",
    "Pt.symshape_expand_dims_sound", "Pt.symshape_broadcast_to_sound", "Pt.symshape_pad_sound",
    "Pt.symshape_einsum_sound", "Pt.symshape_einsum_step_compatible", "Pt.slice_len_sym_sound",
    "Pt.slice_len_sym_refusals", "Pt.symshape_int_index_iff", "Pt.symshape_index_sound",
]

PARAMS = ["n", "m", "k"]


N_FORMS = 6


def build_dim(coeffs, form, sp):
    """pytato expression for c0 + sum c_i * p_i in syntactic form `form` (0..5); forms 4 and 5 are DEGENERATE
    spellings: they mention a parameter the value does not depend on (e + q - q, e + 0*q) or pass through a
    cancelling detour ((e + e) - e)"""
    if form >= 4:
        e = build_dim(coeffs, form - 4, sp)
        unused = [p for p, c in zip(PARAMS, coeffs[1:]) if c == 0]
        q = sp[unused[0]] if unused else sp[PARAMS[0]]
        if form == 4:
            return (e + q) - q if not isinstance(e, int) or True else e
        return (e + 0 * q) if hash((coeffs, form)) % 2 else (2 * e + q) - (e + q)
    c0, cs = coeffs[0], coeffs[1:]
    terms = []
    for p, c in zip(PARAMS, cs):
        if c == 0:
            continue
        x = sp[p]
        if form == 0:
            terms.append(c * x)
        elif form == 1:
            terms.append(x * c)
        elif form == 2:
            # repeated addition / subtraction
            t = x
            for _ in range(abs(c) - 1):
                t = t + x
            terms.append(t if c > 0 else -1 * t)
        else:
            terms.append((c + 1) * x - x)
    if form in (1, 3):
        terms.reverse()
    e = None
    for t in terms:
        e = t if e is None else e + t
    if e is None:
        return c0
    if c0 != 0 or form == 3:
        e = (e + c0) if form != 1 else (c0 + e)
    return e


def aexpr(coeffs) -> str:
    c0, cs = coeffs[0], coeffs[1:]
    s = f"(lit {c0})"
    for p, c in zip(PARAMS, cs):
        if c:
            s = f"(add {s} (scale {c} (param {p})))"
    return s


def aexpr_of_dim(d) -> str:
    """serialise a *real* pytato shape component structurally (the model then
    normalises it itself) — ties the model's normaliser to ISL's"""
    from pytato.array import Array, IndexLambda, SizeParam
    import pymbolic.primitives as prim
    if isinstance(d, (int, np.integer)):
        return f"(lit {int(d)})"
    if isinstance(d, SizeParam):
        return f"(param {d.name})"
    if isinstance(d, IndexLambda):
        def rec(e):
            if isinstance(e, (int, np.integer)):
                return f"(lit {int(e)})"
            if isinstance(e, prim.Variable):
                return aexpr_of_dim(d.bindings[e.name])
            if isinstance(e, prim.Sum):
                r = rec(e.children[0])
                for c in e.children[1:]:
                    r = f"(add {r} {rec(c)})"
                return r
            if isinstance(e, prim.Product):
                consts = [c for c in e.children if isinstance(c, (int, np.integer))]
                rest = [c for c in e.children if not isinstance(c, (int, np.integer))]
                k = 1
                for c in consts:
                    k *= int(c)
                if len(rest) == 0:
                    return f"(lit {k})"
                if len(rest) == 1:
                    return f"(scale {k} {rec(rest[0])})"
                raise ser.SerError("non-affine product")
            from pytato.scalar_expr import TypeCast
            if isinstance(e, TypeCast):
                return rec(e.inner_expr)
            raise ser.SerError(f"non-affine {type(e).__name__}")
        return rec(d.expr)
    raise ser.SerError(f"unsupported dim {type(d).__name__}")


def eval_dim(d, sizes) -> int:
    return RefEval({}, sizes).dim(d)


def grid_valuations():
    z = {p: 0 for p in PARAMS}
    yield z
    for p in PARAMS:
        v = dict(z)
        v[p] = 1
        yield v
    yield {p: 2 for p in PARAMS}
    yield {"n": 3, "m": 1, "k": 4}


def batch_affine(ctx):
    import pytato as pt
    from pytato.utils import _is_non_negative, _is_non_positive, are_shape_components_equal
    sp = {p: pt.make_size_param(p) for p in PARAMS}
    rng = random.Random(ctx.seed * 991 + 16)
    box = range(-3, 4)
    cases = []
    # exhaustive: one parameter (c0, cn) x (c0', cn') in all 4 forms pairing
    for a in itertools.product(box, box):
        for b in itertools.product(box, box):
            cases.append(((a[0], a[1], 0, 0), (b[0], b[1], 0, 0), (a[0] * 7 + b[1]) % 4, (b[0] + a[1]) % 4))
    n_exh = len(cases)
    # seeded: 2-3 parameters; half of them equal-by-construction in different forms
    N = 12000 if ctx.thorough else 2500
    for _ in range(N):
        np_ = rng.choice([2, 3])
        a = [rng.choice(box) for _ in range(1 + np_)] + [0] * (3 - np_)
        if rng.random() < 0.4:
            b = list(a)
            if rng.random() < 0.3:
                b[rng.randrange(1 + np_)] += rng.choice([-1, 1])
        else:
            b = [rng.choice(box) for _ in range(1 + np_)] + [0] * (3 - np_)
        cases.append((tuple(a), tuple(b), rng.randrange(N_FORMS), rng.randrange(N_FORMS)))
    queries, real = [], []
    for a, b, fa, fb in cases:
        da, db = build_dim(a, fa, sp), build_dim(b, fb, sp)
        try:
            r_eq = bool(are_shape_components_equal(da, db))
            r_nn = bool(_is_non_negative(da))
            r_np = bool(_is_non_positive(da))
            err = None
        except Exception as e:   # noqa: BLE001
            r_eq = r_nn = r_np = None
            err = f"{type(e).__name__}: {e}"
        real.append((r_eq, r_nn, r_np, err, da, db))
        try:
            sa, sb = aexpr_of_dim(da), aexpr_of_dim(db)
        except ser.SerError as e:
            ctx.broken.append(f"serialiser:affine:{e}")
            sa, sb = aexpr(a), aexpr(b)
        queries += [f"(aff eq {sa} {sb})", f"(aff nonneg {sa})", f"(aff nonpos {sa})"]
    ans = common.driver_query_parallel(queries)
    dis = 0
    stats = {"equal": 0, "nonneg": 0, "nonpos": 0}
    for i, ((a, b, fa, fb), (r_eq, r_nn, r_np, err, da, db)) in enumerate(zip(cases, real)):
        m_eq, m_nn, m_np = (ans[3 * i + j] == "ok #t" for j in range(3))
        stats["equal"] += bool(r_eq)
        stats["nonneg"] += bool(r_nn)
        stats["nonpos"] += bool(r_np)
        # independent oracle on the grid
        vals = [(eval_dim(da, v), eval_dim(db, v)) for v in grid_valuations()]
        o_eq = all(x == y for x, y in vals)
        z = vals[0][0]
        units = [vals[1 + j][0] - z for j in range(3)]
        o_nn = z >= 0 and all(u >= 0 for u in units)
        o_np = z <= 0 and all(u <= 0 for u in units)
        desc = {"a": a, "b": b, "forms": (fa, fb), "exprs": (str(da), str(db))}
        if err is not None:
            dis += 1
            ctx.violation("affine-decision:exception", f"shape decision raised {err} for {desc}", desc)
            continue
        if (r_eq, r_nn, r_np) != (o_eq, o_nn, o_np):
            dis += 1
            which = "equal" if r_eq != o_eq else ("nonneg" if r_nn != o_nn else "nonpos")
            ctx.violation(f"affine-decision:{which}",
                          f"real decision {which}={(r_eq, r_nn, r_np)} but for-all-valuations truth is "
                          f"{(o_eq, o_nn, o_np)} for {desc}; witness valuations {list(grid_valuations())}",
                          dict(desc, real=(r_eq, r_nn, r_np), oracle=(o_eq, o_nn, o_np)))
        elif (m_eq, m_nn, m_np) != (r_eq, r_nn, r_np):
            dis += 1
            ctx.broken.append(f"correspondence:affine-model-vs-real:{a}:{b}")
        if i % 701 == 0:
            ctx.sample({"batch": "affine", "a": a, "b": b, "real": (r_eq, r_nn, r_np)})
    ctx.note_batch("affine-decisions", len(cases), dis, exhaustive=False,
                   exhaustive_subbatch_one_param=n_exh, stats=stats)


def batch_consumers(ctx):
    """every consumer of the shape-equality decision (broadcasting, where, stack, einsum axis matching, matmul,
    broadcast_to, call argument checking, CSR construction) accepts operand shapes (a, 3) / (b, 3) exactly when
    a = b for all valuations (or NumPy broadcasting admits them: one of them the constant 1); accepted results have
    the right inferred shape"""
    import pytato as pt
    sp = {p: pt.make_size_param(p) for p in PARAMS}
    rng = random.Random(ctx.seed * 577 + 161)
    box = range(0, 4)      # admissible (non-negative for every valuation) lengths only
    N = 1200 if ctx.thorough else 220
    pairs = []
    for _ in range(N):
        np_ = rng.choice([1, 2, 2, 3])
        a = [rng.choice(box) for _ in range(1 + np_)] + [0] * (3 - np_)
        if rng.random() < 0.6:
            b = list(a)
            if rng.random() < 0.3:
                b[rng.randrange(1 + np_)] += rng.choice([-1, 1])
                b = [max(0, x) for x in b]
        else:
            b = [rng.choice(box) for _ in range(1 + np_)] + [0] * (3 - np_)
        pairs.append((tuple(a), tuple(b), rng.randrange(N_FORMS), rng.randrange(N_FORMS)))
    f64 = np.float64

    def mk(name, shape):
        return pt.make_placeholder(name, shape, f64)

    def c_add(da, db):
        return mk("x", (da, 3)) + mk("y", (db, 3))

    def c_where(da, db):
        return pt.where(pt.greater(mk("c", (da, 3)), 0), mk("x", (db, 3)), 1.0)

    def c_stack(da, db):
        return pt.stack([mk("x", (da, 3)), mk("y", (db, 3))], axis=rng.choice([0, 1, 2]))

    def c_einsum(da, db):
        return pt.einsum("ij,ij->j", mk("x", (da, 3)), mk("y", (db, 3))) if isinstance(da, int) and isinstance(db, int) \
            else pt.einsum("ij,ij->ij", mk("x", (da, 3)), mk("y", (db, 3)))

    def c_einsum3(da, db):
        return pt.einsum("ij,kj->ijk", mk("x", (2, da)), mk("y", (3, db)))

    def c_matmul(da, db):
        # the CONTRACTED axis: NumPy's matmul does not stretch a length of 1 there (pytato did until fix 957f394)
        return mk("x", (2, da)) @ mk("y", (db, 3))

    def c_dot(da, db):
        return pt.dot(mk("x", (4, 2, da)), mk("y", (5, db, 3)))

    def c_broadcast_to(da, db):
        return pt.broadcast_to(mk("x", (da, 3)), (2, db, 3))

    def c_call(da, db):
        def f(u):
            return 2 * u
        r = pt.trace_call(f, mk("x", (da, 3)))
        fdef = r._container.function
        (pname,) = fdef.parameters
        return fdef(**{pname: mk("y", (db, 3))})

    def c_csr(da, db):
        return pt.make_csr_matrix((4, 4), mk("ev", (da,)), pt.make_placeholder("ec", (db,), np.int64),
                                  pt.make_placeholder("rs", (5,), np.int64))

    def c_einsum_diag(da, db):
        return pt.einsum("ii->i", mk("x", (da, db)))

    def c_einsum_diag_later_operand(da, db):
        return pt.einsum("k,jii->kij", mk("z", (2,)), mk("x", (3, da, db)))

    def c_where3(da, db):      # three operands, the first with a unit axis
        return pt.where(pt.greater(mk("c", (1, 3)), 0), mk("x", (da, 3)), mk("y", (db, 3)))

    def c_where3_scalar_first(da, db):
        return pt.where(pt.greater(mk("c", ()), 0), mk("x", (da,)), mk("y", (db,)))

    def c_advidx3(da, db):
        i8 = np.int64
        return mk("A", (5, 5, 5))[pt.make_placeholder("i1", (1,), i8), pt.make_placeholder("i2", (da,), i8),
                                  pt.make_placeholder("i3", (db,), i8)]

    def c_bcast_utility3(da, db):
        from pytato.utils import get_shape_after_broadcasting
        return get_shape_after_broadcasting([mk("c", (1,)), mk("x", (da,)), mk("y", (db,))])

    def c_bcast_utility4(da, db):
        from pytato.utils import get_shape_after_broadcasting
        return get_shape_after_broadcasting([mk("c", (3,)), 2.0, mk("x", (da, 1)), mk("w", (1, 1)), mk("y", (db, 3))])

    # name -> (constructor, NumPy-broadcasting admitted, which operand may be 1)
    consumers = {"add": (c_add, "both"), "where": (c_where, "both"), "stack": (c_stack, None),
                 "einsum": (c_einsum, "both"), "einsum-3": (c_einsum3, "both"), "matmul": (c_matmul, None), "dot": (c_dot, None), "broadcast_to": (c_broadcast_to, "first"),
                 "call": (c_call, None), "csr": (c_csr, None),
                 "einsum-diagonal": (c_einsum_diag, "both"), "einsum-diagonal-later-operand": (c_einsum_diag_later_operand, "both"),
                 "where-3-unit-first": (c_where3, "both"), "where-3-scalar-first": (c_where3_scalar_first, "both"),
                 "advanced-index-3": (c_advidx3, "both"), "broadcast-utility-3": (c_bcast_utility3, "both"),
                 "broadcast-utility-5": (c_bcast_utility4, "both")}
    cases = dis = 0
    stats = {k: {"accepted": 0, "rejected": 0} for k in consumers}
    for a, b, fa, fb in pairs:
        da, db = build_dim(a, fa, sp), build_dim(b, fb, sp)
        vals = [(eval_dim(da, v), eval_dim(db, v)) for v in grid_valuations()]
        eq = all(x == y for x, y in vals)
        a_is1 = all(x == 1 for x, _ in vals)
        b_is1 = all(y == 1 for _, y in vals)
        for cname, (ctor, bc) in consumers.items():
            cases += 1
            expect = eq or (bc == "both" and (a_is1 or b_is1)) or (bc == "first" and a_is1)
            try:
                r = ctor(da, db)
                got, err = True, None
            except (ValueError, TypeError, IndexError) as e:     # IndexError: NumPy's class for index arrays
                got, err = False, f"{type(e).__name__}: {str(e)[:100]}"
            except Exception as e:   # noqa: BLE001
                got, err = None, f"{type(e).__name__}: {str(e)[:100]}"
            if got and not isinstance(r, tuple):
                try:
                    r.shape
                except Exception as e:   # noqa: BLE001  (accepted by the constructor, but the node has no shape)
                    got, err = None, f"accepted, then .shape raises {type(e).__name__}: {str(e)[:80]}"
            stats[cname]["accepted" if got else "rejected"] += 1
            if got != expect:
                dis += 1
                desc = {"consumer": cname, "a": a, "b": b, "forms": (fa, fb), "exprs": (str(da), str(db))}
                ctx.violation(f"shape-decision-in-consumer:{cname}:{'rejects-equal' if expect else 'accepts-unequal'}",
                              f"{cname} on operand lengths {a} (form {fa}) / {b} (form {fb}) "
                              f"{'accepted' if got else ('rejected (' if got is False else 'neither accepted nor rejected (') + str(err) + ')'} although the lengths are "
                              f"{'equal' if eq else 'not equal'} for all valuations (values on the grid {vals[:4]})",
                              dict(desc, accepted=got, error=err, equal=eq))
    ctx.note_batch("shape-decision-consumers", cases, dis, exhaustive=False, per_consumer=stats)


# ---------------------------------------------------------------- shape inference per node kind vs the Lean model

def qexpr_of_dim(d) -> str:
    """a real shape component as the model's QExpr: affine, or `(fdiv <affine> k)` for the floor division a slice
    of a symbolic axis produces"""
    from pytato.array import IndexLambda
    import pymbolic.primitives as prim
    if isinstance(d, IndexLambda) and isinstance(d.expr, prim.FloorDiv) \
            and isinstance(d.expr.denominator, (int, np.integer)) and isinstance(d.expr.numerator, prim.Variable):
        return f"(fdiv {aexpr_of_dim(d.bindings[d.expr.numerator.name])} {int(d.expr.denominator)})"
    return aexpr_of_dim(d)


def _sshape(dims) -> str:
    return "(" + " ".join(aexpr_of_dim(d) for d in dims) + ")"


_REJECT = (ValueError, TypeError, IndexError, NotImplementedError)


def _np_ref(kind, shapes, par):
    """NumPy's result shape for concrete operand shapes (None: NumPy refuses)"""
    try:
        arrs = [np.zeros(s, dtype=np.int8) for s in shapes]
        if kind in ("bcast", "where"):
            return tuple(np.broadcast_shapes(*shapes))
        if kind == "transpose":
            return np.transpose(arrs[0], par).shape
        if kind == "roll":
            return np.roll(arrs[0], 1, par).shape
        if kind == "stack":
            return np.stack(arrs, axis=par).shape
        if kind == "concat":
            return np.concatenate(arrs, axis=par).shape
        if kind == "reduce":
            return np.sum(arrs[0], axis=par).shape
        if kind == "full":
            return arrs[0].shape
        if kind == "expand":
            return np.expand_dims(arrs[0], par).shape
        if kind == "bcastto":
            return np.broadcast_to(arrs[0], shapes[1]).shape
        if kind == "pad":
            return np.pad(arrs[0], par).shape
        if kind == "einsum":
            # NumPy's rule per index letter (all lengths different from 1 equal), ALSO between repeated letters of
            # one operand: there NumPy itself refuses a 1 next to a longer axis ("ii->i" on (3, 1)) while pytato
            # defines it as the broadcast x[i, 0] -- the generalised rule is the reference
            ins, outl = par.split("->")
            lens: dict[str, list[int]] = {}
            for op, shp in zip(ins.split(","), shapes):
                if len(op) != len(shp):
                    return None
                for c, x in zip(op, shp):
                    lens.setdefault(c, []).append(x)
            res = {}
            for c, ls in lens.items():
                non1 = {x for x in ls if x != 1}
                if len(non1) > 1:
                    return None
                res[c] = non1.pop() if non1 else 1
            ref = tuple(res[c] for c in outl)
            if all(len(set(ls)) == 1 for ls in lens.values()):
                assert np.einsum(par, *arrs).shape == ref
            return ref
        if kind == "index":
            return arrs[0][par].shape
        if kind == "matmul":
            return np.matmul(arrs[0], arrs[1]).shape
    except Exception:   # noqa: BLE001
        return None
    raise AssertionError(kind)


def _sym_cases(ctx, sp):
    """(kind, operand dims lists, parameter, thunk building the REAL node/shape, model query)"""
    import pytato as pt
    rng = random.Random(ctx.seed * 733 + 1616)
    f64 = np.float64
    n, m = sp["n"], sp["m"]

    def mk(name, shape, dt=f64):
        return pt.make_placeholder(name, shape, dt)

    box1 = [(c0, cn, 0, 0) for c0 in range(-2, 4) for cn in range(-1, 3)]        # one parameter
    box2 = [(c0, cn, cm, 0) for c0 in (0, 1, 2) for cn in (-1, 0, 1, 2) for cm in (-1, 1)]
    pool = box1 + box2

    def dim(c, form=None):
        return build_dim(c, rng.randrange(N_FORMS) if form is None else form, sp)

    nonneg = [c for c in pool if all(x >= 0 for x in c)]

    def some_shape(rank, src=None):
        return [dim(rng.choice(src or nonneg)) for _ in range(rank)]

    def variant(d, c):
        """the same length in another spelling / 1 / a symbolic 1 / something else"""
        r = rng.random()
        if r < 0.45:
            return dim(c)
        if r < 0.6:
            return 1
        if r < 0.7:
            return (n + 1) - n
        if r < 0.8:
            return d
        return dim(rng.choice(nonneg))

    out = []
    # ---- broadcast: EXHAUSTIVE pairs of one-axis shapes over the one-parameter box (+ the two-parameter dims)
    pairs = [(i, a, j, b) for i, a in enumerate(pool) for j, b in enumerate(pool)]
    if not ctx.thorough:    # quick tier: the one-parameter box exhaustively + a sample with the two-parameter dims
        pairs = [p_ for p_ in pairs if p_[0] < len(box1) and p_[2] < len(box1)] + rng.sample(pairs, 250)
    for i, a, j, b in pairs:
        if True:
            da, db = dim(a, (i + 2 * j) % N_FORMS), dim(b, (3 * i + j) % N_FORMS)
            out.append(("bcast", [[da], [db]], None,
                        (lambda da=da, db=db: (mk("x", (da,)) + mk("y", (db,))).shape),
                        f"(symshape bcast ({_sshape([da])} {_sshape([db])}))"))
    # ---- broadcast / where: several operands of different ranks
    for _ in range(700 if ctx.thorough else 180):
        rank = rng.randint(0, 3)
        base_c = [rng.choice(nonneg) for _ in range(rank)]
        base = [dim(c) for c in base_c]
        nops = rng.choice([2, 3, 3, 4])
        ops = []
        for _ in range(nops):
            r = rng.randint(0, rank)
            ops.append([variant(base[rank - r + t], base_c[rank - r + t]) for t in range(r)])
        if nops == 3 and rng.random() < 0.5:
            out.append(("where", ops, None,
                        (lambda ops=ops: pt.where(mk("c", tuple(ops[0]), np.bool_), mk("x", tuple(ops[1])),
                                                  mk("y", tuple(ops[2]))).shape),
                        "(symshape bcast (" + " ".join(_sshape(o) for o in ops) + "))"))
        else:
            from pytato.utils import get_shape_after_broadcasting
            out.append(("bcast", ops, None,
                        (lambda ops=ops: get_shape_after_broadcasting(
                            [mk(f"x{k}", tuple(o)) for k, o in enumerate(ops)])),
                        "(symshape bcast (" + " ".join(_sshape(o) for o in ops) + "))"))
    # ---- transpose (every permutation for rank <= 3, and non-permutations), roll
    for rank in range(0, 4):
        for _ in range(2):
            shp = some_shape(rank, pool)
            perms = list(itertools.permutations(range(rank)))
            bad = [tuple(range(rank)) + (0,), tuple([0] * rank), tuple(range(1, rank + 1))] if rank else [(0,)]
            for perm in perms + bad:
                out.append(("transpose", [shp], perm,
                            (lambda shp=shp, perm=perm: pt.transpose(mk("x", tuple(shp)), perm).shape),
                            f"(symshape transpose {_sshape(shp)} {ser.ints(perm)})"))
            for ax in range(0, rank + 2):
                out.append(("roll", [shp], ax,
                            (lambda shp=shp, ax=ax: pt.roll(mk("x", tuple(shp)), 2, ax).shape),
                            f"(symshape roll {_sshape(shp)} {ax})"))
    # ---- stack / concatenate
    for _ in range(500 if ctx.thorough else 140):
        rank = rng.randint(0, 3)
        base_c = [rng.choice(pool) for _ in range(rank)]
        base = [dim(c) for c in base_c]
        nops = rng.choice([1, 2, 2, 3])
        ax = rng.randint(0, rank + 1)
        ops = [base] + [[(dim(c) if rng.random() < 0.85 else dim(rng.choice(pool))) for c in base_c]
                        for _ in range(nops - 1)]
        if rng.random() < 0.1 and rank:
            ops[-1] = ops[-1][1:]
        out.append(("stack", ops, ax,
                    (lambda ops=ops, ax=ax: pt.stack([mk(f"x{k}", tuple(o)) for k, o in enumerate(ops)], axis=ax).shape),
                    "(symshape stack (" + " ".join(_sshape(o) for o in ops) + f") {ax})"))
        # concatenate compares the other axes STRUCTURALLY: the same object, or a different spelling
        cops = [base] + [[(d if (t == ax or rng.random() < 0.9) else dim(c)) for t, (d, c) in enumerate(zip(base, base_c))]
                         for _ in range(nops - 1)]
        for o in cops[1:]:
            if ax < rank:
                o[ax] = dim(rng.choice(pool))
        out.append(("concat", cops, ax,
                    (lambda cops=cops, ax=ax: pt.concatenate([mk(f"x{k}", tuple(o)) for k, o in enumerate(cops)],
                                                             axis=ax).shape),
                    "(symshape concat (" + " ".join(_sshape(o) for o in cops) + f") {ax})"))
    # ---- stack / concatenate / broadcast_to on operands of DIFFERENT RANK: every ordered pair of a chain of shapes
    #      that are prefixes / suffixes / extensions of each other (incl. rank 0 vs rank 1 of length 1)
    chain_c = [[], [(0, 1, 0, 0)], [(0, 1, 0, 0), (0, 0, 1, 0)], [(0, 1, 0, 0), (0, 0, 1, 0), (3, 0, 0, 0)],
               [(1, 0, 0, 0)], [(0, 1, 0, 0), (1, 0, 0, 0)], [(3, 0, 0, 0)], [(0, 0, 1, 0)],
               [(0, 0, 1, 0), (3, 0, 0, 0)], [(0, 1, 0, 0), (0, 0, 1, 0), (3, 0, 0, 0), (2, 0, 0, 0)]]
    for ci, sc in enumerate(chain_c):
        for cj, tc in enumerate(chain_c):
            s1 = [dim(c, (ci + cj) % 4) for c in sc]
            s2 = [dim(c, (ci + 2 * cj + 1) % 4) for c in tc]
            for ax in (0, 1, 2):
                for ops in ([s1, s2], [s1, s1, s2]):
                    if ops[1] is s1 and ax:
                        continue
                    out.append(("stack", ops, ax,
                                (lambda ops=ops, ax=ax: pt.stack([mk(f"x{k}", tuple(o)) for k, o in enumerate(ops)],
                                                                 axis=ax).shape),
                                "(symshape stack (" + " ".join(_sshape(o) for o in ops) + f") {ax})"))
            out.append(("bcastto", [s1, s2], None,
                        (lambda s1=s1, s2=s2: pt.broadcast_to(mk("x", tuple(s1)), tuple(s2)).shape),
                        f"(symshape bcastto {_sshape(s1)} {_sshape(s2)})"))
    # ---- reductions: every axis subset of shapes mixing literal and symbolic axes
    for rank in range(0, 4):
        for _ in range(3):
            shp = [rng.choice([2, 3, 1, dim(rng.choice(nonneg)), (n + 1) - n]) for _ in range(rank)]
            axsets = [tuple(c) for k in range(rank + 1) for c in itertools.combinations(range(rank), k)]
            for ax in axsets + [None, (rank,)]:
                w = "None" if ax is None else ser.ints(ax)
                out.append(("reduce", [shp], ax,
                            (lambda shp=shp, ax=ax: pt.sum(mk("x", tuple(shp)), axis=ax).shape),
                            f"(symshape reduce {_sshape(shp)} {w})"))
    # ---- full / zeros / ones, expand_dims, broadcast_to, pad
    for _ in range(300 if ctx.thorough else 80):
        rank = rng.randint(0, 3)
        shp = [rng.choice([dim(rng.choice(pool)), rng.randint(-1, 3)]) for _ in range(rank)]
        ctor = rng.choice([lambda s: pt.zeros(s, f64), lambda s: pt.ones(s, f64), lambda s: pt.full(s, 2.0)])
        out.append(("full", [shp], None, (lambda shp=shp, ctor=ctor: ctor(tuple(shp)).shape),
                    f"(symshape full {_sshape(shp)})"))
        shp = some_shape(rank, pool)
        k = rng.randint(1, 2)
        axes = tuple(rng.randint(-(rank + k) - 1, rank + k) for _ in range(k))
        out.append(("expand", [shp], axes,
                    (lambda shp=shp, axes=axes: pt.expand_dims(mk("x", tuple(shp)), axes).shape),
                    f"(symshape expand {_sshape(shp)} {ser.ints(axes)})"))
        base_c = [rng.choice(nonneg) for _ in range(rank)]
        tgt = [dim(rng.choice(nonneg)) for _ in range(rng.randint(0, 1))] + [dim(c) for c in base_c]
        r = rng.randint(0, rank)
        src = [variant(tgt[len(tgt) - r + t], base_c[rank - r + t]) for t in range(r)]
        if rng.random() < 0.1:
            src = src + [2]
        out.append(("bcastto", [src, tgt], None,
                    (lambda src=src, tgt=tgt: pt.broadcast_to(mk("x", tuple(src)), tuple(tgt)).shape),
                    f"(symshape bcastto {_sshape(src)} {_sshape(tgt)})"))
        shp = some_shape(rank, pool)
        pw = tuple((rng.randint(0, 3), rng.randint(0, 3)) for _ in range(rank))
        if rank:
            out.append(("pad", [shp], pw,
                        (lambda shp=shp, pw=pw: pt.pad(mk("x", tuple(shp)), pw).shape),
                        f"(symshape pad {_sshape(shp)} (" + " ".join(f"({b} {a})" for b, a in pw) + "))"))
    # ---- expand_dims: EVERY axis pair (and single axis) of the admissible range and one beyond, mixed signs,
    #      duplicates after normalisation, for ranks 0..2
    for rank in range(0, 3):
        shp = some_shape(rank, nonneg)
        for k in (1, 2):
            rr = range(-(rank + k) - 1, rank + k + 1)
            for axes in itertools.product(rr, repeat=k):
                out.append(("expand", [shp], axes,
                            (lambda shp=shp, axes=axes: pt.expand_dims(mk("x", tuple(shp)), axes).shape),
                            f"(symshape expand {_sshape(shp)} {ser.ints(axes)})"))
    # ---- einsum: axis-length table incl. length-1 broadcasting and conflicting lengths
    specs = ["ij,jk->ik", "ij,ij->ij", "ii->i", "ij,j->i", "ij,kj->ijk", "i,i->", "ij,jk,kl->il", "ij->ji", "i,j->ij",
             "iij->j", "ij,ij,ij->i"]
    for _ in range(600 if ctx.thorough else 160):
        spec = rng.choice(specs)
        ins, outl = spec.split("->")
        ins = ins.split(",")
        letters = sorted(set("".join(ins)))
        lc = {c: rng.choice(nonneg) for c in letters}
        ld = {c: dim(lc[c]) for c in letters}
        ops = [[variant(ld[c], lc[c]) for c in op] for op in ins]
        q = ("(symshape einsum (" + " ".join("(" + " ".join(op) + ")" for op in ins) + ") (" + " ".join(outl) + ") ("
             + " ".join(_sshape(o) for o in ops) + "))")
        out.append(("einsum", ops, spec,
                    (lambda spec=spec, ops=ops: pt.einsum(spec, *[mk(f"x{k}", tuple(o)) for k, o in enumerate(ops)]).shape),
                    q))
    # ---- matmul of MIXED RANK with symbolic batch axes (no Lean model: the inferred shape is compared with NumPy
    #      on the grid, and the call must be accepted exactly when it is valid for ALL valuations): batch axes align
    #      from the RIGHT; rank 4 @ 3, 3 @ 4, 5 @ 3, unit batch axes, 1-d operands; invalid variants
    Bn, Bm, B2 = (0, 1, 0, 0), (0, 0, 1, 0), (2, 0, 0, 0)
    K1, K2, K3 = (3, 0, 0, 0), (1, 1, 0, 0), (0, 0, 2, 0)
    one_c = (1, 0, 0, 0)
    mm = [  # (batch dims of a, batch dims of b, valid)
        ([Bn, Bm], [Bm], True), ([Bm], [Bn, Bm], True), ([Bn, Bn], [Bn], True), ([Bn, Bm], [Bn], False),
        ([B2, Bn, Bm], [Bm], True), ([Bn, Bm], [one_c], True), ([one_c, Bm], [Bn, Bm], True), ([Bn, Bm], [Bn, Bm], True),
        ([Bn, Bm], [Bm, Bn], False), ([Bn], [], True), ([], [Bn, Bm], True), ([Bn, Bm], [B2], False), ([Bn, one_c], [Bm], True)]
    for ba, bb, valid in mm:
        for kc in (K1, K2, K3):
            for bad_k in (False, True):
                s1 = [dim(c) for c in ba] + [dim(K1), dim(kc)]
                s2 = [dim(c) for c in bb] + [dim(kc if not bad_k else (kc[0] + 1,) + kc[1:]), dim(K3)]
                out.append(("matmul", [s1, s2], valid and not bad_k,
                            (lambda s1=s1, s2=s2: (mk("x", tuple(s1)) @ mk("y", tuple(s2))).shape), None))
    for s1c, s2c, valid in [([Bn, Bm, K2], [K2], True), ([K2], [Bn, K2, Bm], True), ([Bn, K2], [Bm, K2], False)]:
        s1, s2 = [dim(c) for c in s1c], [dim(c) for c in s2c]
        out.append(("matmul", [s1, s2], valid, (lambda s1=s1, s2=s2: (mk("x", tuple(s1)) @ mk("y", tuple(s2))).shape), None))
    # ---- basic indexing: every (start, stop, step) spelling class on literal and symbolic axes, integer indices
    slices = [(None, None, st) for st in (1, 2, 3, -1, -2, -3)] + [(1, None, 1), (None, -1, 1), (None, 2, 2), (0, None, -1),
                                                                  (None, None, 0), (-2, 5, 1), (4, 0, -2)]
    ints = [-3, -1, 0, 1, 2]
    axes_dims = [(c, f) for c in box1 + box2[:8] for f in (0, 4)] + [((k, 0, 0, 0), 0) for k in range(0, 5)]
    for c, f in axes_dims:
        d = dim(c, f)
        for sl in slices:
            w = " ".join("None" if x is None else str(x) for x in sl)
            out.append(("index", [[d]], (slice(*sl),),
                        (lambda d=d, sl=sl: mk("x", (d,))[slice(*sl)].shape),
                        f"(symshape index {_sshape([d])} ((slice {w})))"))
        for k in ints:
            out.append(("index", [[d]], (k,), (lambda d=d, k=k: mk("x", (d,))[k].shape),
                        f"(symshape index {_sshape([d])} ((int {k})))"))
    for _ in range(200 if ctx.thorough else 60):
        rank = rng.randint(1, 3)
        shp = [rng.choice([dim(rng.choice(nonneg)), rng.randint(0, 4)]) for _ in range(rank)]
        ix = tuple(rng.choice([slice(*rng.choice(slices[:8])), rng.choice(ints), slice(None, None, 1)]) for _ in range(rank))
        w = " ".join(f"(int {i})" if isinstance(i, int) else
                     "(slice " + " ".join("None" if x is None else str(x) for x in (i.start, i.stop, i.step)) + ")" for i in ix)
        out.append(("index", [shp], ix, (lambda shp=shp, ix=ix: mk("x", tuple(shp))[ix].shape),
                    f"(symshape index {_sshape(shp)} ({w}))"))
    return out


_DIMFUN: dict[int, object] = {}
_DIMKEEP: list = []


def _dimfun(d):
    """sizes -> int for a shape component, from 3 (+1 checking) evaluations of the real expression: affine
    components are determined by their values on {0, e_n, e_m}; a floor division (slice of a symbolic axis) by its
    affine numerator"""
    if isinstance(d, (int, np.integer)):
        return lambda sizes, c=int(d): c
    f = _DIMFUN.get(id(d))
    if f is not None:
        return f
    from pytato.array import IndexLambda
    import pymbolic.primitives as prim
    if isinstance(d, IndexLambda) and isinstance(d.expr, prim.FloorDiv) and isinstance(d.expr.numerator, prim.Variable):
        inner = _dimfun(d.bindings[d.expr.numerator.name])
        k = int(d.expr.denominator)
        f = lambda sizes, inner=inner, k=k: inner(sizes) // k     # noqa: E731
    else:
        z = {"n": 0, "m": 0, "k": 0}
        c0 = eval_dim(d, z)
        cn = eval_dim(d, dict(z, n=1)) - c0
        cm = eval_dim(d, dict(z, m=1)) - c0
        ck = eval_dim(d, dict(z, k=1)) - c0
        assert eval_dim(d, {"n": 2, "m": 3, "k": 1}) == c0 + 2 * cn + 3 * cm + ck, "non-affine shape component"
        f = lambda sizes, c0=c0, cn=cn, cm=cm, ck=ck: c0 + cn * sizes["n"] + cm * sizes["m"] + ck * sizes["k"]   # noqa: E731
    _DIMFUN[id(d)] = f
    _DIMKEEP.append(d)
    return f


def batch_shape_equality_rank(ctx):
    """`are_shapes_equal` itself and its consumers with operands of DIFFERENT RANK: every ordered pair of a chain
    of shapes that are prefixes / suffixes / extensions of each other ((), (n,), (n,m), (n,m,3), (1,), (n,1), ...;
    rank 0 vs rank 1 of length 1) in varying spellings: equal iff same rank and equal lengths for all valuations;
    a traced function refuses an argument of another rank"""
    import pytato as pt
    from pytato.utils import are_shapes_equal
    sp = {p: pt.make_size_param(p) for p in PARAMS}
    chain_c = [[], [(0, 1, 0, 0)], [(0, 1, 0, 0), (0, 0, 1, 0)], [(0, 1, 0, 0), (0, 0, 1, 0), (3, 0, 0, 0)],
               [(1, 0, 0, 0)], [(0, 1, 0, 0), (1, 0, 0, 0)], [(3, 0, 0, 0)], [(0, 0, 1, 0)],
               [(0, 1, 0, 0), (0, 0, 1, 0), (3, 0, 0, 0), (2, 0, 0, 0)], [(1, 0, 0, 0), (0, 1, 0, 0)]]
    cases = dis = 0
    queries, recs = [], []
    for ci, sc in enumerate(chain_c):
        for cj, tc in enumerate(chain_c):
            for fa, fb in ((0, 0), (1, 4), (5, 2)):
                s1 = tuple(build_dim(c, fa, sp) for c in sc)
                s2 = tuple(build_dim(c, fb, sp) for c in tc)
                truth = sc == tc
                got = bool(are_shapes_equal(s1, s2))
                cases += 1
                recs.append((sc, tc, (fa, fb), got))
                queries.append(f"(symshape stack ({_sshape(s1)} {_sshape(s2)}) 0)")
                if got != truth:
                    dis += 1
                    ctx.violation("shape-equality:rank" if len(sc) != len(tc) else "shape-equality:lengths",
                                  f"are_shapes_equal on shapes with coefficient rows {sc} / {tc} (spellings {fa},{fb}) "
                                  f"answers {got}; they are {'equal' if truth else 'not equal (ranks ' + str(len(sc)) + ' / ' + str(len(tc)) + ')'}",
                                  {"shape1": [_dstr(d) for d in s1], "shape2": [_dstr(d) for d in s2], "answer": got})
            # the argument check of a traced function
            if (ci + cj) % 2 == 0:
                s1 = tuple(build_dim(c, 0, sp) for c in sc)
                s2 = tuple(build_dim(c, 1, sp) for c in tc)
                cases += 1
                try:
                    r = pt.trace_call(lambda u: 2 * u, pt.make_placeholder("x", s1, np.float64))
                    fdef = r._container.function
                    (pname,) = fdef.parameters
                    res = fdef(**{pname: pt.make_placeholder("y", s2, np.float64)})
                    _ = [v.shape for v in (res.values() if hasattr(res, "values") else [res])]
                    acc = True
                except (ValueError, TypeError) as e:
                    acc = False
                if acc != (sc == tc):
                    dis += 1
                    ctx.violation("shape-decision-in-consumer:call:rank",
                                  f"a function traced for an argument of shape row {sc} {'accepts' if acc else 'rejects'} "
                                  f"an argument of shape row {tc}", {"traced": [_dstr(d) for d in s1],
                                                                     "argument": [_dstr(d) for d in s2]})
    ans = common.driver_query_parallel(queries)
    for (sc, tc, forms, got), a in zip(recs, ans):
        if a.startswith("ok (") != got:
            dis += 1
            ctx.broken.append(f"correspondence:shapesEq-model-vs-real:{sc}:{tc}:{forms}")
    ctx.note_batch("shape-equality-different-rank", cases, dis, exhaustive=True,
                   note="all ordered pairs of a 10-shape chain x 3 spelling pairs: are_shapes_equal vs truth vs the "
                        "model's shapesEq (Sym.stack), and the call-argument check")


def _concrete(dims, sizes):
    return tuple(_dimfun(d)(sizes) for d in dims)


def _dstr(d) -> str:
    """compact text of a dim: a literal, or its serialised structure"""
    if isinstance(d, (int, np.integer)):
        return str(int(d))
    try:
        return qexpr_of_dim(d)
    except ser.SerError:
        return str(d)[:80]


def batch_symshape(ctx):
    """SHAPE INFERENCE, kind by kind: the dims the real API infers (normalised affine forms; floor divisions for
    slices of symbolic axes) must be the Lean model's (`Pt.Sym.*`, proved sound for every valuation in
    PtProofs/C16Shape.lean), accept/reject classes equal; every accepted result is also evaluated at grid
    valuations against NumPy's shape on the concretised operands"""
    import pytato as pt
    sp = {p: pt.make_size_param(p) for p in PARAMS}
    cases = _sym_cases(ctx, sp)
    queries, recs = [], []
    skipped_structural = 0
    for kind, ops, par, thunk, mq in cases:
        if kind != "full" and any(isinstance(d, int) and d < 0 for o in ops for d in o):
            continue        # not an operand: make_placeholder refuses a negative literal length
        try:
            shape = thunk()
            err = None
        except _REJECT as e:
            shape, err = None, f"{type(e).__name__}: {str(e)[:90]}"
        except Exception as e:   # noqa: BLE001
            shape, err = None, f"UNEXPECTED {type(e).__name__}: {str(e)[:90]}"
        if kind == "concat" and len(ops) > 1:
            # structural comparison in the real code: only spellings the serialisation distinguishes faithfully
            ax = par
            def exc(o):
                return [d for t, d in enumerate(o) if t != ax]
            unfaithful = False
            for o in ops[1:]:
                a, b = exc(o), exc(ops[0])
                if len(a) == len(b):
                    for x, y in zip(a, b):
                        same_real = (x is y) or (isinstance(x, int) and isinstance(y, int) and x == y) or \
                            (not isinstance(x, int) and not isinstance(y, int) and bool(x == y))
                        if same_real != (aexpr_of_dim(x) == aexpr_of_dim(y)):
                            unfaithful = True
            if unfaithful:
                skipped_structural += 1
                continue
        rq = None
        if shape is not None:
            try:
                rq = "(symshape norm (" + " ".join(qexpr_of_dim(d) for d in shape) + "))"
            except ser.SerError as e:
                ctx.broken.append(f"serialiser:symshape:{kind}:{e}")
                continue
        recs.append((kind, ops, par, shape, err, len(queries), rq is not None))
        queries.append(mq if mq is not None else "(echo no-model)")
        if rq is not None:
            queries.append(rq)
    ans = common.driver_query_parallel(queries)
    grid = [{"n": a, "m": b, "k": 1} for a, b in [(0, 0), (1, 0), (0, 1), (1, 1), (2, 1), (1, 2), (2, 3), (3, 2), (5, 4), (4, 7)]]
    dis = 0
    stats: dict[str, dict[str, int]] = {}
    for kind, ops, par, shape, err, qi, has_real in recs:
        st = stats.setdefault(kind, {"accepted": 0, "rejected": 0})
        st["accepted" if shape is not None else "rejected"] += 1
        model = ans[qi]
        real_n = ans[qi + 1] if has_real else None
        m_acc = model.startswith("ok (")
        desc = {"kind": kind, "operands": [[_dstr(d) for d in o] for o in ops], "param": repr(par),
                "real": None if shape is None else [_dstr(d) for d in shape], "real_error": err,
                "real_normalised": real_n, "model": model}
        if err is not None and err.startswith("UNEXPECTED"):
            dis += 1
            ctx.violation(f"symshape:{kind}:unexpected-exception", f"{kind} on {desc['operands']} ({par!r}): {err}", desc)
            continue
        agree = (m_acc == (shape is not None)) and (shape is None or model == real_n)
        if kind == "matmul":
            # no model: `par` says whether the product is valid for all valuations
            if (shape is not None) != bool(par):
                dis += 1
                ctx.violation(f"symshape:matmul:{'rejects-valid' if par else 'accepts-invalid'}",
                              f"matmul on operand shapes {desc['operands']} is {'rejected (' + str(err) + ')' if shape is None else 'accepted'} "
                              f"although it is {'valid' if par else 'not valid'} for all valuations (batch axes align from "
                              f"the right)", desc)
                continue
            agree = True
        if agree and shape is None and kind == "index":
            # refusal classes: the model names why the real code refuses
            want = {"refuse:zero-step": "ValueError", "refuse:explicit-bound-on-symbolic-axis": "NotImplementedError",
                    "refuse:sign-unknown": "NotImplementedError", "refuse:int-out-of-bounds": "IndexError"}.get(model[3:])
            if want is not None and not err.startswith(want):
                # the model reports the FIRST entry it refuses, the real code checks the integer entries before it
                # normalises the slices: with two or more entries that can be refused, both orders are right
                risky = [e for e in (par if isinstance(par, tuple) else (par,))
                         if isinstance(e, (int, np.integer))
                         or (isinstance(e, slice) and (e.start is not None or e.stop is not None or e.step not in (None, 1)))]
                if not (len(risky) >= 2 and err.startswith(("ValueError", "NotImplementedError", "IndexError"))):
                    agree = False
        # NumPy at grid valuations (admissible ones: every operand length non-negative)
        failing = None
        for sizes in (grid if shape is not None else []):
            cops = [_concrete(o, sizes) for o in ops]
            if any(x < 0 for o in cops for x in o):
                continue
            ref = _np_ref(kind, cops, par)
            got = _concrete(shape, sizes)
            if ref is None or tuple(got) != tuple(ref):
                failing = (sizes, cops, got, ref)
                break
        if failing is not None:
            dis += 1
            sizes, cops, got, ref = failing
            ctx.violation(f"symshape:{kind}:inferred-vs-numpy",
                          f"{kind} on operand shapes {desc['operands']} ({par!r}) infers {desc['real']}, which at {sizes} "
                          f"(operands {cops}) is {got}; NumPy: {ref if ref is not None else 'refuses'}",
                          dict(desc, sizes=sizes, concrete_operands=cops, observed=got, numpy=ref))
        elif not agree:
            dis += 1
            ctx.broken.append(f"correspondence:symshape:{kind}:{desc['operands']}:{par!r}:real={desc['real'] or err}:model={model}")
    ctx.note_batch("symbolic-shape-inference-per-kind", len(recs), dis, exhaustive=False,
                   per_kind=stats, skipped_concat_unfaithful_spelling=skipped_structural,
                   note="broadcast: exhaustive pairs over the one-parameter coefficient box [-2,3]x[-1,2] (+ two-parameter "
                        "dims) in varying spellings; other kinds seeded over the same dims incl. degenerate spellings; "
                        "transposes: all permutations of rank <= 3; reductions: all axis subsets; indexing: every "
                        "slice class x every axis dim of the box")
    return dis


# ---------------------------------------------------------------- symbolic programs

def sym_programs(ctx, count):
    """seeded programs over symbolic-shape placeholders using the operations that
    admit symbolic axes; yields (expr, placeholder specs)"""
    import pytato as pt
    rng = random.Random(ctx.seed * 613 + 160)
    for pi in range(count):
        n, m = pt.make_size_param("n"), pt.make_size_param("m")
        # (incl. degenerate spellings: a length that is identically 1, a parameter that cancels)
        dims = [n, m, n + 1, 2 * n, 3, 1, 2, (n + 1) - n, (n + m) - m, 2 * n - n]
        one_sym = (n + 1) - n
        phs = {}

        def leaf(shape, dtype=np.float64):
            nm = f"p{len(phs)}"
            phs[nm] = (shape, np.dtype(dtype))
            return pt.make_placeholder(nm, shape, dtype)
        r = rng.randint(1, 3)
        shape = tuple(rng.choice(dims) for _ in range(r))
        focus = pi % 4 == 3
        if focus:
            # a matrix whose two extents depend on different size parameters, contracted over several indices first
            shape = tuple(rng.sample([n, m, m + 1, 2 * n, n + m], 2))
        pool = [leaf(shape)]
        for step in range(rng.randint(1, 5)):
            a = rng.choice(pool)
            op = "einsum2" if focus and step == 0 else rng.choice(["binary", "binary", "scalar", "transpose", "roll", "stack", "sum",
                             "einsum", "einsum2", "bcast", "where", "neg", "pad", "pad", "stride", "concat",
                             "expand", "bcast_to", "bmatmul", "bmatmul"])
            try:
                if op == "binary":
                    bshape = tuple(d if rng.random() < 0.7 else rng.choice([1, 1, one_sym]) for d in a.shape)
                    bshape = bshape[rng.randint(0, len(bshape)):] if rng.random() < 0.3 else bshape
                    b = leaf(bshape)
                    e = rng.choice([lambda x, y: x + y, lambda x, y: x * y, lambda x, y: x - y,
                                    lambda x, y: y - x])(a, b)
                elif op == "scalar":
                    e = rng.choice([lambda x: x + 2, lambda x: 3 * x, lambda x: 1 - x, lambda x: x / 2])(a)
                elif op == "neg":
                    e = -a
                elif op == "transpose":
                    perm = list(range(a.ndim))
                    rng.shuffle(perm)
                    e = pt.transpose(a, perm)
                elif op == "roll":
                    if a.ndim == 0:
                        continue
                    e = pt.roll(a, rng.randint(-3, 3), rng.randrange(a.ndim))
                elif op == "stack":
                    b = leaf(a.shape)
                    e = pt.stack([a, b], axis=rng.randint(0, a.ndim))
                elif op == "sum":
                    static = [i for i, d in enumerate(a.shape) if isinstance(d, int)]
                    if not static:
                        continue
                    e = pt.sum(a, axis=rng.choice(static))
                elif op == "einsum":
                    if a.ndim != 2:
                        continue
                    b = leaf((a.shape[1], rng.choice(dims)))
                    e = pt.einsum("ij,jk->ik", a, b)
                elif op == "einsum2":
                    # several reduction indices whose extents depend on different size parameters
                    if a.ndim != 2:
                        continue
                    which = rng.randrange(4)
                    if which == 0:
                        d2 = rng.choice(dims)
                        e = pt.einsum("ij,jk,kl->il", a, leaf((a.shape[1], d2)), leaf((d2, rng.choice(dims))))
                    elif which == 1:
                        e = pt.einsum("ij,ij->", a, leaf(a.shape))
                    elif which == 2:
                        e = pt.einsum("ij,jk->k", a, leaf((a.shape[1], rng.choice(dims))))
                    else:
                        e = pt.einsum("ij,j,i->", a, leaf((a.shape[1],)), leaf((a.shape[0],)))
                elif op == "bmatmul":
                    # stacked matrix products of MIXED RANK: the batch axes align from the right
                    if a.ndim < 2:
                        continue
                    d = rng.choice(dims)
                    which = rng.randrange(3)
                    if which == 0:
                        e = a @ leaf((a.shape[-1], d))
                    elif which == 1:
                        d0 = a.shape[0] if rng.random() < 0.6 else rng.choice(dims)
                        e = leaf((d0, *a.shape)) @ leaf((*a.shape[:-2], a.shape[-1], d))
                    else:
                        e = leaf((*a.shape[:-2][-1:], d, a.shape[-2])) @ a
                elif op == "bcast":
                    e = a + pt.zeros(a.shape, dtype=np.float64)
                elif op == "where":
                    b = leaf(a.shape)
                    e = pt.where(pt.greater(a, b), a, b)
                elif op == "pad":
                    if a.ndim == 0:
                        continue
                    pw = tuple((rng.randint(0, 3), rng.randint(0, 3)) for _ in range(a.ndim))
                    if rng.random() < 0.5:
                        e = pt.pad(a, pw)
                    else:
                        e = pt.pad(a, pw, constant_values=tuple((float(rng.randint(-2, 2)), float(rng.randint(-2, 2)))
                                                                for _ in range(a.ndim)))
                elif op == "stride":
                    if a.ndim == 0:
                        continue
                    # negative steps only on static axes: a symbolic start (n-1) is not lowered on this tree
                    e = a[tuple(slice(None, None, rng.choice([1, 1, 2, 3, -1, -2] if isinstance(d, int) else [1, 2, 3]))
                                for d in a.shape)]
                elif op == "concat":
                    if a.ndim == 0:
                        continue
                    # along the concatenation axis only static lengths: lowering a concatenation along a
                    # symbolic axis is not implemented on this tree (TypeError in map_concatenate; DESIGN §8)
                    static = [i for i, d in enumerate(a.shape) if isinstance(d, int)]
                    if not static:
                        continue
                    ax = rng.choice(static)
                    bshape = tuple(rng.choice([1, 2, 3]) if i == ax else d for i, d in enumerate(a.shape))
                    parts = [a, leaf(bshape)]
                    if rng.random() < 0.5:
                        parts.reverse()
                    e = pt.concatenate(parts, axis=ax)
                elif op == "expand":
                    e = pt.expand_dims(a, rng.randint(0, a.ndim))
                elif op == "bcast_to":
                    e = pt.broadcast_to(a, (rng.choice([1, 2, 3]), *a.shape))
            except Exception as ex:   # constructor rejected the combination: fine
                continue
            pool.append(e)
        yield pi, pool[-1], dict(phs)


def concrete_inputs(phs, sizes, rng):
    ev = RefEval({}, sizes)
    out = {}
    for nm, (shape, dt) in phs.items():
        s = ev.shape(shape)
        out[nm] = (rng.integers(-3, 6, size=s)).astype(dt)
    return out


def batch_symbolic(ctx):
    import pytato as pt
    N = 400 if ctx.thorough else 80
    nprng = np.random.default_rng(ctx.seed + 5)
    vals = [{"n": a, "m": b} for a in range(1, 7) for b in range(1, 7)]
    rng = random.Random(ctx.seed + 77)
    cases = dis = 0
    kinds: dict[str, int] = {}
    progs = []
    for pi, expr, phs in sym_programs(ctx, N):
        kinds[type(expr).__name__] = kinds.get(type(expr).__name__, 0) + 1
        vs = vals if ctx.thorough else rng.sample(vals, 6)
        progs.append((pi, expr, phs))
        for sizes in vs:
            cases += 1
            inp = concrete_inputs(phs, sizes, nprng)
            try:
                ref = evaluate(expr, inp, sizes)
            except Exception as e:   # noqa: BLE001
                dis += 1
                ctx.broken.append(f"refeval:symbolic:{pi}:{type(e).__name__}:{e}")
                continue
            got = RefEval({}, sizes).shape(expr.shape)
            if got != ref.shape:
                dis += 1
                ctx.violation("symbolic-shape:inferred-vs-numpy",
                              f"inferred shape {expr.shape} evaluates to {got} at {sizes}, NumPy gives {ref.shape}",
                              {"program_index": pi, "sizes": sizes, "inferred": str(expr.shape),
                               "numpy": ref.shape, "seed": ctx.seed})
            # every intermediate node as well
        if pi % 17 == 0:
            ctx.sample({"batch": "symbolic-shapes", "program": pi, "shape": str(expr.shape),
                        "placeholders": {k: str(v[0]) for k, v in phs.items()}})
    ctx.note_batch("symbolic-shape-inference", cases, dis, exhaustive=False, result_kinds=kinds)
    return progs


def _degenerate_leaf_shapes(phs) -> bool:
    from pytato.array import Array
    from pytato.transform import InputGatherer
    for shape, _ in phs.values():
        for d in shape:
            if isinstance(d, Array):
                params = sorted(p.name for p in InputGatherer()(d))
                base = {"n": 2, "m": 3}
                v0 = RefEval({}, base).dim(d)
                for q in params:
                    if RefEval({}, dict(base, **{q: base.get(q, 2) + 5})).dim(d) == v0:
                        return True
    return False


def batch_kernels(ctx, progs):
    """one compiled kernel per program, executed at several sizes"""
    try:
        from .. import cexec
    except ImportError:
        ctx.coverage["kernel_batch"] = "cexec not available yet"
        return
    nprng = np.random.default_rng(ctx.seed + 9)
    sizesets = [{"n": 1, "m": 1}, {"n": 2, "m": 5}, {"n": 4, "m": 3}, {"n": 6, "m": 6}]
    if ctx.thorough:
        sizesets += [{"n": a, "m": b} for a in (1, 3, 5) for b in (2, 4, 6)]
    jobs = []
    lim = len(progs) if ctx.thorough else 40
    for pi, expr, phs in progs[:lim]:
        runs = []
        for sizes in sizesets:
            inp = concrete_inputs(phs, sizes, nprng)
            runs.append((sizes, inp))
        from .c01 import _prep_dedup
        # every kernel is also interpreted instruction by instruction (kernel read-back); kernels whose INPUT
        # shapes are degenerate spellings (a length that mentions a parameter it does not depend on) are only
        # interpreted: loopy's host-side C invoker cannot solve for such a parameter and crashes
        jobs.append(cexec.Job(tag=f"sym{pi}", expr=expr, runs=[dict(inp, **sz) for sz, inp in runs],
                              prep=_prep_dedup, kir_orders=1, no_exec=_degenerate_leaf_shapes(phs)))
    results = cexec.run_jobs(ctx, jobs)
    cases = dis = 0
    for (pi, expr, phs), job, res in zip(progs[:lim], jobs, results):
        if res.error:
            dis += 1
            cases += 1
            ctx.violation("symbolic-kernel:codegen-or-run-failed",
                          f"program {pi}: {res.error[:300]}", {"program_index": pi, "error": res.error,
                                                               "seed": ctx.seed})
            continue
        k = res.kir or {}
        if "outputs" in k and not ("shape_error" in k or "error" in k):
            for ri, run_in in enumerate(job.runs):
                if ri >= len(k["outputs"]):
                    break
                cases += 1
                sizes = {kk: v for kk, v in run_in.items() if kk in ("n", "m")}
                inp = {kk: v for kk, v in run_in.items() if kk not in ("n", "m")}
                ref = evaluate(expr, inp, sizes)
                got = k["outputs"][ri].get("_pt_out", next(iter(k["outputs"][ri].values()), None))
                if got is None or not close(got, ref):
                    dis += 1
                    ctx.violation("symbolic-kernel:interpreted-value-mismatch",
                                  f"the kernel generated once for symbolic program {pi}, interpreted instruction by instruction "
                                  f"at sizes {sizes}, differs from NumPy",
                                  {"program_index": pi, "sizes": sizes, "seed": ctx.seed,
                                   "observed": None if got is None else np.asarray(got).tolist(), "expected": ref.tolist()})
                    break
        elif "shape_error" in k or "error" in k:
            ctx.broken.append(f"kernel-readback:{(k.get('shape_error') or k.get('error'))[:80]}:sym{pi}")
        for run_in, out in zip(job.runs, res.outputs):
            cases += 1
            sizes = {k: v for k, v in run_in.items() if k in ("n", "m")}
            inp = {k: v for k, v in run_in.items() if k not in ("n", "m")}
            ref = evaluate(expr, inp, sizes)
            got = out["_pt_out"] if "_pt_out" in out else next(iter(out.values()))
            if not close(got, ref):
                dis += 1
                ctx.violation("symbolic-kernel:value-mismatch",
                              f"one compiled kernel gives a wrong result at sizes {sizes} (program {pi})",
                              {"program_index": pi, "sizes": sizes, "seed": ctx.seed,
                               "observed": np.asarray(got).tolist(), "expected": ref.tolist()})
    ctx.note_batch("size-generic-kernels", cases, dis, exhaustive=False,
                   kernels=len(jobs), sizesets=len(sizesets))


def run(ctx: common.Ctx):
    ctx.assumptions += [
        "ISL (the real decision procedure) is modelled by its closed form over affine expressions; compared on the box",
        "loopy C target + gcc execute the generated kernel (OpenCL absent); executed, not verified",
    ]
    ctx.lean_obligations("PtProofs.C16", THEOREMS)
    ctx.lean_obligations("PtProofs.C16Shape", SHAPE_THEOREMS)
    batch_affine(ctx)
    batch_consumers(ctx)
    batch_symshape(ctx)
    batch_shape_equality_rank(ctx)
    try:
        progs = batch_symbolic(ctx)
        batch_kernels(ctx, progs)
    except Exception as e:   # noqa: BLE001
        # a wrong inferred shape makes the reference evaluation of a whole program fail (inconsistent operand
        # shapes): keep the violations recorded so far and report the abort instead of crashing
        import traceback
        ctx.broken.append(f"harness-aborted:symbolic-programs:{type(e).__name__}: {str(e)[:120]}")
        ctx.coverage["aborted_traceback"] = traceback.format_exc()[-2000:]
    ctx.broken = sorted(set(ctx.broken))[:50]


def replay(ctx, path):
    import json
    print(open(path).read()[:3000])
    run(ctx)
    return ctx.finish()

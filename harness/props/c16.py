"""C16 — symbolic shapes: decisions are sound and one kernel serves every size.

Theorems (PtProofs/C16.lean): affEq_iff, isNonNeg_iff, broadcast_decision_sound
over the model `Pt.affEq` / `Pt.isNonNeg` of `are_shape_components_equal` /
`_is_non_negative` (which call ISL in the real code).

Tie: (1) exhaustive / seeded pairs of affine shape expressions over 1..3 size
parameters, coefficients in [-3,3], built as *pytato expressions* in several
syntactic forms: the real decisions vs the Lean model (ptdriver) vs an
independent grid oracle (values of the real expression on the affinely spanning
grid {0, e_x}); (2) programs over symbolic-shape placeholders: `Array.shape`
evaluated at concrete sizes vs NumPy's shape on concrete operands; (3) one
compiled kernel per symbolic program executed at several sizes (loopy C
target) vs the reference evaluator."""
from __future__ import annotations

import itertools
import random

import numpy as np

from .. import common, ser
from ..refeval import RefEval, evaluate, close

THEOREMS = ["Pt.affEq_iff", "Pt.isNonNeg_iff", "Pt.broadcast_decision_sound",
            "Pt.eval_norm", "Pt.nodup_norm"]

PARAMS = ["n", "m", "k"]


N_FORMS = 6


def build_dim(coeffs, form, sp):
    """pytato expression for c0 + sum c_i * p_i in syntactic form `form` (0..5); forms 4 and 5 are DEGENERATE
    spellings: they mention a parameter the value does not depend on (e + q - q, e + 0*q) or pass through a
    cancelling detour ((e + e) - e)"""
    if form >= 4:
        e = build_dim(coeffs, form - 4, sp)
        unused = [p for p, c in zip(PARAMS, coeffs[1:]) if c == 0]
        q = sp[unused[0]] if unused else sp[PARAMS[0]]
        if form == 4:
            return (e + q) - q if not isinstance(e, int) or True else e
        return (e + 0 * q) if hash((coeffs, form)) % 2 else (2 * e + q) - (e + q)
    c0, cs = coeffs[0], coeffs[1:]
    terms = []
    for p, c in zip(PARAMS, cs):
        if c == 0:
            continue
        x = sp[p]
        if form == 0:
            terms.append(c * x)
        elif form == 1:
            terms.append(x * c)
        elif form == 2:
            # repeated addition / subtraction
            t = x
            for _ in range(abs(c) - 1):
                t = t + x
            terms.append(t if c > 0 else -1 * t)
        else:
            terms.append((c + 1) * x - x)
    if form in (1, 3):
        terms.reverse()
    e = None
    for t in terms:
        e = t if e is None else e + t
    if e is None:
        return c0
    if c0 != 0 or form == 3:
        e = (e + c0) if form != 1 else (c0 + e)
    return e


def aexpr(coeffs) -> str:
    c0, cs = coeffs[0], coeffs[1:]
    s = f"(lit {c0})"
    for p, c in zip(PARAMS, cs):
        if c:
            s = f"(add {s} (scale {c} (param {p})))"
    return s


def aexpr_of_dim(d) -> str:
    """serialise a *real* pytato shape component structurally (the model then
    normalises it itself) — ties the model's normaliser to ISL's"""
    from pytato.array import Array, IndexLambda, SizeParam
    import pymbolic.primitives as prim
    if isinstance(d, (int, np.integer)):
        return f"(lit {int(d)})"
    if isinstance(d, SizeParam):
        return f"(param {d.name})"
    if isinstance(d, IndexLambda):
        def rec(e):
            if isinstance(e, (int, np.integer)):
                return f"(lit {int(e)})"
            if isinstance(e, prim.Variable):
                return aexpr_of_dim(d.bindings[e.name])
            if isinstance(e, prim.Sum):
                r = rec(e.children[0])
                for c in e.children[1:]:
                    r = f"(add {r} {rec(c)})"
                return r
            if isinstance(e, prim.Product):
                consts = [c for c in e.children if isinstance(c, (int, np.integer))]
                rest = [c for c in e.children if not isinstance(c, (int, np.integer))]
                k = 1
                for c in consts:
                    k *= int(c)
                if len(rest) == 0:
                    return f"(lit {k})"
                if len(rest) == 1:
                    return f"(scale {k} {rec(rest[0])})"
                raise ser.SerError("non-affine product")
            from pytato.scalar_expr import TypeCast
            if isinstance(e, TypeCast):
                return rec(e.inner_expr)
            raise ser.SerError(f"non-affine {type(e).__name__}")
        return rec(d.expr)
    raise ser.SerError(f"unsupported dim {type(d).__name__}")


def eval_dim(d, sizes) -> int:
    return RefEval({}, sizes).dim(d)


def grid_valuations():
    z = {p: 0 for p in PARAMS}
    yield z
    for p in PARAMS:
        v = dict(z)
        v[p] = 1
        yield v
    yield {p: 2 for p in PARAMS}
    yield {"n": 3, "m": 1, "k": 4}


def batch_affine(ctx):
    import pytato as pt
    from pytato.utils import _is_non_negative, _is_non_positive, are_shape_components_equal
    sp = {p: pt.make_size_param(p) for p in PARAMS}
    rng = random.Random(ctx.seed * 991 + 16)
    box = range(-3, 4)
    cases = []
    # exhaustive: one parameter (c0, cn) x (c0', cn') in all 4 forms pairing
    for a in itertools.product(box, box):
        for b in itertools.product(box, box):
            cases.append(((a[0], a[1], 0, 0), (b[0], b[1], 0, 0), (a[0] * 7 + b[1]) % 4, (b[0] + a[1]) % 4))
    n_exh = len(cases)
    # seeded: 2-3 parameters; half of them equal-by-construction in different forms
    N = 12000 if ctx.thorough else 2500
    for _ in range(N):
        np_ = rng.choice([2, 3])
        a = [rng.choice(box) for _ in range(1 + np_)] + [0] * (3 - np_)
        if rng.random() < 0.4:
            b = list(a)
            if rng.random() < 0.3:
                b[rng.randrange(1 + np_)] += rng.choice([-1, 1])
        else:
            b = [rng.choice(box) for _ in range(1 + np_)] + [0] * (3 - np_)
        cases.append((tuple(a), tuple(b), rng.randrange(N_FORMS), rng.randrange(N_FORMS)))
    queries, real = [], []
    for a, b, fa, fb in cases:
        da, db = build_dim(a, fa, sp), build_dim(b, fb, sp)
        try:
            r_eq = bool(are_shape_components_equal(da, db))
            r_nn = bool(_is_non_negative(da))
            r_np = bool(_is_non_positive(da))
            err = None
        except Exception as e:   # noqa: BLE001
            r_eq = r_nn = r_np = None
            err = f"{type(e).__name__}: {e}"
        real.append((r_eq, r_nn, r_np, err, da, db))
        try:
            sa, sb = aexpr_of_dim(da), aexpr_of_dim(db)
        except ser.SerError as e:
            ctx.broken.append(f"serialiser:affine:{e}")
            sa, sb = aexpr(a), aexpr(b)
        queries += [f"(aff eq {sa} {sb})", f"(aff nonneg {sa})", f"(aff nonpos {sa})"]
    ans = common.driver_query_parallel(queries)
    dis = 0
    stats = {"equal": 0, "nonneg": 0, "nonpos": 0}
    for i, ((a, b, fa, fb), (r_eq, r_nn, r_np, err, da, db)) in enumerate(zip(cases, real)):
        m_eq, m_nn, m_np = (ans[3 * i + j] == "ok #t" for j in range(3))
        stats["equal"] += bool(r_eq)
        stats["nonneg"] += bool(r_nn)
        stats["nonpos"] += bool(r_np)
        # independent oracle on the grid
        vals = [(eval_dim(da, v), eval_dim(db, v)) for v in grid_valuations()]
        o_eq = all(x == y for x, y in vals)
        z = vals[0][0]
        units = [vals[1 + j][0] - z for j in range(3)]
        o_nn = z >= 0 and all(u >= 0 for u in units)
        o_np = z <= 0 and all(u <= 0 for u in units)
        desc = {"a": a, "b": b, "forms": (fa, fb), "exprs": (str(da), str(db))}
        if err is not None:
            dis += 1
            ctx.violation("affine-decision:exception", f"shape decision raised {err} for {desc}", desc)
            continue
        if (r_eq, r_nn, r_np) != (o_eq, o_nn, o_np):
            dis += 1
            which = "equal" if r_eq != o_eq else ("nonneg" if r_nn != o_nn else "nonpos")
            ctx.violation(f"affine-decision:{which}",
                          f"real decision {which}={(r_eq, r_nn, r_np)} but for-all-valuations truth is "
                          f"{(o_eq, o_nn, o_np)} for {desc}; witness valuations {list(grid_valuations())}",
                          dict(desc, real=(r_eq, r_nn, r_np), oracle=(o_eq, o_nn, o_np)))
        elif (m_eq, m_nn, m_np) != (r_eq, r_nn, r_np):
            dis += 1
            ctx.broken.append(f"correspondence:affine-model-vs-real:{a}:{b}")
        if i % 701 == 0:
            ctx.sample({"batch": "affine", "a": a, "b": b, "real": (r_eq, r_nn, r_np)})
    ctx.note_batch("affine-decisions", len(cases), dis, exhaustive=False,
                   exhaustive_subbatch_one_param=n_exh, stats=stats)


def batch_consumers(ctx):
    """every consumer of the shape-equality decision (broadcasting, where, stack, einsum axis matching, matmul,
    broadcast_to, call argument checking, CSR construction) accepts operand shapes (a, 3) / (b, 3) exactly when
    a = b for all valuations (or NumPy broadcasting admits them: one of them the constant 1); accepted results have
    the right inferred shape"""
    import pytato as pt
    sp = {p: pt.make_size_param(p) for p in PARAMS}
    rng = random.Random(ctx.seed * 577 + 161)
    box = range(0, 4)      # admissible (non-negative for every valuation) lengths only
    N = 1200 if ctx.thorough else 220
    pairs = []
    for _ in range(N):
        np_ = rng.choice([1, 2, 2, 3])
        a = [rng.choice(box) for _ in range(1 + np_)] + [0] * (3 - np_)
        if rng.random() < 0.6:
            b = list(a)
            if rng.random() < 0.3:
                b[rng.randrange(1 + np_)] += rng.choice([-1, 1])
                b = [max(0, x) for x in b]
        else:
            b = [rng.choice(box) for _ in range(1 + np_)] + [0] * (3 - np_)
        pairs.append((tuple(a), tuple(b), rng.randrange(N_FORMS), rng.randrange(N_FORMS)))
    f64 = np.float64

    def mk(name, shape):
        return pt.make_placeholder(name, shape, f64)

    def c_add(da, db):
        return mk("x", (da, 3)) + mk("y", (db, 3))

    def c_where(da, db):
        return pt.where(pt.greater(mk("c", (da, 3)), 0), mk("x", (db, 3)), 1.0)

    def c_stack(da, db):
        return pt.stack([mk("x", (da, 3)), mk("y", (db, 3))], axis=rng.choice([0, 1, 2]))

    def c_einsum(da, db):
        return pt.einsum("ij,ij->j", mk("x", (da, 3)), mk("y", (db, 3))) if isinstance(da, int) and isinstance(db, int) \
            else pt.einsum("ij,ij->ij", mk("x", (da, 3)), mk("y", (db, 3)))

    def c_matmul(da, db):
        return mk("x", (2, da)) @ mk("y", (db, 3)) if isinstance(da, int) and isinstance(db, int) \
            else pt.einsum("ij,kj->ijk", mk("x", (2, da)), mk("y", (3, db)))

    def c_broadcast_to(da, db):
        return pt.broadcast_to(mk("x", (da, 3)), (2, db, 3))

    def c_call(da, db):
        def f(u):
            return 2 * u
        r = pt.trace_call(f, mk("x", (da, 3)))
        fdef = r._container.function
        (pname,) = fdef.parameters
        return fdef(**{pname: mk("y", (db, 3))})

    def c_csr(da, db):
        return pt.make_csr_matrix((4, 4), mk("ev", (da,)), pt.make_placeholder("ec", (db,), np.int64),
                                  pt.make_placeholder("rs", (5,), np.int64))

    def c_einsum_diag(da, db):
        return pt.einsum("ii->i", mk("x", (da, db)))

    def c_einsum_diag_later_operand(da, db):
        return pt.einsum("k,jii->kij", mk("z", (2,)), mk("x", (3, da, db)))

    def c_where3(da, db):      # three operands, the first with a unit axis
        return pt.where(pt.greater(mk("c", (1, 3)), 0), mk("x", (da, 3)), mk("y", (db, 3)))

    def c_where3_scalar_first(da, db):
        return pt.where(pt.greater(mk("c", ()), 0), mk("x", (da,)), mk("y", (db,)))

    def c_advidx3(da, db):
        i8 = np.int64
        return mk("A", (5, 5, 5))[pt.make_placeholder("i1", (1,), i8), pt.make_placeholder("i2", (da,), i8),
                                  pt.make_placeholder("i3", (db,), i8)]

    def c_bcast_utility3(da, db):
        from pytato.utils import get_shape_after_broadcasting
        return get_shape_after_broadcasting([mk("c", (1,)), mk("x", (da,)), mk("y", (db,))])

    def c_bcast_utility4(da, db):
        from pytato.utils import get_shape_after_broadcasting
        return get_shape_after_broadcasting([mk("c", (3,)), 2.0, mk("x", (da, 1)), mk("w", (1, 1)), mk("y", (db, 3))])

    # name -> (constructor, NumPy-broadcasting admitted, which operand may be 1)
    consumers = {"add": (c_add, "both"), "where": (c_where, "both"), "stack": (c_stack, None),
                 "einsum": (c_einsum, "both"), "einsum-3": (c_matmul, "both"), "broadcast_to": (c_broadcast_to, "first"),
                 "call": (c_call, None), "csr": (c_csr, None),
                 "einsum-diagonal": (c_einsum_diag, "both"), "einsum-diagonal-later-operand": (c_einsum_diag_later_operand, "both"),
                 "where-3-unit-first": (c_where3, "both"), "where-3-scalar-first": (c_where3_scalar_first, "both"),
                 "advanced-index-3": (c_advidx3, "both"), "broadcast-utility-3": (c_bcast_utility3, "both"),
                 "broadcast-utility-5": (c_bcast_utility4, "both")}
    cases = dis = 0
    stats = {k: {"accepted": 0, "rejected": 0} for k in consumers}
    for a, b, fa, fb in pairs:
        da, db = build_dim(a, fa, sp), build_dim(b, fb, sp)
        vals = [(eval_dim(da, v), eval_dim(db, v)) for v in grid_valuations()]
        eq = all(x == y for x, y in vals)
        a_is1 = all(x == 1 for x, _ in vals)
        b_is1 = all(y == 1 for _, y in vals)
        for cname, (ctor, bc) in consumers.items():
            cases += 1
            expect = eq or (bc == "both" and (a_is1 or b_is1)) or (bc == "first" and a_is1)
            try:
                r = ctor(da, db)
                got, err = True, None
            except (ValueError, TypeError, IndexError) as e:     # IndexError: NumPy's class for index arrays
                got, err = False, f"{type(e).__name__}: {str(e)[:100]}"
            except Exception as e:   # noqa: BLE001
                got, err = None, f"{type(e).__name__}: {str(e)[:100]}"
            if got and not isinstance(r, tuple):
                try:
                    r.shape
                except Exception as e:   # noqa: BLE001  (accepted by the constructor, but the node has no shape)
                    got, err = None, f"accepted, then .shape raises {type(e).__name__}: {str(e)[:80]}"
            stats[cname]["accepted" if got else "rejected"] += 1
            if got != expect:
                dis += 1
                desc = {"consumer": cname, "a": a, "b": b, "forms": (fa, fb), "exprs": (str(da), str(db))}
                ctx.violation(f"shape-decision-in-consumer:{cname}:{'rejects-equal' if expect else 'accepts-unequal'}",
                              f"{cname} on operand lengths {a} (form {fa}) / {b} (form {fb}) "
                              f"{'accepted' if got else ('rejected (' if got is False else 'neither accepted nor rejected (') + str(err) + ')'} although the lengths are "
                              f"{'equal' if eq else 'not equal'} for all valuations (values on the grid {vals[:4]})",
                              dict(desc, accepted=got, error=err, equal=eq))
    ctx.note_batch("shape-decision-consumers", cases, dis, exhaustive=False, per_consumer=stats)


# ---------------------------------------------------------------- symbolic programs

def sym_programs(ctx, count):
    """seeded programs over symbolic-shape placeholders using the operations that
    admit symbolic axes; yields (expr, placeholder specs)"""
    import pytato as pt
    rng = random.Random(ctx.seed * 613 + 160)
    for pi in range(count):
        n, m = pt.make_size_param("n"), pt.make_size_param("m")
        # (incl. degenerate spellings: a length that is identically 1, a parameter that cancels)
        dims = [n, m, n + 1, 2 * n, 3, 1, 2, (n + 1) - n, (n + m) - m, 2 * n - n]
        one_sym = (n + 1) - n
        phs = {}

        def leaf(shape, dtype=np.float64):
            nm = f"p{len(phs)}"
            phs[nm] = (shape, np.dtype(dtype))
            return pt.make_placeholder(nm, shape, dtype)
        r = rng.randint(1, 3)
        shape = tuple(rng.choice(dims) for _ in range(r))
        focus = pi % 4 == 3
        if focus:
            # a matrix whose two extents depend on different size parameters, contracted over several indices first
            shape = tuple(rng.sample([n, m, m + 1, 2 * n, n + m], 2))
        pool = [leaf(shape)]
        for step in range(rng.randint(1, 5)):
            a = rng.choice(pool)
            op = "einsum2" if focus and step == 0 else rng.choice(["binary", "binary", "scalar", "transpose", "roll", "stack", "sum",
                             "einsum", "einsum2", "bcast", "where", "neg", "pad", "pad", "stride", "concat",
                             "expand", "bcast_to"])
            try:
                if op == "binary":
                    bshape = tuple(d if rng.random() < 0.7 else rng.choice([1, 1, one_sym]) for d in a.shape)
                    bshape = bshape[rng.randint(0, len(bshape)):] if rng.random() < 0.3 else bshape
                    b = leaf(bshape)
                    e = rng.choice([lambda x, y: x + y, lambda x, y: x * y, lambda x, y: x - y,
                                    lambda x, y: y - x])(a, b)
                elif op == "scalar":
                    e = rng.choice([lambda x: x + 2, lambda x: 3 * x, lambda x: 1 - x, lambda x: x / 2])(a)
                elif op == "neg":
                    e = -a
                elif op == "transpose":
                    perm = list(range(a.ndim))
                    rng.shuffle(perm)
                    e = pt.transpose(a, perm)
                elif op == "roll":
                    if a.ndim == 0:
                        continue
                    e = pt.roll(a, rng.randint(-3, 3), rng.randrange(a.ndim))
                elif op == "stack":
                    b = leaf(a.shape)
                    e = pt.stack([a, b], axis=rng.randint(0, a.ndim))
                elif op == "sum":
                    static = [i for i, d in enumerate(a.shape) if isinstance(d, int)]
                    if not static:
                        continue
                    e = pt.sum(a, axis=rng.choice(static))
                elif op == "einsum":
                    if a.ndim != 2:
                        continue
                    b = leaf((a.shape[1], rng.choice(dims)))
                    e = pt.einsum("ij,jk->ik", a, b)
                elif op == "einsum2":
                    # several reduction indices whose extents depend on different size parameters
                    if a.ndim != 2:
                        continue
                    which = rng.randrange(4)
                    if which == 0:
                        d2 = rng.choice(dims)
                        e = pt.einsum("ij,jk,kl->il", a, leaf((a.shape[1], d2)), leaf((d2, rng.choice(dims))))
                    elif which == 1:
                        e = pt.einsum("ij,ij->", a, leaf(a.shape))
                    elif which == 2:
                        e = pt.einsum("ij,jk->k", a, leaf((a.shape[1], rng.choice(dims))))
                    else:
                        e = pt.einsum("ij,j,i->", a, leaf((a.shape[1],)), leaf((a.shape[0],)))
                elif op == "bcast":
                    e = a + pt.zeros(a.shape, dtype=np.float64)
                elif op == "where":
                    b = leaf(a.shape)
                    e = pt.where(pt.greater(a, b), a, b)
                elif op == "pad":
                    if a.ndim == 0:
                        continue
                    pw = tuple((rng.randint(0, 3), rng.randint(0, 3)) for _ in range(a.ndim))
                    if rng.random() < 0.5:
                        e = pt.pad(a, pw)
                    else:
                        e = pt.pad(a, pw, constant_values=tuple((float(rng.randint(-2, 2)), float(rng.randint(-2, 2)))
                                                                for _ in range(a.ndim)))
                elif op == "stride":
                    if a.ndim == 0:
                        continue
                    # negative steps only on static axes: a symbolic start (n-1) is not lowered on this tree
                    e = a[tuple(slice(None, None, rng.choice([1, 1, 2, 3, -1, -2] if isinstance(d, int) else [1, 2, 3]))
                                for d in a.shape)]
                elif op == "concat":
                    if a.ndim == 0:
                        continue
                    # along the concatenation axis only static lengths: lowering a concatenation along a
                    # symbolic axis is not implemented on this tree (TypeError in map_concatenate; DESIGN §8)
                    static = [i for i, d in enumerate(a.shape) if isinstance(d, int)]
                    if not static:
                        continue
                    ax = rng.choice(static)
                    bshape = tuple(rng.choice([1, 2, 3]) if i == ax else d for i, d in enumerate(a.shape))
                    parts = [a, leaf(bshape)]
                    if rng.random() < 0.5:
                        parts.reverse()
                    e = pt.concatenate(parts, axis=ax)
                elif op == "expand":
                    e = pt.expand_dims(a, rng.randint(0, a.ndim))
                elif op == "bcast_to":
                    e = pt.broadcast_to(a, (rng.choice([1, 2, 3]), *a.shape))
            except Exception as ex:   # constructor rejected the combination: fine
                continue
            pool.append(e)
        yield pi, pool[-1], dict(phs)


def concrete_inputs(phs, sizes, rng):
    ev = RefEval({}, sizes)
    out = {}
    for nm, (shape, dt) in phs.items():
        s = ev.shape(shape)
        out[nm] = (rng.integers(-3, 6, size=s)).astype(dt)
    return out


def batch_symbolic(ctx):
    import pytato as pt
    N = 400 if ctx.thorough else 80
    nprng = np.random.default_rng(ctx.seed + 5)
    vals = [{"n": a, "m": b} for a in range(1, 7) for b in range(1, 7)]
    rng = random.Random(ctx.seed + 77)
    cases = dis = 0
    kinds: dict[str, int] = {}
    progs = []
    for pi, expr, phs in sym_programs(ctx, N):
        kinds[type(expr).__name__] = kinds.get(type(expr).__name__, 0) + 1
        vs = vals if ctx.thorough else rng.sample(vals, 6)
        progs.append((pi, expr, phs))
        for sizes in vs:
            cases += 1
            inp = concrete_inputs(phs, sizes, nprng)
            try:
                ref = evaluate(expr, inp, sizes)
            except Exception as e:   # noqa: BLE001
                dis += 1
                ctx.broken.append(f"refeval:symbolic:{pi}:{type(e).__name__}:{e}")
                continue
            got = RefEval({}, sizes).shape(expr.shape)
            if got != ref.shape:
                dis += 1
                ctx.violation("symbolic-shape:inferred-vs-numpy",
                              f"inferred shape {expr.shape} evaluates to {got} at {sizes}, NumPy gives {ref.shape}",
                              {"program_index": pi, "sizes": sizes, "inferred": str(expr.shape),
                               "numpy": ref.shape, "seed": ctx.seed})
            # every intermediate node as well
        if pi % 17 == 0:
            ctx.sample({"batch": "symbolic-shapes", "program": pi, "shape": str(expr.shape),
                        "placeholders": {k: str(v[0]) for k, v in phs.items()}})
    ctx.note_batch("symbolic-shape-inference", cases, dis, exhaustive=False, result_kinds=kinds)
    return progs


def _degenerate_leaf_shapes(phs) -> bool:
    from pytato.array import Array
    from pytato.transform import InputGatherer
    for shape, _ in phs.values():
        for d in shape:
            if isinstance(d, Array):
                params = sorted(p.name for p in InputGatherer()(d))
                base = {"n": 2, "m": 3}
                v0 = RefEval({}, base).dim(d)
                for q in params:
                    if RefEval({}, dict(base, **{q: base.get(q, 2) + 5})).dim(d) == v0:
                        return True
    return False


def batch_kernels(ctx, progs):
    """one compiled kernel per program, executed at several sizes"""
    try:
        from .. import cexec
    except ImportError:
        ctx.coverage["kernel_batch"] = "cexec not available yet"
        return
    nprng = np.random.default_rng(ctx.seed + 9)
    sizesets = [{"n": 1, "m": 1}, {"n": 2, "m": 5}, {"n": 4, "m": 3}, {"n": 6, "m": 6}]
    if ctx.thorough:
        sizesets += [{"n": a, "m": b} for a in (1, 3, 5) for b in (2, 4, 6)]
    jobs = []
    lim = len(progs) if ctx.thorough else 40
    for pi, expr, phs in progs[:lim]:
        runs = []
        for sizes in sizesets:
            inp = concrete_inputs(phs, sizes, nprng)
            runs.append((sizes, inp))
        from .c01 import _prep_dedup
        # every kernel is also interpreted instruction by instruction (kernel read-back); kernels whose INPUT
        # shapes are degenerate spellings (a length that mentions a parameter it does not depend on) are only
        # interpreted: loopy's host-side C invoker cannot solve for such a parameter and crashes
        jobs.append(cexec.Job(tag=f"sym{pi}", expr=expr, runs=[dict(inp, **sz) for sz, inp in runs],
                              prep=_prep_dedup, kir_orders=1, no_exec=_degenerate_leaf_shapes(phs)))
    results = cexec.run_jobs(ctx, jobs)
    cases = dis = 0
    for (pi, expr, phs), job, res in zip(progs[:lim], jobs, results):
        if res.error:
            dis += 1
            cases += 1
            ctx.violation("symbolic-kernel:codegen-or-run-failed",
                          f"program {pi}: {res.error[:300]}", {"program_index": pi, "error": res.error,
                                                               "seed": ctx.seed})
            continue
        k = res.kir or {}
        if "outputs" in k and not ("shape_error" in k or "error" in k):
            for ri, run_in in enumerate(job.runs):
                if ri >= len(k["outputs"]):
                    break
                cases += 1
                sizes = {kk: v for kk, v in run_in.items() if kk in ("n", "m")}
                inp = {kk: v for kk, v in run_in.items() if kk not in ("n", "m")}
                ref = evaluate(expr, inp, sizes)
                got = k["outputs"][ri].get("_pt_out", next(iter(k["outputs"][ri].values()), None))
                if got is None or not close(got, ref):
                    dis += 1
                    ctx.violation("symbolic-kernel:interpreted-value-mismatch",
                                  f"the kernel generated once for symbolic program {pi}, interpreted instruction by instruction "
                                  f"at sizes {sizes}, differs from NumPy",
                                  {"program_index": pi, "sizes": sizes, "seed": ctx.seed,
                                   "observed": None if got is None else np.asarray(got).tolist(), "expected": ref.tolist()})
                    break
        elif "shape_error" in k or "error" in k:
            ctx.broken.append(f"kernel-readback:{(k.get('shape_error') or k.get('error'))[:80]}:sym{pi}")
        for run_in, out in zip(job.runs, res.outputs):
            cases += 1
            sizes = {k: v for k, v in run_in.items() if k in ("n", "m")}
            inp = {k: v for k, v in run_in.items() if k not in ("n", "m")}
            ref = evaluate(expr, inp, sizes)
            got = out["_pt_out"] if "_pt_out" in out else next(iter(out.values()))
            if not close(got, ref):
                dis += 1
                ctx.violation("symbolic-kernel:value-mismatch",
                              f"one compiled kernel gives a wrong result at sizes {sizes} (program {pi})",
                              {"program_index": pi, "sizes": sizes, "seed": ctx.seed,
                               "observed": np.asarray(got).tolist(), "expected": ref.tolist()})
    ctx.note_batch("size-generic-kernels", cases, dis, exhaustive=False,
                   kernels=len(jobs), sizesets=len(sizesets))


def run(ctx: common.Ctx):
    ctx.assumptions += [
        "ISL (the real decision procedure) is modelled by its closed form over affine expressions; compared on the box",
        "loopy C target + gcc execute the generated kernel (OpenCL absent); executed, not verified",
    ]
    ctx.lean_obligations("PtProofs.C16", THEOREMS)
    batch_affine(ctx)
    batch_consumers(ctx)
    progs = batch_symbolic(ctx)
    batch_kernels(ctx, progs)
    ctx.broken = sorted(set(ctx.broken))[:50]


def replay(ctx, path):
    import json
    print(open(path).read()[:3000])
    run(ctx)
    return ctx.finish()

"""C10 — mismatched or cyclic communication is diagnosed, never partitioned.

Theorems (lean/PtProofs/C10.lean): `diagnose_sound` (Valid -> ok), `diagnose_complete`
(not Valid -> an error whose class names a really violated clause), `violated_exact`,
`cyclic_exact`, `acyclic_no_cycle`.

Tie: for every valid program of the quick set, every single fault (drop / duplicate / retag /
redirect one send or one receive, self-send / self-receive, a dependency closing a cross-rank
cycle) at every communication operation, plus seeded pairs of faults: the real
`find_distributed_partition` + `verify_distributed_partition` (+ `number_distributed_tags`) run
on fakempi; per rank the outcome (exception class / blocked on a failed peer / partition
returned) is compared with the model (`findOutcome`, `verifyOutcome`), the union with
`diagnose` / `violated`.  Whatever the real code lets through is executed under the schedule
explorer of C08.

Search: an undiagnosed faulty program whose partition deadlocks, crashes, leaves messages
undelivered or mis-computes under some schedule (explorer gives the schedule); a raised class
naming a clause that is not violated; a valid program that is rejected."""
from __future__ import annotations

import collections
import json
import random
import re

from .. import common, distwork
from ..gen import comm as G

THEOREMS = ["Pt.Dist.diagnose_sound", "Pt.Dist.diagnose_complete", "Pt.Dist.violated_exact",
            "Pt.Dist.cyclic_exact", "Pt.Dist.acyclic_no_cycle",
            "Pt.Dist.diagnose_partition_exact", "Pt.Dist.diagnose_partition_sound",
            "Pt.Dist.diagnose_partition_complete"]

DIAG_CLASSES = {"NotImplementedError", "DuplicateSendError", "DuplicateRecvError", "CycleError",
                "MissingRecvError", "MissingSendError"}


def parse_diag(ans: str):
    """'ok <verdict> (violated …) (find (r (kind …))…) (verify …)'"""
    m = re.match(r"ok (\S+) \(violated ([^)]*)\) \(find (.*)\) \(verify ([^)]*)\)$", ans)
    if not m:
        return None
    verdict, viol, find, ver = m.groups()
    outcomes = {}
    for mm in re.finditer(r"\((\d+) \((\w+)([^)]*)\)\)", find):
        outcomes[int(mm.group(1))] = (mm.group(2), mm.group(3).split())
    return {"verdict": verdict, "violated": viol.split(), "find": outcomes, "verify": ver.split()}


def fault_label(faults):
    return "+".join(f[0] for f in faults) if faults else "none"


def known_suffix(pat, exc, text):
    if exc == "AssertionError" and "unable to find suitable part" in (text or "") and \
            pat.get("payload_through_send_holder"):
        return ":payload-through-send-holder"
    if exc == "AssertionError" and not text and pat.get("send_of_unmodified_recv"):
        return ":send-of-unmodified-recv"
    return ""


# --------------------------------------------------------------------------- the bare scheduler

def _longest_path_levels(graph):
    """independent oracle: level = longest dependency path below a task; None if cyclic
    (iterative three-colour DFS, no recursion, no `seen`-set shortcut)"""
    WHITE, GREY, BLACK = 0, 1, 2
    colour = {k: WHITE for k in graph}
    level = {}
    for root in graph:
        if colour[root] != WHITE:
            continue
        stack = [(root, iter(graph[root]))]
        colour[root] = GREY
        while stack:
            node, it = stack[-1]
            adv = False
            for d in it:
                if colour[d] == GREY:
                    return None
                if colour[d] == WHITE:
                    colour[d] = GREY
                    stack.append((d, iter(graph[d])))
                    adv = True
                    break
            if not adv:
                stack.pop()
                colour[node] = BLACK
                level[node] = 1 + max([level[d] for d in graph[node]] or [-1])
    return level


def _scheduler_graphs(ctx):
    """(label, graph as list of (key, [deps in order])) — key order and dependency order are part
    of the input: the real routine iterates both"""
    import itertools
    rng = random.Random(f"c10-sched:{ctx.seed}")
    # exhaustive: the 4-task "early + late" graph and a 5-task variant, every key order, every
    # order of the two-element dependency lists
    for name, edges in (("reuse4", {"p": ["d", "b"], "b": ["q"], "q": ["d"], "d": []}),
                        ("reuse5", {"p": ["d", "c"], "c": ["b"], "b": ["q"], "q": ["d"], "d": []}),
                        ("diamond", {"p": ["y", "z"], "y": ["w"], "z": ["w"], "w": []}),
                        ("two-long", {"p": ["d", "b", "e"], "b": ["q"], "q": ["d"], "e": ["b"], "d": []})):
        keys = sorted(edges)
        perms = list(itertools.permutations(keys))
        if len(perms) > 120:
            perms = rng.sample(perms, 120)
        for perm in perms:
            multi = [k for k in keys if len(edges[k]) > 1]
            for dep_perm_choice in itertools.product(*[list(itertools.permutations(edges[k])) for k in multi]):
                g = []
                for k in perm:
                    deps = list(dict(zip(multi, dep_perm_choice))[k]) if k in multi else list(edges[k])
                    g.append((k, deps))
                yield f"{name}", g
    # random DAGs with shuffled key order and shuffled dependency order; some made cyclic
    nrand = 6000 if ctx.thorough else 1500
    for i in range(nrand):
        n = rng.randint(1, 9)
        order = list(range(n))
        rng.shuffle(order)          # a hidden topological order
        deps = {v: [] for v in order}
        pdep = rng.choice([0.2, 0.35, 0.5])
        for a in range(n):
            for b in range(a):
                if rng.random() < pdep:
                    deps[order[a]].append(order[b])
        kind = "dag"
        if n >= 2 and rng.random() < 0.25:
            # close a cycle: an edge from an earlier task to a later one that (transitively or
            # directly) needs it, or a self loop
            a = rng.randrange(n)
            if rng.random() < 0.15:
                deps[order[a]].append(order[a])
            else:
                b = rng.randrange(n)
                lo, hi = min(a, b), max(a, b)
                if lo != hi:
                    deps[order[lo]].append(order[hi])
            kind = "maybe-cyclic"
        keys = list(order)
        rng.shuffle(keys)
        g = []
        for k in keys:
            d = list(dict.fromkeys(deps[k]))
            rng.shuffle(d)
            g.append((f"t{k}", [f"t{x}" for x in d]))
        yield kind, g
    # long chains from both ends (recursion depth / linear visits)
    for n in (60, 300):
        chain = [(f"c{i}", [f"c{i - 1}"] if i else []) for i in range(n)]
        yield "chain-forward", chain
        yield "chain-backward", chain[::-1]


def scheduler_batch(ctx):
    """the real `_calculate_dependency_levels` / `_schedule_task_batches_counted` against an
    independent longest-path computation and the Lean batch model, on graphs whose key order
    and dependency order are shuffled"""
    from orderedsets import FrozenOrderedSet
    from pytools.graph import CycleError
    from pytato.distributed.partition import _calculate_dependency_levels, _schedule_task_batches_counted
    cases = []
    for label, g in _scheduler_graphs(ctx):
        cases.append((label, g))
    queries = []
    for label, g in cases:
        names = {k: i for i, (k, _) in enumerate(sorted(g))}
        sends = " ".join(f"(0 0 {names[k]} ({' '.join(f'(0 {names[d]})' for d in deps)}))" for k, deps in g)
        queries.append(f"(dist batches (({sends}) ()))")
    answers = common.driver_query_parallel(queries)
    kinds = collections.Counter()
    n_dis = n_cyclic = 0
    for (label, g), a in zip(cases, answers):
        kinds[label] += 1
        graph = {k: FrozenOrderedSet(deps) for k, deps in g}
        want = _longest_path_levels({k: deps for k, deps in g})
        n_cyclic += want is None
        # Lean: nodes placed by peeling, in batches
        names = sorted(k for k, _ in g)
        toks = a[3:].replace("(", " ( ").replace(")", " ) ").split()
        depth = 0
        model_level = {}
        bidx = -1
        nums = []
        for tk in toks:
            if tk == "(":
                depth += 1
                if depth == 2:
                    bidx += 1
                if depth == 3:
                    nums = []
            elif tk == ")":
                if depth == 3 and len(nums) == 3:
                    model_level[names[nums[2]]] = bidx
                depth -= 1
            elif depth == 3:
                nums.append(int(tk))
        model_cyclic = len(model_level) < len(g)
        replay = {"graph": g, "label": label}
        if model_cyclic != (want is None) or (want is not None and model_level != want):
            ctx.broken.append(f"correspondence:lean-batches-vs-longest-path:{label}")
            n_dis += 1
            continue
        bad = None
        try:
            levels, visited = _calculate_dependency_levels(graph)
            if want is None:
                bad = ("scheduler:missed-cycle", "a cyclic task graph gets dependency levels")
            elif dict(levels) != want:
                bad = ("scheduler:levels-differ", f"levels {dict(levels)} != longest-path depth {want}")
            elif visited != len(g):
                bad = ("scheduler:visit-count", f"{visited} visits for {len(g)} tasks")
            else:
                batches, count = _schedule_task_batches_counted(graph)
                got = {t: i for i, b in enumerate(batches) for t in b}
                if got != want or sum(len(b) for b in batches) != len(g):
                    bad = ("scheduler:batches-differ", f"batches {[sorted(b) for b in batches]}")
                elif count > 2 * len(g):
                    bad = ("scheduler:visit-count", f"{count} visits+tasks for {len(g)} tasks")
        except CycleError:
            if want is not None:
                bad = ("scheduler:false-cycle", "CycleError for an acyclic task graph")
        except Exception as e:      # noqa: BLE001
            bad = (f"scheduler:exception:{type(e).__name__}", f"{type(e).__name__}: {str(e)[:100]}")
        if bad:
            n_dis += 1
            ctx.violation(bad[0], f"_calculate_dependency_levels on {label} graph "
                          f"{[(k, d) for k, d in g][:8]}{'…' if len(g) > 8 else ''}: {bad[1]}", replay)
    ctx.note_batch("scheduler-vs-longest-path-and-lean-batches", len(cases), n_dis, exhaustive=False,
                   nontrivial=sum(1 for _, g in cases if len(g) > 1), cyclic_graphs=n_cyclic,
                   graph_kinds=dict(sorted(kinds.items())),
                   how="real _calculate_dependency_levels / _schedule_task_batches_counted on task graphs with "
                       "shuffled key order and shuffled dependency order: levels == longest-path depth == Lean "
                       "peeling batches, CycleError iff cyclic, each task visited once")


def partition_fault_batch(ctx, accepted):
    """second fault layer: faults injected into REAL, valid partitions before the real
    verify_distributed_partition; expectation = the Lean model of verify (`verifyViolated`)"""
    nbase = 60 if ctx.thorough else 22
    nsites = 4 if ctx.thorough else 2
    bases = []
    for t in accepted:
        spec = distwork.get_spec(t)
        pat = G.known_patterns(spec)
        if not any(pat.values()) and G.stats(spec)["ncomm"] >= 1:
            bases.append(t)
        if len(bases) >= nbase:
            break
    tasks = []
    for t in bases:
        faults = [(kind, site) for kind in distwork.PART_FAULTS for site in range(1 if kind == "none" else nsites)]
        for half in (faults[0::2], faults[1::2]):
            orders = []
            for k_i, (kind, site) in enumerate(half):
                if ctx.thorough or kind == "none":
                    orders.append(list(distwork.ORDER_MODES))
                else:
                    orders.append([distwork.ORDER_MODES[(k_i + site) % 2]])
            tasks.append({"seed": t["seed"], "index": t["index"], "profile": t["profile"],
                          "faults": [list(f) for f in half], "orders": orders,
                          **({"spec": t["spec"]} if "spec" in t else {})})
    try:
        results = distwork.run_pool(distwork.c10_partfault_multi_unit, tasks, deadline_s=900 if ctx.thorough else 300)
    except distwork.WorkTimeout as e:
        raise common.LeanError(f"C10 partition-fault pool timed out: {e}")
    for t, r in zip(tasks, results):
        if r.get("timeout"):
            raise common.LeanError(f"C10: partition faults on {t['seed']}/{t['index']}/{t['profile']} timed out inside fakempi")
    live = [(t, r, e) for t, r in zip(tasks, results) for e in r.get("entries", [])]
    answers = common.driver_query_parallel([f"(dist verifymodel {e['P']} {e['pins']})" for _, _, e in live])
    kinds = collections.Counter()
    n_dis = 0
    n_runs = 0
    n_perm = 0

    def judge(a, ranks, kind):
        """signature + text when the real outcome is not what the model of verify allows"""
        root = ranks[0]
        raised = [x for x in ranks if x["status"] == "raised"]
        if a == "ok accepts":
            if raised:
                return (f"valid-partition-rejected:verify:{raised[0]['exc']}",
                        f"verify_distributed_partition rejects a partition its model accepts: "
                        f"{raised[0]['exc']} {raised[0]['text']}")
            return None
        classes = a[len("ok raises "):].split()
        if not raised:
            return (f"partition-fault-undiagnosed:{kind}",
                    f"verify_distributed_partition accepts a faulty partition; its model demands one of {classes}")
        if root["status"] != "raised" or root["exc"] not in classes:
            x = raised[0]
            return (f"partition-fault-misdiagnosed:{kind}:{x['exc']}",
                    f"raised {x['exc']} (root: {root['status']}/{root['exc']}), the model of verify allows {classes}")
        return None

    for (t, r, e), a in zip(live, answers):
        kind = e["fault"][0]
        kinds[kind] += 1
        prog = {"seed": t["seed"], "index": t["index"], "profile": t["profile"], "partition_fault": e["fault"]}
        if not (a == "ok accepts" or a.startswith("ok raises ")):
            ctx.broken.append(f"driver:verifymodel:{a[:60]}")
            continue
        given = judge(a, e["runs"]["given"], kind)
        for mode, ranks in e["runs"].items():
            n_runs += 1
            n_perm += mode != "given"
            j = given if mode == "given" else judge(a, ranks, kind)
            if j is None or (mode != "given" and given is not None and j[0] == given[0]):
                continue
            n_dis += 1
            sig, text = j
            if mode != "given":
                sig = "order-dependence:" + sig
                text = (f"with the entries of every mapping / set of the partition in another order ({mode}; "
                        f"in the order given the outcome is as the model says): " + text)
            ctx.violation(sig, f"{prog}; {e.get('description')}: {text}",
                          {"program": prog, "spec": r["spec"], "partition_fault": e["fault"], "order": mode,
                           "description": e.get("description"), "model": a, "ranks": ranks})
    ctx.note_batch("partition-level-faults", n_runs, n_dis, exhaustive=False,
                   nontrivial=sum(v for k, v in kinds.items() if k != "none"),
                   base_partitions=len(bases), faulted_partitions=len(live), runs_in_permuted_order=n_perm,
                   fault_kinds=dict(sorted(kinds.items())),
                   how="faults injected into the real partition objects of valid programs (duplicate send: same "
                       "array / another array of equal shape+dtype / other dtype / other part; orphan sends; dropped "
                       "receive / send; retagged send; needed_pids cycle; received name as output; removed output "
                       "that is read later; cycles of length 1..k through each edge class: a part needing itself / "
                       "a later part, a part reading an output of a later part / of itself (no cycle), a rank sending to itself with send "
                       "and receive in one part / later->earlier / earlier->later part, a message answered by its "
                       "receiver's part), then the real verify_distributed_partition on all ranks, on the partition "
                       "as built and on copies with the entries of every mapping / set (parts, name_to_output, "
                       "name_to_recv_node, name_to_send_nodes, output_names, needed_pids, input names) reversed / "
                       "shuffled; expected classes = Lean model `verifyViolated`, whatever the order; the unfaulted "
                       "partition must be accepted")


def run(ctx: common.Ctx):
    ctx.assumptions += [
        "a rank left waiting in a collective for a rank that raised is recorded as 'blocked' (real MPI would "
        "hang there); this counts as 'no partition returned'",
        "faults are injected into the generated program description, not into pytato objects",
        "an undelivered message at the end of a run counts as a hang (rendezvous sends never complete)",
    ]
    ctx.lean_obligations("PtProofs.C10", THEOREMS)
    common.setup_repo_import()
    scheduler_batch(ctx)
    nprog = 2000 if ctx.thorough else 140
    npairs = 15000 if ctx.thorough else 200
    rng = random.Random(f"c10:{ctx.seed}")
    # phase 1: the unfaulted programs (a valid program must be accepted)
    base_tasks = []
    for i in range(nprog):
        prof = "small" if i % 2 == 0 else "default"
        base_tasks.append({"seed": ctx.seed, "index": i, "profile": prof, "faults": []})
    # hand-built family: multi-round exchanges whose last message combines an early and a late
    # receive ("diamond with a long and a short path"), all operand / output orders
    n_family = 0
    for spec in G.reuse_family():
        base_tasks.append({"seed": 0, "index": spec["index"], "profile": "reuse", "faults": [],
                           "spec": spec, "nofault": True})
        n_family += 1
    # hand-built family: ranks with an EMPTY outputs dict (idle / spare ranks) at every position
    # next to communicating ranks; these are bases for faults too (a send aimed at the idle rank ...)
    n_idle = 0
    for spec in G.idle_family():
        base_tasks.append({"seed": 0, "index": spec["index"], "profile": "idle", "faults": [], "spec": spec})
        n_idle += 1
    try:
        base_results = distwork.run_pool(distwork.c10_unit, base_tasks, deadline_s=600)
    except distwork.WorkTimeout as e:
        raise common.LeanError(f"C10 work pool timed out: {e}")
    accepted = [t for t, r in zip(base_tasks, base_results)
                if not t.get("nofault") and not r.get("timeout") and all(x["status"] == "ok" for x in r["ranks"])]
    partition_fault_batch(ctx, accepted)
    ctx.coverage["base_programs"] = {"generated": nprog, "accepted_and_faulted": len(accepted),
                                     "reuse_family_programs": n_family, "idle_rank_family_programs": n_idle}
    # phase 2: every single fault at every communication operation of the accepted programs
    tasks = []
    for base in accepted:
        spec = distwork.get_spec(base)
        sites = G.fault_sites(spec)
        for kind, site in sites:
            tasks.append(dict(base, faults=[[kind, site, 0]]))
            if kind in ("dup_send", "redirect_send", "redirect_recv", "cycle") and spec["nranks"] > 2:
                tasks.append(dict(base, faults=[[kind, site, 1]]))
            if kind == "dup_send":
                tasks.append(dict(base, faults=[[kind, site, 2]]))    # duplicate built from the original holder
        # targeted pairs, one per message: both ends broken so that no rank sees an orphan locally
        # (only verify_distributed_partition on the root can notice)
        sends, recvs = G.comm_ops(spec)
        for k, sd in enumerate(sends):
            for j, rv in enumerate(recvs):
                if (sd["rank"], sd["dst"], sd["tag"]) == (rv["src"], rv["rank"], rv["tag"]):
                    tasks.append(dict(base, faults=[["recv_from_nowhere", j, 0], ["drop_send", k, 0]]))
                    tasks.append(dict(base, faults=[["send_to_nowhere", k, 0], ["drop_recv", j, 0]]))
    # seeded pairs
    for _ in range(npairs if accepted else 0):
        base = rng.choice(accepted)
        spec = distwork.get_spec(base)
        sites = G.fault_sites(spec)
        if len(sites) < 2:
            continue
        (k1, s1), (k2, s2) = rng.sample(sites, 2)
        tasks.append(dict(base, faults=[[k1, s1, rng.randrange(2)], [k2, s2, rng.randrange(2)]]))
    try:
        results = distwork.run_pool(distwork.c10_unit, tasks, deadline_s=2400 if ctx.thorough else 600)
    except distwork.WorkTimeout as e:
        raise common.LeanError(f"C10 work pool timed out: {e}")
    tasks = base_tasks + tasks
    results = base_results + results
    live = [(t, r) for t, r in zip(tasks, results) if not r.get("inapplicable")]
    for t, r in live:
        if r.get("timeout"):
            raise common.LeanError(f"C10: {t} timed out inside fakempi")
    answers = common.driver_query_parallel([f"(dist diagnose {r['nranks']} {r['graph']})" for _, r in live])
    kinds = collections.Counter()
    verdicts = collections.Counter()
    n_single = n_single_dis = n_pair = n_pair_dis = n_valid = n_valid_dis = 0
    n_through = n_through_bad = n_valid_comm = 0
    for (t, r), a in zip(live, answers):
        faults = r["faults"]
        label = fault_label(faults)
        kinds[label if len(faults) < 2 else "pair"] += 1
        d = parse_diag(a)
        prog = {"seed": t["seed"], "index": t["index"], "profile": t["profile"], "faults": faults}
        replay = {"program": prog, "spec": r["spec"], "model": a}
        if d is None:
            ctx.broken.append(f"driver:diagnose-unparsable:{a[:80]}")
            continue
        verdicts[d["verdict"]] += 1
        ranks = r["ranks"]
        raised = [(i, x) for i, x in enumerate(ranks) if x["status"] == "raised"]
        all_ok = all(x["status"] == "ok" for x in ranks)
        disagree = None
        if d["verdict"] == "ok":
            # the model calls the program valid: it must be accepted and must run
            n_valid += 1
            n_valid_comm += r["stats"]["ncomm"] > 0
            if not all_ok:
                n_valid_dis += 1
                i0, x0 = raised[0] if raised else (0, {"stage": "?", "exc": "?", "text": ""})
                sig = f"valid-rejected:{x0['stage']}:{x0['exc']}" + known_suffix(r["patterns"], x0["exc"], x0["text"])
                ctx.violation(sig, f"a valid program is rejected ({prog}): rank {i0} raises {x0['exc']} in "
                              f"{x0['stage']}: {x0['text']}", dict(replay, ranks=ranks))
                continue
        else:
            if len(faults) == 1:
                n_single += 1
            else:
                n_pair += 1
            # per-rank comparison with the model of the control flow
            find_model = d["find"]
            everyone_returns = all(k == "returns" for k, _ in find_model.values())
            for i, x in enumerate(ranks):
                kind, classes = find_model.get(i, ("?", []))
                if kind == "raises":
                    if not (x["status"] == "raised" and x["stage"] == "find" and x["exc"] in classes):
                        disagree = f"rank {i}: model raises one of {classes} in find, real {x['status']}/{x['stage']}/{x['exc']}"
                elif kind == "blocked":
                    if not (x["status"] == "blocked" and x["stage"] == "find"):
                        disagree = f"rank {i}: model blocked in find, real {x['status']}/{x['stage']}/{x['exc']}"
                elif kind == "returns":
                    if x["stage"] == "find" or (x["status"] == "raised" and x["stage"] == "build"):
                        disagree = f"rank {i}: model returns from find, real {x['status']}/{x['stage']}/{x['exc']}"
                if disagree:
                    break
            if not disagree and everyone_returns:
                x0 = ranks[0]
                if d["verify"]:
                    if not (x0["status"] == "raised" and x0["stage"] == "verify" and x0["exc"] in d["verify"]):
                        disagree = f"root: model raises one of {d['verify']} in verify, real {x0['status']}/{x0['stage']}/{x0['exc']}"
                elif not all_ok:
                    disagree = f"model: nothing raised, real {[(x['status'], x['stage'], x['exc']) for x in ranks]}"
            # every class that was raised must name a clause that is really violated
            for i, x in raised:
                if x["exc"] in DIAG_CLASSES and x["exc"] not in d["violated"]:
                    ctx.violation(f"misdiagnosed:{x['exc']}:{label if len(faults) < 2 else 'pair'}",
                                  f"rank {i} raises {x['exc']} but that clause is not violated "
                                  f"(violated: {d['violated']}) for {prog}", dict(replay, ranks=ranks))
            if disagree:
                if len(faults) == 1:
                    n_single_dis += 1
                else:
                    n_pair_dis += 1
        # whatever got through is executed
        if all_ok:
            n_through += 1
            ex = r.get("explore", {})
            from .c08 import exec_signature
            fails = [f for f in ex.get("failures", [])
                     if not exec_signature(f["what"], r["patterns"]).endswith(
                         ("output-name-equals-input-name", "output-name-shadows-input"))]
            if fails:
                n_through_bad += 1
                f = fails[0]
                if d["verdict"] == "ok":
                    sig = "valid-accepted-but-" + exec_signature(f["what"], r["patterns"])
                else:
                    sig = f"undiagnosed:{label if len(faults) < 2 else 'pair:' + d['verdict']}:{f['what'].split(':')[0]}"
                ctx.violation(sig, f"the real code returns a partition for {prog} (model verdict {d['verdict']}) "
                              f"and it fails under schedule {f['choices']}: {f['what']}",
                              dict(replay, choices=f["choices"], what=f["what"]))
                disagree = None if d["verdict"] != "ok" else disagree
            elif d["verdict"] != "ok" and (
                    r["comm_count"]["program_sends"] != r["comm_count"]["partition_sends"]
                    or r["comm_count"]["program_recvs"] != r["comm_count"]["partition_recvs"]):
                # the partition silently drops a send / receive of the program: one of the
                # program's messages is never delivered although every run "succeeds"
                n_through_bad += 1
                sig = f"undiagnosed:{label if len(faults) < 2 else 'pair:' + d['verdict']}:partition-drops-communication"
                if d["verdict"] == "DuplicateSendError" and r["patterns"].get("duplicate_send_nested_in_payload"):
                    sig = "undiagnosed:DuplicateSendError:duplicate-nested-in-payload"
                ctx.violation(sig,
                              f"the real code returns a partition for the invalid program {prog} (model verdict "
                              f"{d['verdict']}) in which communication operations are missing: {r['comm_count']}",
                              dict(replay, comm_count=r["comm_count"]))
                disagree = None
            elif d["verdict"] != "ok":
                # model says invalid, real code lets it through and no schedule fails
                ctx.broken.append(f"correspondence:model-rejects-real-accepts-and-runs:{label}:{d['verdict']}")
                disagree = None
        if disagree:
            # model and real code differ in who raises what, yet nothing got through
            if d["verdict"] == "DuplicateSendError" and r["patterns"].get("duplicate_send_nested_in_payload") \
                    and not any(x["exc"] == "DuplicateSendError" for _, x in raised):
                # the duplicate is overlooked (one duplicate sits in the other's payload); some other
                # diagnostic, or none, is produced instead
                ctx.violation("undiagnosed:DuplicateSendError:duplicate-nested-in-payload",
                              f"{prog}: two sends with one (source, destination, tag) are not diagnosed as such: "
                              f"{[(x['stage'], x['status'], x['exc']) for x in ranks]}", dict(replay, ranks=ranks))
            elif not all_ok and not raised:
                ctx.broken.append(f"correspondence:nobody-raised-nobody-returned:{label}")
            elif not all_ok and any(x["exc"] not in DIAG_CLASSES for _, x in raised):
                i0, x0 = [(i, x) for i, x in raised if x["exc"] not in DIAG_CLASSES][0]
                suf = known_suffix(r["patterns"], x0["exc"], x0["text"])
                sig = f"not-a-diagnostic:{x0['stage']}:{x0['exc']}" + \
                    (suf if suf else f":{label if len(faults) < 2 else 'pair'}")
                ctx.violation(sig, f"{prog}: rank {i0} fails with {x0['exc']} ({x0['text']}) instead of a "
                              f"diagnostic; model: {d['verdict']}", dict(replay, ranks=ranks))
            else:
                ctx.broken.append(f"correspondence:per-rank-outcome:{label if len(faults) < 2 else 'pair'}:{disagree[:90]}")
        if len(ctx.samples) < 10 and faults and len(ctx.samples) < 10 and (len(kinds) > len(ctx.samples)):
            ctx.sample({"program": prog, "model": a, "real": [(x["stage"], x["status"], x["exc"]) for x in ranks]})
    ctx.note_batch("valid-programs-accepted", n_valid, n_valid_dis, nontrivial=n_valid_comm,
                   how="programs the model calls Valid (unfaulted, or faults that cancel): accepted by find+verify on all ranks")
    ctx.note_batch("single-faults", n_single, n_single_dis, exhaustive=True,
                   how="every fault kind at every communication operation of every program of the set "
                       "(exhaustive over sites; programs are sampled): per-rank outcome == model")
    ctx.note_batch("fault-pairs", n_pair, n_pair_dis, how="seeded pairs of faults")
    ctx.coverage["let_through_and_executed"] = {
        "partitions_returned_by_all_ranks": n_through, "failing_under_some_schedule_or_dropping_communication": n_through_bad,
        "how": "every partition the real code returns (valid or not) is run under the schedule explorer"}
    ctx.coverage["programs"] = len(live)
    ctx.coverage["rule"] = ("a case = one (program, fault list); single faults are enumerated over every fault kind "
                            "and every communication operation of every accepted base program, pairs are the "
                            "targeted both-ends pairs of every message plus seeded draws; every faulted case is "
                            "non-trivial (it has at least one communication operation)")
    ctx.coverage["fault_kinds"] = dict(sorted(kinds.items()))
    ctx.coverage["model_verdicts"] = dict(sorted(verdicts.items()))
    ctx.coverage["exhaustive"] = False
    ctx.broken = sorted(set(ctx.broken))[:30]


def replay(ctx, path):
    r = json.loads(open(path).read())
    print(json.dumps({k: r.get(k) for k in ("signature", "what", "program", "choices", "model")}, indent=1))
    if "graph" in r:
        common.setup_repo_import()
        from orderedsets import FrozenOrderedSet
        from pytato.distributed.partition import _calculate_dependency_levels
        g = [(k, list(d)) for k, d in r["graph"]]
        want = _longest_path_levels({k: d for k, d in g})
        try:
            got = dict(_calculate_dependency_levels({k: FrozenOrderedSet(d) for k, d in g})[0])
        except Exception as e:      # noqa: BLE001
            got = f"{type(e).__name__}"
        print("longest-path levels (None = cyclic):", want, "\nreal:", got)
        bad = (got != want) and not (want is None and got == "CycleError")
        print("REPRODUCED" if bad else "not reproduced on the current tree")
        return 1 if bad else 0
    if "spec" not in r:
        run(ctx)
        return ctx.finish()
    try:
        out = distwork.run_pool(distwork.c10_unit, [{"spec": r["spec"], "index": -1, "faults": []}],
                                nproc=1, deadline_s=120)[0]
    except distwork.WorkTimeout:
        return 2
    out.pop("spec", None)
    print(json.dumps(out, indent=1, default=str))
    a = common.driver_query([f"(dist diagnose {out['nranks']} {out['graph']})"])[0]
    print("model:", a)
    d = parse_diag(a)
    all_ok = all(x["status"] == "ok" for x in out["ranks"])
    bad = (d["verdict"] == "ok" and not all_ok) or (all_ok and out.get("explore", {}).get("failures")) \
        or (d["verdict"] != "ok" and all_ok)
    print("REPRODUCED" if bad else "not reproduced on the current tree (or a class mismatch only)")
    return 1 if bad else 0

THEOREMS = ["Pt.copy_identity", "Pt.map_and_copy_id", "Pt.input_heap_prefix", "Pt.transform_preserves_denote",
            "Pt.tag_transform_same_up_to_tags", "Pt.dedup_unfold", "Pt.dedup_dupFree", "Pt.dedup_idem",
            "Pt.dedup_of_dupFree"]

"""C13 — identity preservation does not depend on the INSERTION ORDER of mapping-valued fields.

Property clauses: "a transformation returns its argument itself when nothing changes" and "never
creates more distinct nodes than there were".  Several node kinds keep their children in mappings
(Call.bindings, IndexLambda.bindings, DictOfNamedArrays entries, FunctionDefinition.returns, reduction
descriptors); mappers rebuild such a mapping in an order of their own (often sorted) and
`replace_if_different` decides by comparing old and new.  Whether two mappings hold the same objects
must not depend on the order the keys were inserted in.

  family   every CopyMapper-derived class (reflection, c13_flags)
           x  graphs whose mapping-valued fields are in NON-sorted insertion order: keyword call
              `f(x=.., w=..)`, a call with 11 positional arguments (`_in10` sorts before `_in2`),
              upper-case keyword, hand-built IndexLambda with unsorted bindings, dictionary entries
              and function returns given in reverse order
  oracle   the twin built with sorted insertion order tells whether the mapper changes this graph:
           if M(twin) is twin then M(g) is g, and every object of M(g) is an object of g.
"""
from __future__ import annotations

from .. import reflect
from . import c13_flags
from .c13 import TRAVERSAL_LIMIT_S, time_limit

# IndexLambda with hand-built unsorted bindings: CopyMapper.map_index_lambda iterates the bindings sorted and
# `_entries_are_identical` zips mappings positionally -> rebuilt although nothing changed.  Found by this batch on the
# clean tree, handed over with proposed_fixes/c13-entries-are-identical-by-key.diff
HANDED_OVER: set = set()   # (fixed in /repo: f422938)


def graphs(unsorted: bool):
    import numpy as np
    import pymbolic.primitives as p
    import pytato as pt
    from constantdict import constantdict
    from pytato.array import Axis, IndexLambda
    from pytato.function import trace_call
    x = pt.make_placeholder("x", (4,), np.float64)
    y = pt.make_placeholder("y", (4,), np.float64)

    def order(keys):
        keys = sorted(keys)
        return list(reversed(keys)) if unsorted else keys
    out = {}

    def f(w, x):
        return {"o": x + w}
    kw = {"x": x + 1, "w": y}
    out["keyword-call"] = trace_call(f, **{k: kw[k] for k in order(kw)})["o"]

    def f2(x, W):
        return {"o": x * W}
    kw2 = {"x": x, "W": y + 1}
    out["upper-case-keyword"] = trace_call(f2, **{k: kw2[k] for k in order(kw2)})["o"]

    def many(*a):
        return {"o": sum(a[1:], a[0])}
    args = [x + i for i in range(11)]
    c = trace_call(many, *args)
    if not unsorted:
        # the same call with the bindings inserted in sorted order
        call = c["o"]._container
        import dataclasses
        call = dataclasses.replace(call, bindings=constantdict({k: call.bindings[k] for k in sorted(call.bindings)}))
        out["eleven-positional-arguments"] = call["o"]
    else:
        out["eleven-positional-arguments"] = c["o"]
    b = {"_in0": x, "_in1": y}
    out["index-lambda-bindings"] = IndexLambda(
        expr=p.Variable("_in0")[p.Variable("_0")] + p.Variable("_in1")[p.Variable("_0")], shape=(4,),
        dtype=np.dtype(np.float64), bindings=constantdict({k: b[k] for k in order(b)}),
        axes=(Axis(frozenset()),), var_to_reduction_descr=constantdict(), tags=frozenset()) * 2
    ent = {"a": x + 1, "z": y * 2, "M": x * y}
    out["dictionary-entries"] = pt.make_dict_of_named_arrays({k: ent[k] for k in order(ent)})

    def g(u):
        r = {"a": u + 1, "z": u * 2}
        return {k: r[k] for k in order(r)}
    out["function-returns"] = trace_call(g, x)["z"]
    return {k: (v if isinstance(v, pt.DictOfNamedArrays) else pt.make_dict_of_named_arrays({"o": v}))
            for k, v in out.items()}


def check_mapping_order(ctx):
    import pytato.transform as ptf
    n = bad = 0
    reported, handed, not_judged = set(), {}, set()
    twins, gs = graphs(False), graphs(True)
    for cls in c13_flags.mapper_classes():
        confs = c13_flags.configurations(cls)
        if not confs:
            continue
        _, _, make = confs[0]
        args = c13_flags.call_args(cls)
        if issubclass(cls, ptf.TransformMapperWithExtraArgs) and c13_flags.outcome(
                lambda: make(cls), c13_flags.graph("body", "il", False)[0], args) == "error:NotImplementedError":
            cls = c13_flags.entering(cls)
        for gname, g in gs.items():
            twin = twins[gname]
            try:
                with time_limit(TRAVERSAL_LIMIT_S):
                    rt = make(cls)(twin, *args)
            except Exception as e:   # noqa: BLE001
                not_judged.add(f"{cls.__name__}:{gname}:{type(e).__name__}")
                continue
            if rt is not twin:
                not_judged.add(f"{cls.__name__}:{gname}:changes-the-graph")
                continue
            n += 1
            try:
                with time_limit(TRAVERSAL_LIMIT_S):
                    rg = make(cls)(g, *args)
            except Exception as e:   # noqa: BLE001
                rg = e
            if rg is g:
                continue
            if isinstance(rg, Exception):
                what = f"raises {type(rg).__name__}: {rg}"
            else:
                old = {id(o) for o in reflect.walk(g, into_functions=True)}
                new = [type(o).__name__ for o in reflect.walk(rg, into_functions=True) if id(o) not in old]
                what = f"rebuilds {sorted(set(new))} although nothing changes (result == argument: {rg == g})"
            key = f"identity-depends-on-mapping-order:{gname}"
            if key in HANDED_OVER:
                handed[key] = cls.__name__
                continue
            bad += 1
            sig = f"{key}:{cls.__name__}"
            if sig in reported:
                continue
            reported.add(sig)
            ctx.violation(sig, f"{cls.__name__} returns the graph `{gname}` itself when its mappings were filled in sorted "
                               f"order; filled in another order it {what}",
                          {"check": "mapping-order", "mapper": cls.__name__,
                           "graph": {"family": "c13_mapping_order.graphs", "name": gname}})
    ctx.note_batch("identity-independent-of-mapping-insertion-order", n, bad, exhaustive=True,
                   handed_over=handed, not_judged=sorted(not_judged)[:30])

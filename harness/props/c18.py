"""C18 — persistent hash keys identify a computation faithfully across processes.

Tie 1 (translator): the same probing as C04 (`harness/extract/eqtable.py`) records
for every node kind x every field whether the persistent key
(`PytatoKeyBuilder()(e)`) changes, incl. wrapped data differing in one element,
in dtype with identical bytes, in shape with identical bytes, and whether it
changes when nothing semantic changes (mapping insertion order, same data in
another object).  `lake build PtProofs.C18` re-checks `key_fields_complete` /
`key_ignores_only_nonsemantic` over today's table next to the theorems about
the token encoding (`enc_congr`, `enc_injective`, `enc_prefix_free`, …).

Tie 2 (correspondence): random DAG pairs (rebuilt, one-component mutants,
pickled): real key equality vs equality of `enc` under the extracted key table
and vs `SemEq` under the C18 semantic table (ptdriver); keys of the same
recipes computed in >= 3 fresh interpreters with other PYTHONHASHSEEDs, before
and after pickling, must all coincide.  Creation-traceback tagging stays at its
default (off)."""
from __future__ import annotations

import json
import random
from collections import Counter

from .. import common, eqcases, eqterm
from ..extract import eqtable
from . import eqfam

THEOREMS = [
    "Pt.EqM.encFull_prefix_free", "Pt.EqM.enc_congr", "Pt.EqM.enc_injective",
    "Pt.EqM.enc_prefix_free", "Pt.EqM.key_congr", "Pt.EqM.key_faithful",
    "Pt.EqM.enc_eq_iff_eqStruct",
    "Pt.EqM.key_fields_complete", "Pt.EqM.key_ignores_only_nonsemantic",
    "Pt.EqM.key_tables_cover_kinds", "Pt.EqM.key_full_statement_status",
]

ASSUMPTIONS = [
    "collision resistance of the hash behind pytools' KeyBuilder is assumed (`key = H ∘ enc`, H abstract; "
    "`key_faithful` states injectivity of H as a hypothesis)",
    "pytools' KeyBuilder handling of built-in types (str, int, tuple, frozenset, dtype, enum) and loopy's key of "
    "a translation unit are executed, not modelled",
    "creation-traceback tagging is at its default (off): `non_equality_tags` is empty in every generated graph; "
    "probe rows that vary it are exempt (`PtGen.tracebackRows`)",
    "scalar field values are compared through a canonical string (harness/eqterm.canon)",
]


def _first_probe(t, kind, row, pred):
    for p in t.probes:
        if p.kind == kind and p.row == row and pred(p):
            return p
    return next((p for p in t.probes if p.kind == kind and p.row == row), None)


def table_violations(ctx, t) -> int:
    fr = eqtable.failing_rows(t)
    kn = t.known
    located = set()
    if set(fr["key_fields_complete"]) - set(kn["knownKeyRows"]):
        located.add("key_fields_complete")
    if set(fr["key_ignores_only_nonsemantic"]) - set(kn["knownKeyUnstableRows"]):
        located.add("key_ignores_only_nonsemantic")
    ctx.coverage["located_obligations"] = sorted(located)
    n = 0
    for (k, f) in fr["key_fields_complete"]:
        p = _first_probe(t, k, f, lambda p: p.key_eq is True)
        ctx.violation(f"key-ignores:{k}.{f}",
                      f"two {k} nodes differing only in `{f}` get the same persistent key; probe: {p.desc if p else '?'}",
                      p.replay() if p else {"row": [k, f]})
        n += 1
    for (k, f) in fr["key_ignores_only_nonsemantic"]:
        p = _first_probe(t, k, f, lambda p: p.key_eq is not True)
        ctx.violation(f"key-unstable:{k}.{f}",
                      f"two {k} nodes without any semantic difference (`{f}`) get different persistent keys; "
                      f"probe: {p.desc if p else '?'}", p.replay() if p else {"row": [k, f]})
        n += 1
    for p in t.probes:
        if isinstance(p.key_eq, str) and not p.invalid:
            ctx.violation(f"key-raises:{p.kind}.{p.row}", f"the key builder raised ({p.key_eq}); {p.desc}", p.replay())
            n += 1
    # compound probes (two fields at once) must change the key as well
    for p in t.probes:
        if p.compound and p.key_eq is True and not all(eqtable._is_traceback(r) for r in p.row.split("+")):
            ctx.violation(f"key-ignores:{p.kind}.{p.row}", f"same key although {p.row} differ; {p.desc}", p.replay())
            n += 1
    return n


def judge(ctx, c: eqcases.Case) -> bool:
    r, m = c.real, c.model
    if not m:
        return True
    K = f"{c.row[0]}.{c.row[1]}" if c.row else None
    if isinstance(r.get("key_eq"), str):
        ctx.violation(f"key-raises:{K or c.batch}", f"the key builder raised on a {c.batch} pair: {r['key_eq']}",
                      c.replay())
        return True
    model_key, sem = m["key"]["enc"], m["semkey"]["semeq"]
    traceback_row = c.row is not None and (c.row[1] == "non_equality_tags"
                                           or c.row[1].endswith(".non_equality_tags"))
    bad = False
    if r["key_eq"] != sem and not traceback_row:
        bad = True
        if r["key_eq"]:
            if c.row is not None:
                sig = f"key-ignores:{K}"
            else:
                sig = f"key-ignores:{c.batch}:{eqterm.kind_of(c.a)}"
            what = (f"two graphs that differ ({'`' + c.row[1] + '` of one ' + c.row[0] + ' node' if c.row else c.batch}) "
                    f"get the same persistent key")
        else:
            from pytato.analysis import PytatoKeyBuilder
            kb = PytatoKeyBuilder()
            kk = eqcases.culprit(c.a, c.b, lambda x, y: kb(x) != kb(y))
            sig = f"key-unstable:{c.batch}:{kk}" if c.row is None else f"key-unstable:{K}"
            what = (f"a graph and its {c.batch} copy, equal in every semantic component, get different "
                    f"persistent keys (first deviating node kind: {kk})")
        ctx.violation(sig, what, c.replay())
    elif r["key_eq"] != model_key:
        bad = True
        ctx.broken.append(f"correspondence:keytable-vs-real:{c.batch}:{K}")
    return bad


def wrapped_data_cases(keyb) -> list[eqcases.Case]:
    """wrapped data through the public API, at the root and below other nodes:
    one element, dtype with identical bytes, shape with identical bytes, same
    contents in another object / another memory layout"""
    import numpy as np
    import pytato as pt
    out = []
    z = np.zeros((4, 3), dtype=np.int64)
    a = np.arange(12, dtype=np.float64).reshape(4, 3)
    a1 = a.copy()
    a1[3, 2] = -1.0
    variants = [
        ("data.contents", a, a1),
        ("data.dtype", z, np.zeros((4, 3), dtype=np.float64)),
        ("data.dtype", z, np.zeros((4, 3), dtype=np.uint64)),
        ("data.shape+shape", z, np.zeros((3, 4), dtype=np.int64)),
        ("data.shape+shape", z.reshape(12), z.reshape(2, 6)),
        ("#id", a, a.copy()),
        ("#id", a, np.asfortranarray(a)),
    ]
    wraps = [("root", lambda d: d),
             ("below-index-lambda", lambda d: d * 2 + 1),
             ("below-dict", lambda d: pt.make_dict_of_named_arrays({"o": pt.sum(d), "d": d}))]
    for vi, (row, x, y) in enumerate(variants):
        for wname, w in wraps:
            ca, cb = w(pt.make_data_wrapper(x)), w(pt.make_data_wrapper(y))
            c = eqcases.Case("wrapped-data", vi, ca, cb, row=("DataWrapper", row),
                             recipe={"kind": "wrapped-data", "variant": vi, "wrap": wname, "row": row,
                                     "a": f"{x.dtype}{x.shape}", "b": f"{y.dtype}{y.shape}"})
            c.real = eqcases.observe(ca, cb, keyb)
            out.append(c)
    return out


def batch_data_sensitivity(ctx):
    """the key of wrapped data depends on EVERY element: arrays of sizes around plausible block boundaries
    (2^k, 2^k +- 1, non-multiples), one element changed at the first / a middle / block-boundary / last position,
    in C-contiguous, Fortran-ordered, strided and reversed layouts; equal contents in another layout give the
    same key"""
    import numpy as np
    import pytato as pt
    from pytato.analysis import PytatoKeyBuilder
    keyb = PytatoKeyBuilder()
    sizes = [1, 2, 7, 64, 255, 256, 257, 4095, 4096, 4097, 65535, 65536, 65537, 70000, 131072, 131073, 300 * 300]
    if ctx.thorough:
        sizes += [(1 << 20) - 1, 1 << 20, (1 << 20) + 1, 3 * (1 << 19) + 5]
    rng = np.random.default_rng(ctx.seed + 181)
    cases = dis = 0
    for n in sizes:
        for dt in (np.float64, np.int8):
            base = rng.integers(-100, 100, size=n).astype(dt)
            layouts = {"c": lambda a: a, "2d": lambda a: a.reshape(-1, 1) if a.size % 3 else a.reshape(3, -1),
                       "strided": lambda a: np.repeat(a, 2)[::2], "reversed-view": lambda a: a[::-1][::-1]}
            k0 = keyb(pt.make_data_wrapper(base))
            for lname, lay in layouts.items():
                same = lay(base.copy())
                if same.shape == base.shape:
                    cases += 1
                    if keyb(pt.make_data_wrapper(same)) != k0:
                        dis += 1
                        ctx.violation("key-unstable:data-layout",
                                      f"equal wrapped contents ({np.dtype(dt)}, {n} entries) in layout {lname} get another key",
                                      {"size": n, "dtype": str(np.dtype(dt)), "layout": lname})
                positions = sorted({0, n // 2, n - 1, max(0, n - 2), min(n - 1, 65536), min(n - 1, 65535),
                                    min(n - 1, 4096), n - 1 - (n - 1) % 65536 if n > 65536 else 0,
                                    int(rng.integers(0, n))})
                for pos in positions:
                    cases += 1
                    other = base.copy()
                    other[pos] = other[pos] + 1
                    ko = keyb(pt.make_data_wrapper(lay(other)))
                    kb = keyb(pt.make_data_wrapper(lay(base.copy())))
                    if ko == kb:
                        dis += 1
                        ctx.violation("key-not-injective:wrapped-data-contents",
                                      f"two graphs wrapping {np.dtype(dt)} arrays of {n} entries that differ in entry {pos} "
                                      f"(layout {lname}) get the same persistent key",
                                      {"size": n, "dtype": str(np.dtype(dt)), "position": pos, "layout": lname})
    # differently strided VIEWS of one buffer that start at one address (anything caching a digest per buffer must
    # look at the strides), hashed in one process and in both orders; a view and an equal private copy agree
    base = (np.arange(64, dtype=np.float64) * 1.5 - 7)
    sq = base[:16].reshape(4, 4)
    b2 = base[:8].reshape(2, 4)
    pairs = {"matrix/transposed-view": (sq, sq.T), "a[::2]/a[:4]": (base[::2][:4], base[:4]),
             "b[:, :2]/b.reshape(4,2)[:2]": (b2[:, :2], b2.reshape(4, 2)[:2]),
             "a[::3][:5]/a[::2][:5]": (base[::3][:5], base[::2][:5]),
             "reversed/forward": (base[7::-1], base[7:15]) if False else (base[:8][::-1][::-1], base[:8]),
             "F-order-view/C": (np.asfortranarray(sq).T, sq)}
    for order in ("ab", "ba"):
        kb2 = PytatoKeyBuilder()
        for lbl, (a, b) in pairs.items():
            if order == "ba":
                a, b = b, a
            cases += 1
            ka, kb_ = kb2(pt.make_data_wrapper(a)), kb2(pt.make_data_wrapper(b))
            same_contents = a.shape == b.shape and np.array_equal(a, b)
            if (ka == kb_) != same_contents:
                dis += 1
                ctx.violation("key-not-injective:wrapped-data-views" if not same_contents else "key-unstable:data-layout",
                              f"views {lbl} ({order}) of one buffer: contents {'equal' if same_contents else 'differ'}, "
                              f"keys {'equal' if ka == kb_ else 'differ'}", {"pair": lbl, "order": order})
            for nm, v in (("first", a), ("second", b)):
                cases += 1
                if kb2(pt.make_data_wrapper(v)) != kb2(pt.make_data_wrapper(v.copy())):
                    dis += 1
                    ctx.violation("key-unstable:data-layout",
                                  f"view {lbl} ({nm}) and an equal private copy of it get different keys", {"pair": lbl})
    # the same BYTES read in the other byte order are other values (the dtype differs in its byte order only)
    for dtn in ("i2", "i4", "i8", "u2", "u4", "f4", "f8", "c8"):
        nat = (np.arange(1, 7) * 3).astype("=" + dtn)
        swp = nat.view(nat.dtype.newbyteorder("S"))
        assert nat.tobytes() == swp.tobytes() and not np.array_equal(nat, swp)
        for lbl, f in (("wrapper", lambda d: pt.make_data_wrapper(d)), ("stack", lambda d: pt.stack([pt.make_data_wrapper(d)] * 2)),
                       ("slice-in-dict", lambda d: pt.make_dict_of_named_arrays({"o": pt.make_data_wrapper(d)[1:]})),
                       ("reshape", lambda d: pt.make_data_wrapper(d).reshape(2, 3))):
            cases += 1
            if keyb(f(nat)) == keyb(f(swp)):
                dis += 1
                ctx.violation("key-not-injective:wrapped-data-byte-order",
                              f"{lbl} of wrapped {nat.dtype.str} data and of the same bytes read as {swp.dtype.str} "
                              f"(values {nat[:3].tolist()}… vs {swp[:3].tolist()}…) get one persistent key",
                              {"dtype": dtn, "form": lbl})
    # 0-d payloads: ndarray and NumPy scalar objects of every integer / inexact type with one value
    zero_d = [np.int8(3), np.int16(3), np.int32(3), np.int64(3), np.uint8(3), np.uint16(3), np.uint64(3), np.float32(3),
              np.float64(3), np.complex64(3), np.uint8(200), np.int64(200), np.uint16(7), np.int16(7)]
    for form, wrap in (("scalar-object", lambda v: v), ("0-d-ndarray", lambda v: np.array(v))):
        for lbl, f in (("wrapper", lambda d: pt.make_data_wrapper(d)), ("stack", lambda d: pt.stack([pt.make_data_wrapper(d)] * 2)),
                       ("dict", lambda d: pt.make_dict_of_named_arrays({"o": pt.make_data_wrapper(d).reshape(1)}))):
            keys = {}
            for v in zero_d:
                cases += 1
                kk = keyb(f(wrap(v)))
                other = keys.get(kk)
                if other is not None and (other.dtype != v.dtype or other != v):
                    dis += 1
                    ctx.violation("key-not-injective:wrapped-0-d-data",
                                  f"{lbl} of 0-d wrapped data ({form}): {other!r} ({other.dtype}) and {v!r} ({v.dtype}) get one "
                                  "persistent key", {"form": form, "graph": lbl, "values": [repr(other), repr(v)]})
                keys[kk] = v
    ctx.note_batch("wrapped-data-sensitivity", cases, dis, exhaustive=False, sizes=sizes)


def batch_scalar_sensitivity(ctx):
    """the key depends on every scalar constant of the expression: graphs built the same way from two scalars (Python
    and NumPy, real / complex / integer / Boolean, several widths) whose RESULTS differ (dtype or any value, as
    computed by the reference evaluator) must get different keys"""
    import itertools
    import numpy as np
    import pymbolic.primitives as prim
    import pytato as pt
    from pytato.analysis import PytatoKeyBuilder
    from ..refeval import evaluate
    keyb = PytatoKeyBuilder()
    consts = [1, 2, 3, True, 1.0, 2.0, 2.5, -2.5, 1 + 2j, 1 + 3j, 1 - 2j, 2j, 3j, 1 + 0j, np.float32(2.5), np.float64(2.5),
              np.float32(3.5), np.complex64(1 + 2j), np.complex64(1 + 3j), np.complex128(1 + 2j), np.complex128(1 + 3j),
              np.complex128(1 - 3j), np.complex128(2 + 3j), np.int32(2), np.int64(2), np.int64(3), np.int8(3),
              np.float64(1e300), np.float64(1.0000000000000002), np.float32(1.0000001), np.bool_(True)]
    bases = {"c128": (pt.make_placeholder("z", (3,), np.complex128), np.array([1 + 1j, -2.5j, 3.25])),
             "f64": (pt.make_placeholder("z", (3,), np.float64), np.array([1.5, -2.0, 3.25])),
             "i32": (pt.make_placeholder("z", (3,), np.int32), np.array([1, -2, 3], dtype=np.int32))}

    def raw_il(z, c):
        return pt.IndexLambda(expr=prim.Sum((prim.Subscript(prim.Variable("_in0"), (prim.Variable("_0"),)), c)),
                              shape=(3,), dtype=np.result_type(z.dtype, np.asarray(c).dtype), bindings={"_in0": z},
                              axes=pt.array._get_default_axes(1), tags=frozenset(), var_to_reduction_descr={})
    routes = {"mul": lambda z, c: z * c, "radd": lambda z, c: c + z, "full": lambda z, c: pt.full((3,), c) + z,
              "where": lambda z, c: pt.where(pt.equal(z, z), c, z), "maximum": lambda z, c: pt.maximum(z, c),
              "raw-index-lambda": raw_il, "rpow": lambda z, c: c ** z}
    cases = dis = built = 0
    for (bn, (z, val)), (rn, route) in itertools.product(bases.items(), routes.items()):
        rows = []
        for c in consts:
            if rn == "maximum" and (bn == "c128" or isinstance(c, (complex, np.complexfloating))):
                continue
            try:
                g = route(z, c)
                with np.errstate(all="ignore"):
                    ref = np.asarray(evaluate(g, {"z": val}))
            except Exception:   # noqa: BLE001  (a route some scalar type does not admit)
                continue
            built += 1
            rows.append((c, g, keyb(g), ref))
        for (c1, g1, k1, r1), (c2, g2, k2, r2) in itertools.combinations(rows, 2):
            differ = g1.dtype != g2.dtype or r1.dtype != r2.dtype or not np.array_equal(r1, r2, equal_nan=True)
            if not differ:
                continue
            cases += 1
            if k1 == k2:
                dis += 1
                ctx.violation(f"key-not-injective:scalar-constant:{rn}",
                              f"{rn} on a {bn} array with the constants {c1!r} ({type(c1).__name__}) and {c2!r} "
                              f"({type(c2).__name__}) gives results {r1.tolist()} ({r1.dtype}) and {r2.tolist()} "
                              f"({r2.dtype}) but one persistent key",
                              {"route": rn, "base": bn, "constants": [repr(c1), repr(c2)]})
    ctx.note_batch("scalar-constant-sensitivity", cases, dis, exhaustive=False, graphs_built=built,
                   routes=sorted(routes), constants=[f"{type(c).__name__}:{c!r}" for c in consts])


def correspondence(ctx, t, seed, n_graphs, n_mut):
    from pytato.analysis import PytatoKeyBuilder
    keyb = PytatoKeyBuilder()
    rng = random.Random(seed * 7_654_321 + 18)
    pickles: dict[int, bytes] = {}
    cases: list[eqcases.Case] = []
    keys: dict[int, str] = {}
    node_keys: dict[int, list[str]] = {}
    for gi in range(n_graphs):
        first = True
        for c in eqcases.graph_cases(seed, gi, rng, n_mut, keep_pickle=pickles):
            if first:
                keys[gi] = keyb(c.a)                # key BEFORE pickling (graph_cases pickles after `reflexive`)
                node_keys[gi] = [keyb(n) for n in eqterm.all_nodes(c.a)]
                first = False
            c.real = eqcases.observe(c.a, c.b, keyb)
            cases.append(c)
    cases += wrapped_data_cases(keyb)
    eqcases.run_lean(ctx, cases, t)
    dis: Counter = Counter()
    tot: Counter = Counter()
    rows_seen: Counter = Counter()
    for c in cases:
        tot[c.batch] += 1
        if c.row:
            rows_seen[f"{c.row[0]}.{c.row[1]}"] += 1
        if judge(ctx, c):
            dis[c.batch] += 1
    for b in tot:
        ctx.note_batch(f"pairs:{b}", tot[b], dis[b], exhaustive=False)
    for c in cases[:400:41]:
        ctx.sample({"batch": c.batch, "graph": c.recipe.get("graph"), "row": c.row,
                    "key_equal": c.real.get("key_eq"),
                    "lean": {k: c.model[k]["enc"] for k in ("key", "semkey")} if c.model else None})
    sizes = [c.nodes for c in cases]
    ctx.coverage["pair_distribution"] = {
        "mutated_rows": dict(sorted(rows_seen.items())),
        "heap_nodes_max": max(sizes) if sizes else 0,
        "heap_nodes_avg": round(sum(sizes) / len(sizes), 1) if sizes else 0,
    }
    return pickles, keys, node_keys


def cross_process(ctx, seed, n, pickles, keys, node_keys, hash_seeds):
    outs = eqcases.run_children(ctx, seed, n, pickles, hash_seeds, tag="c18", families=eqfam.FAMILIES,
                                pickle_families=())
    eqfam.judge_children(ctx, outs, "key")
    ncase = ndis = 0
    for ch in outs:
        hs = ch["hash_seed"]
        for res in ch["results"]:
            gi = res["i"]
            ncase += 1
            want = keys[gi]
            got = {"rebuilt_in_child": res["key_r"], "parent_pickle_unpickled_in_child": res["key_p"],
                   "child_pickle_roundtrip": res["key_rt"]}
            wrong = sorted(k for k, v in got.items() if v != want)
            if wrong:
                ndis += 1
                kk = "?"
                if len(res["node_keys_r"]) == len(node_keys[gi]):
                    for a, b, knd in zip(res["node_keys_r"], node_keys[gi], res["node_kinds_r"]):
                        if a != b:
                            kk = knd
                            break
                ctx.violation(f"key-unstable:process:{kk}",
                              f"the persistent key of one graph differs between this process (PYTHONHASHSEED=0) and a "
                              f"fresh interpreter with PYTHONHASHSEED={hs} ({', '.join(wrong)}); first deviating "
                              f"node kind: {kk}",
                              {"case": {"graph": {"seed": seed, "index": gi}, "kind": "xproc", "hash_seed": hs},
                               "key_here": want, "keys_in_child": got})
    ctx.note_batch("keys-in-fresh-interpreters", ncase, ndis, exhaustive=False, hash_seeds=hash_seeds,
                   note="per graph: key of the graph rebuilt there, of the parent's pickle unpickled there, "
                        "and after a pickle round trip there, all compared with the key computed here before pickling")


def run(ctx: common.Ctx):
    ctx.assumptions += ASSUMPTIONS
    import pytato as pt
    from pytato.tags import CreatedAt  # noqa: F401
    # tracebacks must be off (the statement fixes the default)
    probe = pt.make_placeholder("tb_probe", (2,), "float64") + 1
    if probe.non_equality_tags:
        ctx.broken.append("harness:traceback-tagging-is-on")
    t = eqtable.extract()
    ctx.coverage["generated_tables"] = {"lean/PtGen/EqTable.lean": common.sha256_file(eqtable.OUT)}
    ctx.coverage["table"] = {
        "kinds": len(t.kinds), "rows": sum(len(v) for v in t.fields.values()),
        "semantic_rows": sum(len(v) for v in t.semantic_key.values()), "probe_pairs": len(t.probes),
        "unprobed_rows": [list(r) for r in t.unprobed],
        "compound_probes": sorted({f"{p.kind}.{p.row}" for p in t.probes if p.compound}),
        "wrapped_data_rows": {f"{p.spec}:{p.row}": {"key_equal": p.key_eq} for p in t.probes
                              if p.kind == "DataWrapper"},
    }
    for pr in t.problems:
        ctx.broken.append(f"translator:{pr}")
    missing = sorted(set(eqtable.concrete_node_classes()) - set(t.kinds))
    if missing:
        ctx.broken.append(f"translator:node-kinds-without-probe:{missing}")
    ok = ctx.lean_obligations("PtProofs.C18", THEOREMS, extra_targets=["PtGen.EqTable"])
    nviol = table_violations(ctx, t)
    ctx.note_batch("table-probes", len(t.probes), nviol, exhaustive=True,
                   note="every node kind x every (pseudo-)field x every alternative value; wrapped data: one element, "
                        "dtype with identical bytes, shape with identical bytes (symbolic shape), same data in another object")
    if not ok and any(b.startswith("lean-build:") for b in ctx.broken):
        rest = eqcases.unexplained_build_errors(ctx, "PtProofs/C18.lean",
                                                set(ctx.coverage["located_obligations"]))
        if not rest:
            ctx.broken = [b for b in ctx.broken if not b.startswith("lean-build:PtProofs.C18")]
        else:
            ctx.coverage["unexplained_build_errors"] = rest
    batch_data_sensitivity(ctx)
    batch_scalar_sensitivity(ctx)
    from .c04 import batch_spellings
    batch_spellings(ctx)       # equal nodes (arguments spelled differently) must get one key
    n_graphs, n_mut = (1500, 6) if ctx.thorough else (150, 3)
    pickles, keys, node_keys = correspondence(ctx, t, ctx.seed, n_graphs, n_mut)
    n_x = 400 if ctx.thorough else 60
    seeds = [1, 2, 3, 4, 5, 6, 7, 12345] if ctx.thorough else [1, 7, 4242]
    cross_process(ctx, ctx.seed, min(n_x, n_graphs), pickles, keys, node_keys, seeds)
    eqfam.einsum_renamings(ctx, "key")
    eqfam.constants(ctx, "key")
    eqfam.key_histories(ctx)
    ctx.broken = sorted(set(ctx.broken))[:40]


def replay(ctx, path):
    r = json.loads(open(path).read())
    print(json.dumps({k: r.get(k) for k in ("signature", "what")}, indent=1))
    from pytato.analysis import PytatoKeyBuilder
    if "probe" in r:
        pr = r["probe"]
        base, mut = eqtable.build_pair(eqtable.all_specs(), pr["spec"], pr["field"], pr["variant"])
        kb = PytatoKeyBuilder()
        ka, kb_ = kb(base), kb(mut)
        print("probe pair:", r.get("pair"))
        print("stored  :", json.dumps(r.get("observed")))
        print("observed: key(base) =", ka, " key(mutant) =", kb_, " equal:", ka == kb_)
        print(f"expected: keys {'equal' if r['signature'].startswith('key-unstable') else 'different'} "
              f"(the pair differs in `{pr['row']}` of a {pr['kind']})")
        return 0
    if "case" in r and r["case"].get("kind") == "xproc":
        return eqcases.replay_xproc(ctx, r)
    if "case" in r and r["case"].get("kind") == "wrapped-data":
        kb = PytatoKeyBuilder()
        for c in wrapped_data_cases(kb):
            if c.recipe["variant"] == r["case"]["variant"] and c.recipe["wrap"] == r["case"]["wrap"]:
                print("case    :", json.dumps(c.recipe))
                print("stored  :", json.dumps(r.get("observed_real")))
                print("observed:", json.dumps(c.real))
        return 0
    if "case" in r and r["case"].get("kind") not in (None, "xproc"):
        a, b = eqcases.rebuild_case(r["case"])
        ob = eqcases.observe(a, b, PytatoKeyBuilder())
        t = eqtable.extract(write=False)
        c = eqcases.Case(r.get("batch", "?"), 0, a, b)
        eqcases.run_lean(ctx, [c], t)
        print("case    :", json.dumps(r["case"]))
        print("stored  :", json.dumps(r.get("observed_real")))
        print("observed:", json.dumps(ob))
        print("lean    :", json.dumps({k: v for k, v in c.model.items()}))
        return 0
    print(json.dumps(r, indent=1)[:3000])
    print("re-running the C18 check on the current tree …")
    run(ctx)
    return ctx.finish()

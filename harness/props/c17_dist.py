"""C17 (distributed part) — partitioning and tag numbering are process-independent.

Programs of harness/gen/comm.py (symbolic tags: str, tuple, frozenset of str, bytes, a
user-defined class hashing its content) are partitioned and tag-numbered by the real
`find_distributed_partition` + `number_distributed_tags`

  (a) with every rank in its OWN interpreter process, each with a DIFFERENT PYTHONHASHSEED
      (two such groups with disjoint seed sets).  The ranks talk to a hub in the harness
      process over AF_UNIX sockets in ctx.scratch; the hub only forwards the pickled payloads
      the real code hands to the communicator (allreduce / bcast / gather / barrier) and every
      rank unpickles them in its own interpreter, as mpi4py does;
  (b) with all ranks as threads of one interpreter (harness/fakempi), once per hash seed.

A canonical summary of every rank's partition (part ids, needed pids, sorted name sets,
receive / send triples in the order the partition stores them, overall output names, the
persistent key and a structural dump of every named output — never repr()) and the integer tag
table are compared byte for byte across all runs, and the tag table across the ranks of a run.
A difference is a failing input by itself (program + the two hash-seed assignments)."""
from __future__ import annotations

import json
import os
import pickle
import subprocess
import sys
import threading
import time
from multiprocessing.connection import Client, Listener

BASE_TAG = 1000
GROUP_SEEDS = [[11, 12, 13, 14], [21, 22, 23, 24]]     # one interpreter per rank
THREAD_SEEDS = [0, 5, 9]                                 # all ranks in one interpreter
TAG_KINDS = ["s", "t", "F", "c", "b", "s", "t"]


# --------------------------------------------------------------------------- programs

def programs(seed, n, ncodegen=None):
    """specs with hash-seed sensitive symbolic tags"""
    from ..gen import comm as G
    out = []
    i = 0
    while len(out) < n and i < 20 * n:
        spec = G.generate(seed, i, "default")
        i += 1
        if spec["nranks"] < 2 or not spec["tags"]:
            continue
        pat = G.known_patterns(spec)
        if pat["payload_through_send_holder"]:
            continue        # C09/C10's known finding: no partition is returned at all
        tags = []
        for k in range(len(spec["tags"])):
            kind = TAG_KINDS[(k + len(out)) % len(TAG_KINDS)]
            if kind == "s":
                tags.append(["s", f"tag-{k}-{'x' * (k % 3)}"])
            elif kind == "t":
                tags.append(["t", [["s", f"t{k}"], ["i", k], ["s", "z"]]])
            elif kind == "F":
                tags.append(["F", [f"a{k}", f"b{k}", f"c{k}"]])
            elif kind == "c":
                tags.append(["c", k])
            else:
                tags.append(["b", bytes([65 + k, 66 + k, 200 - k]).hex()])
        spec["tags"] = tags
        spec["c17_index"] = len(out)
        out.append(spec)
    # hand-built family: sends whose payload combines several receives (fan-in towards lower
    # ranks, ping-pong sums), every tag style
    for spec in G.fanin_family():
        spec["c17_index"] = len(out)
        out.append(spec)
    # hand-built family: parts with several outputs reaching different unnamed data wrappers;
    # for these (and a sample of the others) the per-part code is generated and compared, too
    for k, spec in enumerate(G.datawrapper_family()):
        if ncodegen is not None and k % max(1, 48 // ncodegen) != 0:
            continue
        spec["c17_index"] = len(out)
        spec["c17_codegen"] = True
        out.append(spec)
    for spec in out[:n:max(1, n // 5)]:
        spec["c17_codegen"] = True
    return out


# --------------------------------------------------------------------------- canonical summary (runs in the children)

def _canon_expr(e):
    """address-free text of a scalar expression (reductions print their operator object)"""
    import re
    try:
        from .. import ser
        return ser.sexpr(e)
    except Exception:      # noqa: BLE001
        return re.sub(r" object at 0x[0-9a-f]+", "", str(e))


def _structure(expr, memo):
    """structural dump of a part expression: class names, placeholder names, index-lambda
    expressions and binding names in sorted order, tag class names sorted — no repr()"""
    from pytato.array import DataWrapper, IndexLambda, Placeholder
    k = id(expr)
    if k in memo:
        return memo[k]
    tags = sorted(type(t).__name__ for t in expr.tags)
    if isinstance(expr, Placeholder):
        r = ["Placeholder", expr.name, list(expr.shape), str(expr.dtype), tags]
    elif isinstance(expr, IndexLambda):
        r = ["IndexLambda", _canon_expr(expr.expr), list(expr.shape), str(expr.dtype), tags,
             [[nm, _structure(expr.bindings[nm], memo)] for nm in sorted(expr.bindings)]]
    elif isinstance(expr, DataWrapper):
        import hashlib
        import numpy as np
        r = ["DataWrapper", list(expr.shape), str(expr.dtype), tags,
             hashlib.sha256(np.ascontiguousarray(expr.data).tobytes()).hexdigest()[:16]]
    else:
        r = [type(expr).__name__, tags]
    memo[k] = r
    return r


def part_codegen(npart):
    """the real generate_code_for_partition on this rank's (numbered) partition; per part: the
    canonical kernel dump (harness/cexec.canonical_dump — never str(t_unit)), the generated
    source, the argument order and the bound-argument names with a digest of their data"""
    import hashlib
    import numpy as np
    import loopy as lp
    from pytato.distributed.execute import generate_code_for_partition
    from .. import cexec
    try:
        prgs = generate_code_for_partition(npart)
    except Exception as e:      # noqa: BLE001
        return {"error": f"{type(e).__name__}: {str(e)[:120]}"}
    out = []
    for pid in sorted(prgs):
        bp = prgs[pid]
        rec = {"pid": pid}
        rec["kernel"] = json.dumps(cexec.canonical_dump(bp.program), sort_keys=True, default=str)
        rec["arg_order"] = [a.name for a in bp.program.default_entrypoint.args]
        try:
            rec["source"] = lp.generate_code_v2(bp.program).device_code()
        except Exception as e:      # noqa: BLE001
            rec["source_error"] = type(e).__name__
        bound = {}
        for nm in sorted(bp.bound_arguments):
            v = bp.bound_arguments[nm]
            try:
                a = np.ascontiguousarray(v if isinstance(v, np.ndarray) else np.asarray(v))
                bound[nm] = [list(a.shape), str(a.dtype), hashlib.sha256(a.tobytes()).hexdigest()[:16]]
            except Exception as e:      # noqa: BLE001
                bound[nm] = ["?", type(v).__name__, type(e).__name__]
        rec["bound_arguments"] = bound
        out.append(rec)
    return out


def summarize(spec, rank, part, npart, next_tag, table):
    from pytato.analysis import PytatoKeyBuilder
    from .. import distrun
    kb = PytatoKeyBuilder()
    parts = []
    for pid in part.parts:                      # mapping order is part of the summary
        p = part.parts[pid]
        q = npart.parts[pid]
        recvs = [[nm, rv.src_rank, distrun.tag_index(spec, rv.comm_tag), q.name_to_recv_node[nm].comm_tag]
                 for nm, rv in p.name_to_recv_node.items()]
        sends = [[nm, sd.dest_rank, distrun.tag_index(spec, sd.comm_tag), q.name_to_send_nodes[nm][k].comm_tag]
                 for nm, sds in p.name_to_send_nodes.items() for k, sd in enumerate(sds)]
        parts.append({"pid": pid, "needed_pids": sorted(p.needed_pids),
                      "user_input_names": sorted(p.user_input_names),
                      "partition_input_names": sorted(p.partition_input_names),
                      "output_names": sorted(p.output_names), "recv": recvs, "send": sends})
    outputs = {}
    memo: dict = {}
    for nm in sorted(part.name_to_output):
        try:
            key = kb(part.name_to_output[nm])
        except Exception as e:       # key builder cannot digest the expression
            key = f"key-error:{type(e).__name__}"
        outputs[nm] = {"persistent_key": key, "structure": _structure(part.name_to_output[nm], memo)}
    codegen = None
    if spec.get("c17_codegen"):
        codegen = part_codegen(npart)
    tab = None
    if table is not None:
        m, nx = table
        tab = {"table": sorted([distrun.tag_index(spec, k), v] for k, v in m.items()), "next": nx}
    return {"nparts": len(parts), "parts": parts, "overall_output_names": list(part.overall_output_names),
            "name_to_output_keys": list(part.name_to_output), "outputs": outputs,
            "next_tag": next_tag, "tag_table": tab, "codegen": codegen}


# --------------------------------------------------------------------------- child: one rank per process

class _Blocked(Exception):
    pass


class PipeComm:
    """the communicator of a rank that lives in its own interpreter: every collective ships the
    pickled payload to the hub and unpickles what the other ranks sent, here"""
    def __init__(self, conn, rank, size):
        self.conn, self._rank, self._size = conn, rank, size
        self.last_bcast = None

    rank = property(lambda self: self._rank)
    size = property(lambda self: self._size)

    def Get_rank(self):
        return self._rank

    def Get_size(self):
        return self._size

    def _exchange(self, kind, value):
        self.conn.send(("coll", kind, pickle.dumps(value)))
        reply = self.conn.recv()
        if reply[0] != "vals":
            raise _Blocked()
        return [pickle.loads(b) for b in reply[1]]

    def barrier(self):
        self._exchange("barrier", None)

    Barrier = barrier

    def allreduce(self, sendobj, op=None):
        vals = self._exchange("allreduce", sendobj)
        acc = vals[0]
        for v in vals[1:]:
            acc = op(acc, v)
        return acc

    def bcast(self, obj=None, root=0):
        vals = self._exchange("bcast", obj if self._rank == root else None)
        self.last_bcast = vals[root]
        return vals[root]

    def gather(self, sendobj, root=0):
        vals = self._exchange("gather", sendobj)
        return vals if self._rank == root else None

    def allgather(self, sendobj):
        return self._exchange("allgather", sendobj)


def _child_setup():
    from .. import common, distrun
    common.setup_repo_import()
    distrun.setup()


def child_rank(address, group, rank):
    _child_setup()
    from pytato.distributed.partition import find_distributed_partition
    from pytato.distributed.tags import number_distributed_tags
    from ..gen import comm as G
    conn = Client(address)
    conn.send(("hello", "rank", group, rank, os.environ.get("PYTHONHASHSEED")))
    while True:
        msg = conn.recv()
        if msg[0] == "quit":
            return
        spec = msg[1]
        comm = PipeComm(conn, rank, spec["nranks"])
        try:
            part = find_distributed_partition(comm, G.build(spec, rank))
            npart, nxt = number_distributed_tags(comm, part, base_tag=BASE_TAG)
            conn.send(("done", summarize(spec, rank, part, npart, nxt, comm.last_bcast)))
        except _Blocked:
            conn.send(("error", "blocked", ""))
        except Exception as e:       # noqa: BLE001 — reported to the hub, judged there
            conn.send(("error", type(e).__name__, str(e)[:200]))


def child_threads(address, seedlabel):
    """all ranks as threads of this interpreter (fakempi)"""
    _child_setup()
    from .. import distrun
    conn = Client(address)
    conn.send(("hello", "threads", seedlabel, 0, os.environ.get("PYTHONHASHSEED")))
    while True:
        msg = conn.recv()
        if msg[0] == "quit":
            return
        spec = msg[1]
        pr = distrun.partition_program(spec, timeout=30.0, do_verify=False)
        res = []
        for r, rp in enumerate(pr.ranks):
            if rp.status == "ok":
                res.append(("done", summarize(spec, r, rp.part, rp.npart, rp.next_tag, pr.tag_maps[r])))
            else:
                res.append(("error", rp.exc_class or rp.status, rp.exc_text or ""))
        conn.send(("all", res))


# --------------------------------------------------------------------------- parent: hub

class HubTimeout(Exception):
    pass


def _recv(conn, timeout):
    if not conn.poll(timeout):
        raise HubTimeout()
    return conn.recv()


def serve_rank_group(conns, specs, timeout):
    """lock-step hub of one group of rank processes; returns {index: [per-rank result]}"""
    out = {}
    for spec in specs:
        n = spec["nranks"]
        for r in range(n):
            conns[r].send(("program", spec))
        active = set(range(n))
        results: dict = {}
        while active:
            msgs = {r: _recv(conns[r], timeout) for r in sorted(active)}
            finished = [r for r, m in msgs.items() if m[0] in ("done", "error")]
            for r in finished:
                results[r] = msgs[r]
                active.discard(r)
            colls = {r: m for r, m in msgs.items() if m[0] == "coll"}
            if not colls:
                continue
            kinds = {m[1] for m in colls.values()}
            if len(colls) != n or len(kinds) != 1:
                # a rank left (raised / finished) while others wait in a collective, or the ranks
                # disagree on the collective: the waiting ranks are told so
                for r in colls:
                    conns[r].send(("abort",))
            else:
                payloads = [colls[r][2] for r in range(n)]
                for r in range(n):
                    conns[r].send(("vals", payloads))
        out[spec["c17_index"]] = [results[r] for r in range(n)]
    return out


def serve_threads(conn, specs, timeout):
    out = {}
    for spec in specs:
        conn.send(("program", spec))
        m = _recv(conn, timeout)
        out[spec["c17_index"]] = m[1]
    return out


# --------------------------------------------------------------------------- comparison

def first_difference(a, b, path=""):
    """path of the first differing field of two summaries"""
    if type(a) is not type(b):
        return path or "type"
    if isinstance(a, dict):
        for k in sorted(set(a) | set(b)):
            if k not in a or k not in b:
                return f"{path}.{k}" if path else k
            d = first_difference(a[k], b[k], f"{path}.{k}" if path else k)
            if d:
                return d
        return None
    if isinstance(a, list):
        if len(a) != len(b):
            return path + ".length"
        for i, (x, y) in enumerate(zip(a, b)):
            d = first_difference(x, y, f"{path}[{i}]")
            if d:
                return d
        return None
    return None if a == b else path


def _what(path: str) -> str:
    """stable short name of a differing field"""
    import re
    p = re.sub(r"\[\d+\]", "", path)
    p = re.sub(r"^parts\.", "", p)
    p = re.sub(r"^outputs\.[^.]+\.", "outputs.", p)
    return p.split(".structure")[0] if ".structure" in p else p


def _differing_part_has_aliased_outputs(a, path):
    import re
    m = re.match(r"codegen\[(\d+)\]", path)
    if not m or not isinstance(a.get("codegen"), list):
        return False
    pid = a["codegen"][int(m.group(1))]["pid"]
    for p in a["parts"]:
        if p["pid"] == pid:
            keys = [json.dumps(a["outputs"][nm]["structure"]) for nm in p["output_names"] if nm in a["outputs"]]
            return len(set(keys)) < len(keys)
    return False


def _only_int_tags_differ(a, b):
    """the two summaries agree once the integer tags / tag table are blanked"""
    def blank(x):
        y = json.loads(json.dumps(x))
        y["tag_table"] = y["next_tag"] = None
        for p in y["parts"]:
            for k in ("recv", "send"):
                for t in p[k]:
                    t[3] = None
        return json.dumps(y, sort_keys=True)
    return blank(a) == blank(b)


def run(ctx, specs=None, group_seeds=None, thread_seeds=None, batch=None):
    """C17's sweep by default; other checks (C09) run a small instance: their own programs, one
    group of rank interpreters, one all-threads interpreter"""
    from .. import common
    nprog = 600 if ctx.thorough else 100
    timeout = 120.0
    if specs is None:
        specs = programs(ctx.seed, nprog, None if ctx.thorough else 12)
    GROUP_SEEDS = group_seeds if group_seeds is not None else globals()["GROUP_SEEDS"]      # noqa: N806
    THREAD_SEEDS = thread_seeds if thread_seeds is not None else globals()["THREAD_SEEDS"]  # noqa: N806
    sock = str(ctx.scratch / f"c17dist-{os.getpid()}.sock")
    listener = Listener(sock, family="AF_UNIX")
    env0 = dict(os.environ)
    env0["PYTHONPATH"] = str(common.VERIF) + os.pathsep + env0.get("PYTHONPATH", "")
    env0["PYTHONDONTWRITEBYTECODE"] = "1"
    procs = []

    def spawn(args, hashseed):
        env = dict(env0)
        env["PYTHONHASHSEED"] = str(hashseed)
        procs.append(subprocess.Popen([sys.executable, "-m", "harness.props.c17_dist", sock, *map(str, args)],
                                      cwd=str(common.VERIF), env=env, stdout=subprocess.DEVNULL,
                                      stderr=subprocess.PIPE))
    for g, seeds in enumerate(GROUP_SEEDS):
        for r, hs in enumerate(seeds):
            spawn(["rank", g, r], hs)
    for hs in THREAD_SEEDS:
        spawn(["threads", hs, 0], hs)
    nchildren = len(procs)
    groups: dict = {}
    threads_conns: dict = {}
    try:
        # accept all children (with a deadline)
        accepted: list = []

        def acceptor():
            try:
                while len(accepted) < nchildren:
                    accepted.append(listener.accept())
            except Exception:      # listener closed
                pass
        th_acc = threading.Thread(target=acceptor, daemon=True)
        th_acc.start()
        t_end = time.time() + 180
        while th_acc.is_alive():
            th_acc.join(1.0)
            if time.time() > t_end or any(p.poll() not in (None, 0) for p in procs):
                errs = [p.stderr.read().decode(errors="replace")[-800:] for p in procs if p.poll() not in (None, 0)]
                raise common.LeanError("C17 dist: rank interpreters did not start: " + " | ".join(errs))
        for conn in accepted:
            hello = _recv(conn, 60)
            if hello[1] == "rank":
                groups.setdefault(hello[2], {})[hello[3]] = (conn, hello[4])
            else:
                threads_conns[hello[2]] = (conn, hello[4])
        results: dict = {}
        errors: list = []

        def work(label, fn, *a):
            try:
                results[label] = fn(*a)
            except HubTimeout:
                errors.append(f"{label}: timeout")
            except Exception as e:      # noqa: BLE001
                errors.append(f"{label}: {type(e).__name__}: {e}")
        ths = []
        for g in sorted(groups):
            conns = [groups[g][r][0] for r in range(len(groups[g]))]
            ths.append(threading.Thread(target=work, args=(f"ranks-in-processes:seeds={GROUP_SEEDS[g]}",
                                                           serve_rank_group, conns, specs, timeout), daemon=True))
        for hs in sorted(threads_conns):
            ths.append(threading.Thread(target=work, args=(f"threads:seed={hs}", serve_threads,
                                                           threads_conns[hs][0], specs, timeout), daemon=True))
        for t in ths:
            t.start()
        deadline = time.time() + (1500 if ctx.thorough else 240)
        for t in ths:
            t.join(max(0.0, deadline - time.time()))
        if any(t.is_alive() for t in ths) or errors:
            raise common.LeanError(f"C17 dist: multi-process run did not finish: {errors}")
        for g in groups.values():
            for conn, _ in g.values():
                conn.send(("quit",))
        for conn, _ in threads_conns.values():
            conn.send(("quit",))
    finally:
        listener.close()
        for p in procs:
            try:
                p.wait(timeout=5)
            except Exception:
                p.kill()
    # ---- compare
    labels = sorted(results)
    ref_label = labels[0]
    n_cases = n_dis = n_rank_summaries = n_kernels = 0
    tagkinds: dict = {}
    for spec in specs:
        idx = spec["c17_index"]
        for t in spec["tags"]:
            tagkinds[t[0]] = tagkinds.get(t[0], 0) + 1
        runs = {lb: results[lb][idx] for lb in labels}
        replay = {"spec": spec, "runs": labels}
        n_cases += 1
        bad = False
        # every run must produce a partition on every rank
        for lb, rr in runs.items():
            for r, m in enumerate(rr):
                if m[0] != "done":
                    bad = True
                    ctx.violation(f"process-independence:partition:no-partition:{m[1]}",
                                  f"program {idx}: rank {r} gets no partition in run '{lb}': {m[1]} {m[2]}",
                                  dict(replay, run=lb, rank=r))
        if bad:
            n_dis += 1
            continue
        base = runs[ref_label]
        for lb in labels[1:]:
            for r in range(spec["nranks"]):
                n_rank_summaries += 1
                a, b = base[r][1], runs[lb][r][1]
                if isinstance(a.get("codegen"), list):
                    n_kernels += len(a["codegen"])
                if json.dumps(a, sort_keys=True) == json.dumps(b, sort_keys=True):
                    continue
                bad = True
                path = first_difference(a, b) or "?"
                what = _what(path)
                fam = "tags" if _only_int_tags_differ(a, b) else "partition"
                if path.startswith("codegen"):
                    fam = "part-codegen"
                    what = what.replace("codegen.", "", 1) if what != "codegen" else what
                    if _differing_part_has_aliased_outputs(a, path):
                        # one array under several output names of the part: which name is computed and
                        # which are copies follows the frozenset order of part.output_names
                        what = "aliased-outputs"
                ctx.violation(f"process-independence:{fam}:{what}",
                              f"program {idx} rank {r}: '{path}' differs between run '{ref_label}' and run '{lb}'",
                              dict(replay, rank=r, run_a=ref_label, run_b=lb, field=path,
                                   a=a if len(json.dumps(a)) < 6000 else None,
                                   b=b if len(json.dumps(b)) < 6000 else None))
        # within a run all ranks hold one tag table
        for lb, rr in runs.items():
            tabs = {json.dumps(m[1]["tag_table"], sort_keys=True) for m in rr}
            if len(tabs) != 1:
                bad = True
                ctx.violation("process-independence:tags:ranks-hold-different-tables",
                              f"program {idx}: ranks of run '{lb}' apply different tag tables", dict(replay, run=lb))
        n_dis += bad
        if len(ctx.samples) < 14 and idx % 37 == 0:
            ctx.sample({"c17_dist_program": idx, "nranks": spec["nranks"], "tags": spec["tags"],
                        "rank0_summary_head": {k: base[0][1][k] for k in ("nparts", "overall_output_names", "tag_table")}})
    ctx.note_batch(batch or "distributed-partition-and-tags-across-hash-seeds", n_cases, n_dis, exhaustive=False,
                   nontrivial=n_cases, runs=labels, rank_summaries_compared=n_rank_summaries,
                   programs_with_part_codegen=sum(1 for sp in specs if sp.get("c17_codegen")),
                   part_kernels_compared=n_kernels,
                   tag_kinds=tagkinds,
                   how="each program partitioned + tag-numbered by the real code in every run (ranks in separate "
                       "interpreters with different PYTHONHASHSEEDs; all ranks in one interpreter per seed); "
                       "canonical per-rank summaries and tag tables compared byte for byte")
    ctx.assumptions.append(
        "ranks in separate interpreters: the hub forwards pickled collective payloads unchanged; allreduce combines in rank "
        "order on every rank (MPI may use another order for a commutative op)")


if __name__ == "__main__":
    _sock, _mode, _a, _b = sys.argv[1], sys.argv[2], sys.argv[3], sys.argv[4]
    if _mode == "rank":
        child_rank(_sock, int(_a), int(_b))
    else:
        child_threads(_sock, int(_a))

THEOREMS = [
    "Pt.lower_roll_accesses_inbounds", "Pt.lower_perm_accesses_inbounds", "Pt.lower_basic_accesses_inbounds",
    "Pt.lower_stack_accesses_inbounds", "Pt.lower_concat_accesses_inbounds",
    "Pt.lower_reshape_accesses_inbounds_C", "Pt.lower_reshape_accesses_inbounds_F",
    "Pt.lower_roll_accesses", "Pt.lower_perm_accesses", "Pt.lower_basic_accesses", "Pt.lower_reshape_accesses",
    "Pt.lower_stack_accesses", "Pt.lower_concat_accesses",
    "Pt.pad_accesses_inbounds", "Pt.einsum_accesses_inbounds",
    "Pt.advindex_accesses_affine_inbounds",
    "Pt.binop_accesses_inbounds", "Pt.where_accesses_inbounds", "Pt.reduce_accesses_inbounds",
    "Pt.constructors_access_free", "Pt.csr_accesses_inbounds",
]

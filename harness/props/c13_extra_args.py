"""C13, mappers with extra arguments: whatever is passed next to the root — by position, by keyword, or
mixed — must reach EVERY reachable node unchanged, through every class of edge (operands, index arrays,
stored shape components, bindings, containers, dict entries, CSR parts, send payload / passthrough, reshape
newshape, call bindings, function bodies).

The families driven are the base classes that propagate `*args, **kwargs`:
  CopyMapperWithExtraArgs, CombineMapper, WalkMapper, CachedWalkMapper
(and through them `Mapper.rec` / `Mapper.__call__` / `rec_function_definition` and the caches of
`CachedMapper` / `TransformMapperWithExtraArgs` / `CachedWalkMapper`, whose keys must tell extra arguments
apart).  Each is subclassed minimally: `rec` / `rec_function_definition` record (object, args, kwargs) and
defer; only what the base class leaves to its users (cache keys, `combine`, the mapping of calls /
function definitions where the base refuses) is filled in, always passing `*args, **kwargs` on.

Oracle (reflective reachability, `harness.reflect`; pytato's traversals are not consulted):
  * every object reachable from the root is recorded at least once, and
  * every record carries exactly the root's (args, kwargs);
  * a second run of the SAME mapper instance with other extra arguments visits every node again with those
    (a cache key that ignores the extra arguments would serve the first run's entry).
"""
from __future__ import annotations

from typing import Any

from .. import reflect
from ..gen import probes

_LOG: list[tuple] | None = None
_STACK: list[tuple[int, tuple, tuple]] = []      # the recorded calls in progress: (object, args, kwargs)


def _freeze(kwargs: dict) -> tuple:
    return tuple(sorted(kwargs.items()))


class _noted:
    """record the call (with the call it was made from) and keep it on the stack while it runs"""

    def __init__(self, kind: str, expr, args, kwargs):
        self.rec = (id(expr), tuple(args), _freeze(kwargs))
        if _LOG is not None:
            _LOG.append((kind,) + self.rec + (_STACK[-1] if _STACK else None,))

    def __enter__(self):
        _STACK.append(self.rec)

    def __exit__(self, *exc):
        _STACK.pop()
        return False


def families() -> dict[str, Any]:
    """family name -> zero-argument factory of a recording mapper"""
    from pytato.transform import CachedWalkMapper, CombineMapper, CopyMapperWithExtraArgs, WalkMapper

    class RecCopy(CopyMapperWithExtraArgs):
        def get_cache_key(self, expr, *args, **kwargs):
            return (expr, args, _freeze(kwargs))

        def get_function_definition_cache_key(self, expr, *args, **kwargs):
            return (expr, args, _freeze(kwargs))

        def rec(self, expr, *args, **kwargs):
            with _noted("rec", expr, args, kwargs):
                return super().rec(expr, *args, **kwargs)

        def rec_function_definition(self, expr, *args, **kwargs):
            with _noted("fn", expr, args, kwargs):
                return super().rec_function_definition(expr, *args, **kwargs)

        def map_function_definition(self, expr, *args, **kwargs):
            # the base class leaves this to its users (CopyMapper's version, with the extra arguments)
            new_mapper = self.clone_for_callee(expr)
            new_returns = {name: new_mapper(ret, *args, **kwargs) for name, ret in expr.returns.items()}
            return expr.replace_if_different(returns=new_returns)

    class RecCombine(CombineMapper):
        def get_cache_key(self, expr, *args, **kwargs):
            return (expr, args, _freeze(kwargs))

        def get_function_definition_cache_key(self, expr, *args, **kwargs):
            return (expr, args, _freeze(kwargs))

        def combine(self, *parts):
            return 1 + sum(parts)

        def rec(self, expr, *args, **kwargs):
            with _noted("rec", expr, args, kwargs):
                return super().rec(expr, *args, **kwargs)

        def rec_function_definition(self, expr, *args, **kwargs):
            with _noted("fn", expr, args, kwargs):
                return super().rec_function_definition(expr, *args, **kwargs)

        def map_size_param(self, expr, *args, **kwargs):
            return 1

        def map_function_definition(self, expr, *args, **kwargs):
            new_mapper = self.clone_for_callee(expr)
            return self.combine(*(new_mapper(ret, *args, **kwargs) for _, ret in sorted(expr.returns.items())))

        def map_call(self, expr, *args, **kwargs):
            return self.combine(self.rec_function_definition(expr.function, *args, **kwargs),
                                *(self.rec(bnd, *args, **kwargs) for _, bnd in sorted(expr.bindings.items())))

    class RecWalk(WalkMapper):
        def rec(self, expr, *args, **kwargs):
            with _noted("rec", expr, args, kwargs):
                return super().rec(expr, *args, **kwargs)

        def rec_function_definition(self, expr, *args, **kwargs):
            with _noted("fn", expr, args, kwargs):
                return super().rec_function_definition(expr, *args, **kwargs)

    class RecCachedWalk(CachedWalkMapper):
        def get_cache_key(self, expr, *args, **kwargs):
            return (id(expr), args, _freeze(kwargs))

        def get_function_definition_cache_key(self, expr, *args, **kwargs):
            return (id(expr), args, _freeze(kwargs))

        def rec(self, expr, *args, **kwargs):
            with _noted("rec", expr, args, kwargs):
                return super().rec(expr, *args, **kwargs)

        def rec_function_definition(self, expr, *args, **kwargs):
            with _noted("fn", expr, args, kwargs):
                return super().rec_function_definition(expr, *args, **kwargs)

    return {"CopyMapperWithExtraArgs": lambda: RecCopy(err_on_collision=False, err_on_created_duplicate=False),
            "CombineMapper": RecCombine, "WalkMapper": RecWalk, "CachedWalkMapper": RecCachedWalk}


# how the extra arguments are handed over next to the root
STYLES: dict[str, tuple[tuple, dict]] = {
    "positional": ((7, "x"), {}),
    "keyword": ((), {"alpha": 7, "beta": "x"}),
    "mixed": ((7,), {"beta": "x"}),
    "one-keyword": ((), {"alpha": (1, 2)}),
}
SECOND = {"positional": ((8, "y"), {}), "keyword": ((), {"alpha": 8, "beta": "y"}), "mixed": ((8,), {"beta": "y"}),
          "one-keyword": ((), {"alpha": (3,)})}


def _run(mapper, root, args, kwargs):
    global _LOG
    _LOG = []
    del _STACK[:]
    try:
        mapper(root, *args, **kwargs)
        return _LOG, None
    except RecursionError:
        raise
    except Exception as e:   # noqa: BLE001
        return _LOG, e
    finally:
        _LOG = None
        del _STACK[:]


def _labels(root) -> tuple[dict[int, Any], dict[tuple[int, int], str], dict[int, list[int]]]:
    """objects by id, edge labels by (parent, child), parents by child — by reflection"""
    objs: dict[int, Any] = {}
    labels: dict[tuple[int, int], str] = {}
    parents: dict[int, list[int]] = {}
    for n in reflect.walk(root, into_functions=True):
        objs[id(n)] = n
        for label, c in reflect.children(n, into_functions=True):
            labels.setdefault((id(n), id(c)), label)
            parents.setdefault(id(c), []).append(id(n))
    return objs, labels, parents


def _describe_edge(objs, labels, parent_id, child_id) -> tuple[str, str]:
    if parent_id is None or parent_id not in objs:
        return "root", "the root"
    label = labels.get((parent_id, child_id))
    child = type(objs[child_id]).__name__ if child_id in objs else "?"
    if label is None:
        # reached from the parent through something reflection does not list as its edge (a container member…)
        return "indirect", f"{type(objs[parent_id]).__name__} --…--> {child}"
    return probes.edge_class(label), f"{type(objs[parent_id]).__name__} --{label}--> {child}"


def judge(root, log, args, kwargs) -> list[tuple[str, Any, str, tuple[str, str]]]:
    """-> [(what, node, text, (edge class, edge))] for one run.  A call is at fault when it carries other
    arguments than the root's although the call it was made from carried the right ones (the EDGE between the
    two lost them); a node is missing when nothing was recorded for it although one of its parents was visited."""
    want = (tuple(args), _freeze(kwargs))
    objs, labels, parents = _labels(root)
    out = []
    seen: set[int] = set()
    for _, i, a, kw, parent in log:
        seen.add(i)
        if (a, kw) != want and (parent is None or (parent[1], parent[2]) == want):
            if i in objs:
                out.append(("wrong-arguments", objs[i], f"received args={a!r} kwargs={dict(kw)!r}",
                            _describe_edge(objs, labels, parent[0] if parent else None, i)))
    for i, n in objs.items():
        if i not in seen:
            ps = [p for p in parents.get(i, []) if p in seen]
            if ps or not parents.get(i):
                out.append(("not-visited", n, "is never reached",
                            _describe_edge(objs, labels, ps[0] if ps else None, i)))
    return out


def graphs(ctx, build_graph, nested_specs) -> list[tuple[str, Any]]:
    out: list[tuple[str, Any]] = []
    for name, node in probes.probe_nodes().items():
        out.append((f"probe:{name}", node))
    for name, node in probes.nary_probe_nodes().items():
        out.append((f"nary:{name}", node))
    # Reshape.newshape with array-valued components (the public reshape() refuses symbolic shapes; the node
    # class and every mapper's map_reshape provide for them): built by reflection
    import numpy as np
    import pytato as pt
    base = pt.reshape(pt.make_placeholder("prs", (4, 3), np.dtype("float64")), (3, 4))
    try:
        sym = probes.replace_child(base, "operand:newshape:0", pt.make_size_param("pn_rs0"))
        sym = probes.replace_child(sym, "operand:newshape:1", pt.make_size_param("pn_rs1"))
        out.append(("probe:Reshape_symbolic_newshape", sym))
    except Exception:   # noqa: BLE001
        pass
    for spec in ({"family": "every_edge", "dedup": True}, {"family": "all_kinds", "dedup": True},
                 {"family": "diamond"}, {"family": "ladder", "depth": 10}):
        out.append((f"graph:{spec['family']}", build_graph(spec)))
    for spec in nested_specs(ctx)[:3]:
        out.append((f"nested:{spec['depth']}:{spec['order']}", build_graph(spec)))
    # a function definition as the root (Mapper.__call__ -> rec_function_definition)
    from pytato.function import Call
    for name, g in list(out):
        for n in reflect.walk(g, into_functions=True):
            if isinstance(n, Call):
                out.append((f"function-root:{name}", n.function))
                break
        else:
            continue
        break
    return out


# (WalkMapper.map_reshape did not recurse into the array-valued components of Reshape.newshape: found by this batch,
# repaired in /repo by 97d669b; nothing is exempt any more)
HANDED_OVER: set = set()


def check_extra_args(ctx, build_graph, nested_specs):
    fams = families()
    handed_over: dict[str, str] = {}
    gs = graphs(ctx, build_graph, nested_specs)
    cases = dis = refused = 0
    reported: set[str] = set()
    for fam, make in fams.items():
        for gname, root in gs:
            # does the family handle this graph at all (without extra arguments)?
            _, err = _run(make(), root, (), {})
            if err is not None:
                refused += 1
                continue
            for style, (args, kwargs) in STYLES.items():
                cases += 1
                mapper = make()
                runs = [("first", args, kwargs), ("second-run-same-instance",) + SECOND[style]]
                first_seen: set[int] = set()
                for which, a, kw in runs:
                    log, err = _run(mapper, root, a, kw)
                    if which == "first":
                        first_seen = {r[1] for r in log}
                    if err is not None:
                        faults = [("raises", root, f"{type(err).__name__}: {str(err)[:120]}", ("root", "the root"))]
                        # an argument lost on the way typically surfaces as a cache-key / signature error further
                        # down: locate the edge from what was recorded so far
                        located = [f for f in judge(root, log, a, kw) if f[0] == "wrong-arguments"]
                        faults = located or faults
                    else:
                        faults = judge(root, log, a, kw)
                    if which != "first":
                        # on reuse, a node is "ignored by the cache" only if the first run did reach it
                        faults = [f for f in faults if f[0] != "not-visited" or id(f[1]) in first_seen]
                    kept = []
                    for f in faults:
                        pre = "extra-args-node-not-visited" if f[0] == "not-visited" and which == "first" else None
                        if pre and (pre, fam, f[3][0]) in HANDED_OVER:
                            handed_over[f"{pre}:{fam}:{f[3][0]}"] = f"{gname}: {f[3][1]} {f[2]}"
                        else:
                            kept.append(f)
                    faults = kept
                    if not faults:
                        continue
                    dis += 1
                    for what, node, text, (ecls, edge) in faults[:3]:
                        what2 = what if which == "first" else f"{what}-on-reuse"
                        sig = f"extra-args-not-propagated:{fam}:{ecls}"
                        if what2.startswith("not-visited"):
                            sig = f"extra-args-node-not-visited:{fam}:{ecls}"
                        if which != "first" and what == "not-visited":
                            sig = f"extra-args-ignored-by-cache:{fam}"
                        key = f"{sig}:{style}:{type(node).__name__}"
                        if key in reported:
                            continue
                        reported.add(key)
                        ctx.violation(
                            sig,
                            f"{fam} called on {gname} with extra arguments passed {style} "
                            f"(args={a!r}, kwargs={kw!r}; {which}): {type(node).__name__} reached through "
                            f"{edge} {text} — every reachable node must receive exactly the root's extra arguments",
                            {"check": "extra-args", "mapper": fam, "graph": gname, "style": style, "run": which,
                             "args": repr(a), "kwargs": repr(kw), "node": type(node).__name__, "edge": edge,
                             "edge_class": ecls, "observed": text, "what": what2})
                    break
    ctx.note_batch("extra-arguments-reach-every-node", cases, dis, exhaustive=False,
                   families=sorted(fams), styles=sorted(STYLES), graphs=len(gs), refused_without_extra_args=refused,
                   handed_over_not_failing=handed_over)

THEOREMS = ["Pt.subst_no_capture", "Pt.inline_sound", "Pt.inline_call_free", "Pt.inline_call", "Pt.trace_names_agree",
            "Pt.trace_binding_names_nodup", "Pt.retraverse_wrong"]

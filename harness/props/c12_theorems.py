THEOREMS = ["Pt.subst_no_capture", "Pt.inline_sound", "Pt.inline_call_free", "Pt.inline_call", "Pt.trace_names_agree",
            "Pt.trace_binding_names_nodup", "Pt.retraverse_wrong",
            # PtProofs/C12Multi.lean (model PtModel/CallsMulti.lean)
            "Pt.CallsM.call_result_projection", "Pt.CallsM.tuple_names_positional", "Pt.CallsM.tuple_return_names",
            "Pt.CallsM.tuple_unpack_positional", "Pt.CallsM.dict_unpack", "Pt.CallsM.array_unpack",
            "Pt.CallsM.lex_order_wrong",
            "Pt.CallsM.trace_call_denote", "Pt.CallsM.trace_inline_eq_direct", "Pt.CallsM.trace_param_names",
            "Pt.CallsM.trace_formals_nodup", "Pt.CallsM.trace_call_denote_names",
            "Pt.CallsM.inline_sound_multi", "Pt.CallsM.tag_all_sound", "Pt.CallsM.inline_all_sound",
            "Pt.CallsM.inline_call_free_multi", "Pt.CallsM.inline_no_tagged_left", "Pt.CallsM.inline_idempotent",
            "Pt.CallsM.inline_real_order", "Pt.CallsM.wrong_order_leaves_calls", "Pt.CallsM.inline_preserves_sharing",
            "Pt.CallsM.tag_all_complete", "Pt.CallsM.tag_all_only_tags", "Pt.CallsM.tag_all_idempotent",
            "Pt.CallsM.inline_all_call_free", "Pt.CallsM.inline_all_idempotent", "Pt.CallsM.tag_all_stop_incomplete"]

"""C13 — cached mappers visit each node once, preserve sharing and reach every child.

Ties (re-run on every check against /repo's current tree):
 1. TRANSLATOR: `harness/extract/children.py` rebuilds `lean/PtGen/Children.lean` from the
    live mapper classes; `PtProofs.C13Tables.children_tables_complete` (decide +kernel)
    must accept it.  A row the kernel rejects is located here, a probe graph in which a
    node is reachable ONLY through the missed edge is built, the real mapper is run on
    it and compared with the reflective walk -> `mapper-misses:<Mapper>:<Kind>:<edge>`.
 2. CORRESPONDENCE: the real mappers on diamonds, ladders (2^depth paths), one node used
    through every kind of edge, every node kind, with and without structurally equal
    duplicates, vs the Lean model (`ptdriver`, `(mapper …)` queries) on the reflectively
    serialised heap: set of visited nodes, invocations per node, result identities,
    number of created nodes, collision reporting; 10 s limit per traversal.
"""
from __future__ import annotations

import contextlib
import json
import signal
import time
from typing import Any

from .. import common, heapser, reflect
from ..extract import children as ch
from ..gen import dags, kinds, probes

THEOREMS = [
    "Pt.visits_once", "Pt.reaches_all", "Pt.reach_complete", "Pt.cached_eq_tree",
    "Pt.log_topological", "Pt.fuel_irrelevant", "Pt.sharing_kept", "Pt.identity_same",
]
TABLE_THEOREMS = ["Pt.children_tables_complete"]
TRAVERSAL_LIMIT_S = 10.0


class TraversalTimeout(Exception):
    pass


@contextlib.contextmanager
def time_limit(seconds: float):
    def handler(signum, frame):
        raise TraversalTimeout()
    old = signal.signal(signal.SIGALRM, handler)
    signal.setitimer(signal.ITIMER_REAL, seconds)
    try:
        yield
    finally:
        signal.setitimer(signal.ITIMER_REAL, 0)
        signal.signal(signal.SIGALRM, old)


# --------------------------------------------------------------------------
# graphs (specs are JSON-able so that a replay can rebuild them)
# --------------------------------------------------------------------------

def build_graph(spec: dict):
    import random
    fam = spec["family"]
    if fam == "diamond":
        g = lambda: dags.diamond()                     # noqa: E731
    elif fam == "ladder":
        g = lambda: dags.ladder_dict(spec["depth"])    # noqa: E731
    elif fam == "ladder_array":
        g = lambda: dags.ladder(spec["depth"])         # noqa: E731
    elif fam == "every_edge":
        g = lambda: dags.every_edge_kind(with_loopy=spec.get("loopy", False))   # noqa: E731
    elif fam == "all_kinds":
        g = kinds.all_kind_graph
    elif fam == "nested_calls":
        g = lambda: dags.nested_calls(spec["depth"], spec["order"], spec.get("repeat", 2),   # noqa: E731
                                      tag=_tag_named(spec.get("tag")))
    elif fam == "twin":
        from ..gen.kinds import VBarTag
        g = lambda: dags.twin_graph(spec["mode"], spec["order"], spec["fan"], spec["levels"], VBarTag())   # noqa: E731
    elif fam == "random":
        g = lambda: dags.random_dag(random.Random(spec["seed"]), size=spec.get("size", 25),   # noqa: E731
                                    duplicates=spec.get("rdup", False))
    else:
        raise ValueError(fam)
    graph = dags.duplicated(g) if spec.get("dup") else g()
    if spec.get("dedup"):
        graph = reflective_dedup(graph)
    return graph


def _tag_named(name):
    if not name:
        return None
    from ..gen import kinds as k
    return {"VFooTag": k.VFooTag, "VBarTag": k.VBarTag}[name]()


def reflective_dedup(root):
    """merge structurally equal objects — by reflection, NOT by pytato's Deduplicator
    (which is under test); equality itself is pytato's `==` (C04's subject)"""
    canon: dict[Any, Any] = {}
    memo: dict[int, Any] = {}

    def cp(n):
        if id(n) in memo:
            return memo[id(n)]
        new = n
        for label, c in reflect.children(n, into_functions=True):
            cc = cp(c)
            if cc is not c:
                new = probes.replace_child(new, label, cc)
        try:
            new = canon.setdefault(new, new)
        except TypeError:
            pass
        memo[id(n)] = new
        return new
    import sys
    old = sys.getrecursionlimit()
    sys.setrecursionlimit(max(old, 20000))
    try:
        return cp(root)
    finally:
        sys.setrecursionlimit(old)


def graph_specs(ctx) -> list[dict]:
    depths = [10, 30, 60] if not ctx.thorough else [10, 20, 30, 40, 50, 60]
    specs: list[dict] = [{"family": "diamond"}]
    specs += [{"family": "ladder", "depth": d} for d in depths]
    specs += [{"family": "every_edge", "dedup": True}, {"family": "all_kinds", "dedup": True}]
    nrand = 200 if ctx.thorough else 16
    specs += [{"family": "random", "seed": ctx.seed * 1000 + i, "size": 30, "dedup": True}
              for i in range(nrand)]
    # with structurally equal duplicates
    specs += [{"family": "diamond", "dup": True}, {"family": "ladder", "depth": depths[0], "dup": True},
              {"family": "ladder", "depth": depths[-1], "dup": True}]
    specs += [{"family": "random", "seed": ctx.seed * 1000 + 500 + i, "size": 30, "rdup": True}
              for i in range(nrand)]
    return specs


def untag_ladder(depth: int):
    """a ladder whose two rung nodes differ ONLY by a tag: dropping the tag makes them equal"""
    import pytato as pt
    import numpy as np
    from ..gen.kinds import VBarTag
    x = pt.make_placeholder("x", (4, 4), np.float64)
    a, b = x, x + 1
    for _ in range(depth):
        na = (a + b).tagged(VBarTag())
        nb = a + b
        a, b = na, nb
    return pt.make_dict_of_named_arrays({"a": a, "b": b})


def has_duplicates(v: heapser.HeapView) -> bool:
    return any(c != i for i, c in enumerate(v.cls))


def namespaces(v: heapser.HeapView) -> list[set[int]]:
    """per node the namespaces it lives in: -1 = the outer graph, k = body of FunctionDefinition k.
    A function body is mapped by a clone of the mapper with its own array cache (documented:
    "the namespace of the function's body is different from that of the caller")."""
    ns: list[set[int]] = [set() for _ in v.nodes]

    def fill(start, tag):
        st = [start]
        while st:
            i = st.pop()
            if tag in ns[i]:
                continue
            ns[i].add(tag)
            for _, c, j in v.edges[i]:
                if c != "function":
                    st.append(j)
    fill(v.root, -1)
    for i in range(len(v.nodes)):
        if v.kind(i) == "FunctionDefinition":
            for _, c, j in v.edges[i]:
                fill(j, i)
    return ns


def duplicates_within_namespace(v: heapser.HeapView) -> list[tuple[int, int]]:
    ns = namespaces(v)
    first: dict[tuple[int, int], int] = {}
    out = []
    for i, c in enumerate(v.cls):
        for tag in ns[i]:
            j = first.setdefault((tag, c), i)
            if j != i:
                out.append((j, i))
    return out


def duplicates_cross_namespace(v: heapser.HeapView) -> bool:
    ns = namespaces(v)
    return any(c != i and not (ns[i] & ns[c]) for i, c in enumerate(v.cls))


# --------------------------------------------------------------------------
# 1. table rows the kernel rejects: locate + search
# --------------------------------------------------------------------------

def search_missing_edge(t: ch.Tables, entry: ch.MapperEntry, kind: str, label: str) -> dict:
    """a graph in which a fresh node U is reachable ONLY through edge `label` of a node of
    `kind`; run the real mapper (full traversal, instrumented only to observe), compare with
    the reflective walk"""
    node = t.kinds[kind]
    child = dict(reflect.children(node, into_functions=True))[label]
    try:
        uniq = probes.fresh_like(child)
        graph = probes.replace_child(node, label, uniq)
    except TypeError:
        uniq, graph = child, node          # containers: the probe's own child is already unique
    expected = {id(n) for n in reflect.walk(graph, into_functions=True)}
    assert id(uniq) in expected
    log = ch.CallLog()
    err = None
    res = None
    try:
        with ch.logging_to(log), time_limit(TRAVERSAL_LIMIT_S):
            res = entry.run(graph)
    except Exception as e:    # noqa: BLE001
        err = f"{type(e).__name__}: {e}"
    if isinstance(res, tuple) and res and res[0] == "labels":
        reached = label in res[1]
    elif isinstance(res, tuple) and res and res[0] == "string":
        import pytato.stringifier as pst
        reached = pst.Reprifier(truncation_depth=10 ** 6)(uniq) in res[1]
    else:
        reached = any(c == id(uniq) for _, c in log.pairs)
    return {"reached": reached, "error": err,
            "graph": describe(graph), "unique_node": describe(uniq, depth=0),
            "reflective_walk_nodes": len(expected),
            "mapper_rec_calls": len(log.pairs)}


def describe(node, depth: int = 2) -> str:
    """short reflective rendering (never repr(): hash-order dependent)"""
    name = getattr(node, "name", None)
    s = type(node).__name__ + (f"[{name}]" if isinstance(name, str) else "")
    if depth <= 0:
        return s
    kids = reflect.children(node, into_functions=True)
    if not kids:
        return s
    return s + "(" + ", ".join(f"{lb}={describe(c, depth - 1)}" for lb, c in kids) + ")"


def stale_child_reproducer() -> dict:
    """the concrete consequence of the slice-bound omission in the copy mappers"""
    import numpy as np
    import pytato as pt
    n, m = pt.make_size_param("n"), pt.make_size_param("m")
    xs = pt.make_placeholder("xs", (n, 3), np.float64)
    y = xs[:, 0]
    out = pt.transform.map_and_copy(y, lambda e: m if e is n else e)
    names = sorted({c.name for c in reflect.walk(out) if isinstance(c, pt.array.SizeParam)})
    return {"program": "n,m=size params; xs=placeholder((n,3)); y=xs[:,0]; "
                       "out=map_and_copy(y, lambda e: m if e is n else e)",
            "size_params_reachable_in_result": names, "expected": ["m"]}


def check_tables(ctx, t: ch.Tables, lean_ok: bool):
    sigs = ch.miss_signatures(t)
    entries = {e.name: e for e in t.entries}
    known = ctx.known_signatures()
    n_confirmed = 0
    unexplained = []
    for sig, rows in sorted(sigs.items()):
        m, k, lb, ec = rows[0]
        res = search_missing_edge(t, entries[m], k, lb)
        mappers = sorted({r[0] for r in rows})
        what = (f"{'every traversal/transform mapper' if ':ALL:' in sig else ch.mapper_alias(t).get(m, m)} "
                f"does not recurse into edge class '{ec}' of {t.cls(k)} (edge {lb}); a node reachable only "
                f"through that edge is {'NOT ' if not res['reached'] else ''}reached by the real mapper "
                f"while the reflective walk reaches it")
        replay = {"check": "table-miss", "mapper": m, "kind": k, "label": lb, "edge_class": ec,
                  "rows": [list(r) for r in rows[:40]], "mappers": mappers, "search": res}
        if ec == "slice-bound":
            replay["consequence"] = stale_child_reproducer()
        if not res["reached"]:
            n_confirmed += 1
            ctx.violation(sig, what, replay)
        else:
            unexplained.append(sig)
    ctx.note_batch("table-rows", len(t.rows), len(ch.missing_rows(t)), exhaustive=True,
                   signatures=sorted(sigs), unsupported_rows=len(t.unsupported))
    unknown = [s for s in sigs if s not in known]
    if lean_ok and unknown:
        ctx.broken.append("translator-vs-kernel:python-finds-missing-rows-the-kernel-accepted:" + ";".join(unknown))
    if not lean_ok:
        # the kernel rejected the table: explained iff every failing row was confirmed on the real code
        if sigs and not unexplained:
            ctx.broken = [b for b in ctx.broken if b != "lean-build:PtProofs.C13Tables"]
        for s in unexplained:
            ctx.broken.append(f"table-row-not-confirmed:{s}")


# --------------------------------------------------------------------------
# 2. correspondence with the Lean model
# --------------------------------------------------------------------------

def model_log(v: heapser.HeapView, excl) -> str:
    return f"(mapper log {v.sexp()} {v.root} {heapser.excl(excl)})"


def run_mapper(entry: ch.MapperEntry, graph, limit=TRAVERSAL_LIMIT_S):
    """full (non-stub) instrumented run -> (log, result, error, seconds)"""
    log = ch.CallLog()
    t0 = time.time()
    res = err = None
    try:
        with ch.logging_to(log), time_limit(limit):
            res = entry.run(graph)
    except TraversalTimeout:
        err = "TIMEOUT"
    except Exception as e:    # noqa: BLE001
        err = e
    return log, res, err, time.time() - t0


def check_traversals(ctx, t: ch.Tables):
    """visited set and invocations per node of every mapper vs `runCached` of the model"""
    specs = graph_specs(ctx)
    entries = [e for e in t.entries if e.family in ("transform", "analysis")]
    queries: list[str] = []
    pending = []
    n_cases = n_dis = 0
    timed_out: set[str] = set()
    dist: dict[str, int] = {}
    for spec in specs:
        graph = build_graph(spec)
        v = heapser.view(graph)
        dups = has_duplicates(v)
        dist[spec["family"] + ("+dup" if dups else "")] = dist.get(spec["family"] + ("+dup" if dups else ""), 0) + 1
        kinds_present = {v.kind(i) for i in range(len(v.nodes))}
        for e in entries:
            if ch.mapper_alias(t).get(e.name, e.name) in timed_out:
                continue      # the class already ran out of time: every wrapper of it would too
            if not e.cached and spec["family"] in ("ladder", "random", "every_edge", "all_kinds") \
                    and spec.get("depth", 99) > 12:
                continue      # WalkMapper is documented to re-walk shared nodes: small graphs only
            refused = ch.refused_kinds(t, e.name)
            log, res, err, secs = run_mapper(e, graph)
            n_cases += 1
            alias = ch.mapper_alias(t).get(e.name, e.name)
            if err == "TIMEOUT":
                n_dis += 1
                timed_out.add(alias)
                ctx.violation(f"mapper-retraverses:{alias}",
                              f"{e.name} did not finish a graph of {len(v.nodes)} nodes ({spec}) within "
                              f"{TRAVERSAL_LIMIT_S:.0f} s: {len(log.pairs)} rec calls so far — shared nodes are "
                              f"traversed again on every path",
                              {"check": "traversal", "mapper": e.name, "graph": spec,
                               "rec_calls_before_timeout": len(log.pairs), "nodes": len(v.nodes)})
                continue
            if err is not None:
                msg = f"{type(err).__name__}: {err}"
                if dups and "collision" in str(err):
                    # equality-keyed cache + two distinct equal nodes: REPORTED, as required
                    pending.append(("collision-reported", e, spec, v, None, None))
                    continue
                if any(k in kinds_present for k in refused) and type(err).__name__ in refused.values():
                    continue      # loud refusal of a kind (table `unsupported` row): not a C13 matter
                n_dis += 1
                ctx.violation(f"mapper-raises:{alias}:{type(err).__name__}",
                              f"{e.name} raised {msg[:200]} on {spec}",
                              {"check": "traversal", "mapper": e.name, "graph": spec, "error": msg})
                continue
            # which edges the mapper follows is read off today's table.  A mapper documented to skip
            # function bodies may still invoke its (empty) method on the FunctionDefinition itself
            # (TopoSortMapper.map_call -> map_function_definition returns at once): what the scope
            # exclusion promises is that nothing BELOW the definition (`ret` edges) is visited.
            excl = ch.exclusions_for(t, e.name)
            if e.name in t.skips:
                excl = sorted(set(excl) | {("*", "ret")})
            pending.append(("log", e, spec, v, log, len(queries)))
            queries.append(model_log(v, excl))
            if not e.cached and len(v.nodes) <= 40:
                pending.append(("treesize", e, spec, v, log, len(queries)))
                queries.append(f"(mapper treesize {v.sexp()} {v.root} {heapser.excl(excl)})")
    answers = common.driver_query_parallel(queries)
    collisions_expected = 0
    for kind, e, spec, v, log, qi in pending:
        alias = ch.mapper_alias(t).get(e.name, e.name)
        if kind == "collision-reported":
            collisions_expected += 1
            continue
        ans = answers[qi]
        if not ans.startswith("ok "):
            ctx.broken.append(f"driver:{ans[:80]}")
            continue
        if kind == "treesize":
            total = sum(log.method_calls.values())
            if ans[3:] != str(total):
                n_dis += 1
                ctx.broken.append(f"correspondence:uncached-invocations:{e.name}:{spec}:{total}!={ans[3:]}")
            continue
        model = set(heapser.parse_ids(ans[3:]))
        real = {v.index[i] for i in log.method_calls if i in v.index}
        foreign = [i for i in log.method_calls if i not in v.index]
        multi = {v.index[i]: c for (_, i), c in log.instance_calls.items() if c > 1 and i in v.index}
        if e.cached and multi and not has_duplicates(v):
            n_dis += 1
            worst = max(multi.items(), key=lambda p: p[1])
            ctx.violation(f"mapper-revisits:{alias}",
                          f"{e.name} invoked its per-node method {worst[1]} times on one {v.kind(worst[0])} node "
                          f"({len(multi)} nodes visited more than once) on {spec}; the model visits each node once",
                          {"check": "traversal", "mapper": e.name, "graph": spec,
                           "invocations": {str(k): c for k, c in sorted(multi.items())[:20]}})
            continue
        if has_duplicates(v) and e.cached:
            # id-keyed or collision-tolerant mapper on a graph with duplicates: every visited object
            # must be a node of the graph; objects of one structural class may be visited once each or
            # once per class — compare by class
            real_c = {v.cls[i] for i in real}
            model_c = {v.cls[i] for i in model}
            ok = real_c == model_c and not foreign
        else:
            ok = real == model and not foreign
        if not ok:
            n_dis += 1
            missing = sorted(model - real)
            extra = sorted(real - model)
            if missing and not has_duplicates(v):
                i = missing[0]
                ctx.violation(f"mapper-skips-node:{alias}:{v.kind(i)}",
                              f"{e.name} never invoked its method on a reachable {v.kind(i)} node of {spec} "
                              f"({len(missing)} nodes missed) although its table row follows the edges to it",
                              {"check": "traversal", "mapper": e.name, "graph": spec,
                               "missed": [f"{j}:{v.kind(j)}" for j in missing[:20]]})
            else:
                ctx.broken.append(f"correspondence:visited-set:{e.name}:{spec}:missing={missing[:5]}:extra={extra[:5]}"
                                  f":foreign={len(foreign)}")
    ctx.note_batch("traversals", n_cases, n_dis, exhaustive=False, graphs=dist,
                   mappers=len(entries), collisions_reported=collisions_expected)
    return collisions_expected


def check_collisions(ctx, t: ch.Tables):
    """a cache-key collision between distinct equal nodes must be REPORTED when
    err_on_collision is on — never a silently shared (or silently separate) result"""
    graph = build_graph({"family": "diamond", "dup": True})
    n = bad = 0
    for e in t.entries:
        if e.make is None or e.family not in ("transform", "analysis"):
            continue
        inst = e.make()
        cache = getattr(inst, "_cache", None)
        if cache is None or not getattr(cache, "err_on_collision", False):
            continue
        try:
            key_is_expr = inst.get_cache_key(graph) is graph
        except Exception:   # noqa: BLE001
            continue
        if not key_is_expr:
            continue
        n += 1
        try:
            with time_limit(TRAVERSAL_LIMIT_S):
                inst(graph)
            raised = None
        except Exception as ex:   # noqa: BLE001
            raised = ex
        if raised is None or "collision" not in str(raised):
            refused = ch.refused_kinds(t, e.name)
            if raised is not None and type(raised).__name__ in refused.values():
                continue
            bad += 1
            ctx.violation(f"collision-hidden:{e.name}",
                          f"{e.name} (err_on_collision on, cache keyed by equality) mapped a graph with two distinct "
                          f"equal nodes without reporting the cache-key collision (got: {raised!r})",
                          {"check": "collision", "mapper": e.name, "graph": {"family": "diamond", "dup": True}})
    ctx.note_batch("collision-reporting", n, bad, exhaustive=True)


TRANSFORMS = ["CopyMapper", "CopyMapperWithExtraArgs", "Deduplicator", "CachedMapAndCopyMapper",
              "DataWrapperDeduplicator", "fn:deduplicate", "fn:map_and_copy", "fn:deduplicate_data_wrappers"]


def check_transforms(ctx, t: ch.Tables):
    """identity, sharing, created-node counts of the transformation mappers vs `runTransform`"""
    import pytato as pt
    import pytato.transform as ptf
    from pytato.array import IndexLambda
    from ..gen.kinds import VBarTag
    entries = {e.name: e for e in t.entries}
    specs = [s for s in graph_specs(ctx)]
    queries, pending = [], []
    n = dis = 0
    for spec in specs:
        graph = build_graph(spec)
        v = heapser.view(graph)
        in_ids = set(v.index)
        dups = has_duplicates(v)
        kinds_present = {v.kind(i) for i in range(len(v.nodes))}
        for name in TRANSFORMS:
            e = entries[name]
            refused = ch.refused_kinds(t, name)
            if any(k in kinds_present for k in refused):
                continue
            tolerant = name in ("Deduplicator", "fn:deduplicate")
            if dups and not tolerant:
                continue       # must report the collision: check_collisions
            try:
                with time_limit(TRAVERSAL_LIMIT_S):
                    res = e.run(graph) if e.make is None else e.make()(graph)
            except TraversalTimeout:
                dis += 1
                ctx.violation(f"mapper-retraverses:{ch.mapper_alias(t).get(name, name)}",
                              f"{name} did not finish {spec} within {TRAVERSAL_LIMIT_S:.0f} s",
                              {"check": "transform", "mapper": name, "graph": spec})
                continue
            except Exception as ex:   # noqa: BLE001
                dis += 1
                ctx.violation(f"mapper-raises:{ch.mapper_alias(t).get(name, name)}:{type(ex).__name__}",
                              f"{name} raised {type(ex).__name__}: {str(ex)[:200]} on {spec}",
                              {"check": "transform", "mapper": name, "graph": spec})
                continue
            n += 1
            if name in ("DataWrapperDeduplicator", "fn:deduplicate_data_wrappers"):
                # merges wrappers of the same buffer: compared with the model only where no two
                # wrappers share a buffer (then it is an identity transformation)
                bufs = [n_.data.__array_interface__["data"] for n_ in v.nodes
                        if type(n_).__name__ == "DataWrapper"]
                if len(bufs) != len(set(bufs)):
                    continue
            rv = heapser.view(res)
            created = sum(1 for i in rv.index if i not in in_ids)
            excl = ch.exclusions_for(t, name)
            pending.append((name, spec, v, res is graph, len(rv.nodes), created,
                            bool(duplicates_within_namespace(rv)), len(queries)))
            queries.append(f"(mapper transform {v.sexp()} {v.root} {heapser.excl(excl)} id)")
        # a transformation that does change something: tag every IndexLambda with a fresh tag
        if not dups and "Call" not in kinds_present:
            def add_tag(expr):
                return expr.tagged(VBarTag()) if isinstance(expr, IndexLambda) else expr
            try:
                with time_limit(TRAVERSAL_LIMIT_S):
                    res = ptf.map_and_copy(graph, add_tag)
            except Exception as ex:   # noqa: BLE001
                dis += 1
                ctx.violation(f"mapper-raises:CachedMapAndCopyMapper:{type(ex).__name__}",
                              f"map_and_copy(tag every IndexLambda) raised {type(ex).__name__}: {str(ex)[:200]} on {spec}",
                              {"check": "transform-tag", "graph": spec})
                continue
            n += 1
            rv = heapser.view(res)
            created = sum(1 for i in rv.index if i not in in_ids)
            excl = ch.exclusions_for(t, "CachedMapAndCopyMapper")
            pending.append(("map_and_copy:tag", spec, v, res is graph, len(rv.nodes), created,
                            has_duplicates(rv), len(queries)))
            queries.append(f"(mapper transform {v.sexp()} {v.root} {heapser.excl(excl)} (tag IndexLambda VBarTag))")
    # a transformation that makes UNEQUAL inputs EQUAL (drops a tag): equal results must be one and
    # the same (first-seen) object — `TransformMapperCache.add`
    for depth in ((3, 8) if not ctx.thorough else (3, 8, 20, 40)):
        spec = {"family": "untag_ladder", "depth": depth}
        graph = untag_ladder(depth)
        v = heapser.view(graph)
        in_ids = set(v.index)

        def drop_tag(expr):
            if isinstance(expr, pt.Array) and expr.tags_of_type(VBarTag):
                return expr.without_tags(VBarTag())
            return expr
        try:
            with time_limit(TRAVERSAL_LIMIT_S):
                res = ptf.map_and_copy(graph, drop_tag)
        except Exception as ex:   # noqa: BLE001
            dis += 1
            ctx.violation(f"mapper-raises:CachedMapAndCopyMapper:{type(ex).__name__}",
                          f"map_and_copy(drop a tag) raised {type(ex).__name__}: {str(ex)[:200]} on {spec}",
                          {"check": "transform-untag", "graph": spec})
            continue
        n += 1
        rv = heapser.view(res)
        created = sum(1 for i in rv.index if i not in in_ids)
        excl = ch.exclusions_for(t, "CachedMapAndCopyMapper")
        pending.append(("map_and_copy:untag", spec, v, res is graph, len(rv.nodes), created,
                        bool(duplicates_within_namespace(rv)), len(queries)))
        queries.append(f"(mapper transform {v.sexp()} {v.root} {heapser.excl(excl)} (untag VBarTag))")
    answers = common.driver_query_parallel(queries)
    for name, spec, v, same, rnodes, created, rdups, qi in pending:
        a = answers[qi]
        if not a.startswith("ok "):
            ctx.broken.append(f"driver:{a[:80]}")
            continue
        parts = a[3:].split(" ", 4)
        m_size, m_root, m_nodes, m_reused = int(parts[0]), parts[1], int(parts[2]), int(parts[3])
        m_created = m_size - len(v.nodes)
        m_same = m_root == str(v.root)
        alias = "CachedMapAndCopyMapper" if name.startswith("map_and_copy:") else ch.mapper_alias(t).get(name, name)
        problems = []
        if same != m_same and not duplicates_cross_namespace(v):
            problems.append(f"result is argument: real {same}, model {m_same}")
        if rnodes != m_nodes and not duplicates_cross_namespace(v):
            # the model has one result cache; the code has one per namespace (function body): equal
            # nodes of two different bodies are, by design, not merged
            problems.append(f"distinct result nodes: real {rnodes}, model {m_nodes}")
        if created != m_created and not has_duplicates(v):
            # with duplicates, WHICH of two equal nodes is met first (and therefore how many parents
            # are rebuilt) depends on the traversal order of mappings; the number of distinct result
            # nodes does not
            problems.append(f"created nodes: real {created}, model {m_created}")
        if rnodes > len(v.nodes):
            problems.append(f"result has more distinct nodes ({rnodes}) than the input ({len(v.nodes)})")
        if name == "map_and_copy:untag" and rdups:
            problems.append("the result contains structurally equal distinct nodes: equal results of different "
                            "inputs were not replaced by the first-seen instance")
        if name in ("Deduplicator", "fn:deduplicate") and rdups:
            problems.append("result of deduplicate still contains structurally equal distinct nodes "
                            "within one namespace")
        if problems:
            dis += 1
            if not has_duplicates(v) and not same and m_same and "tag" not in name:
                ctx.violation(f"transform-not-identity:{alias}",
                              f"{name} on a duplicate-free graph ({spec}) did not return its argument itself: "
                              + "; ".join(problems),
                              {"check": "transform", "mapper": name, "graph": spec, "problems": problems})
            elif rnodes > m_nodes or created > m_created or (name == "map_and_copy:untag" and rdups):
                ctx.violation(f"transform-loses-sharing:{alias}",
                              f"{name} on {spec}: " + "; ".join(problems) + " — equal results are not mapped to one "
                              "and the same (first-seen) object",
                              {"check": "transform", "mapper": name, "graph": spec, "problems": problems})
            else:
                ctx.broken.append(f"correspondence:transform:{name}:{spec}:{problems}")
    ctx.note_batch("transforms", n, dis, exhaustive=False)


def check_pair_mappers(ctx):
    """EqualityComparer / Reprifier / hash are memoised too: deep ladders must finish"""
    depth = 60
    n = bad = 0
    a, b = dags.ladder(depth), dags.ladder(depth)
    for what, fn in (("EqualityComparer", lambda: a == b), ("hash", lambda: hash(a) == hash(b)),
                     ("Reprifier", lambda: len(repr(a)) > 0)):
        n += 1
        try:
            with time_limit(TRAVERSAL_LIMIT_S):
                ok = fn()
        except TraversalTimeout:
            bad += 1
            ctx.violation(f"mapper-retraverses:{what}",
                          f"{what} on two equal ladders of depth {depth} did not finish within "
                          f"{TRAVERSAL_LIMIT_S:.0f} s (2^{depth} paths: sub-comparisons are not memoised)",
                          {"check": "pair", "what": what, "depth": depth})
            continue
        if not ok:
            bad += 1
            ctx.broken.append(f"correspondence:{what}:equal-ladders-compare-unequal")
    ctx.note_batch("pair-mappers-on-ladders", n, bad, exhaustive=True)


def check_model_sanity(ctx):
    """the heap the serialiser emits satisfies the theorems' hypothesis (WFHeap), and the
    memoised model value equals the tree recursion where the latter is feasible"""
    qs, metas = [], []
    for spec in ({"family": "diamond"}, {"family": "ladder", "depth": 8}, {"family": "every_edge", "dedup": True},
                 {"family": "all_kinds", "dedup": True}, {"family": "ladder", "depth": 60}):
        v = heapser.view(build_graph(spec))
        qs.append(f"(mapper wf {v.sexp()})")
        metas.append(("wf", spec, v))
        qs.append(f"(mapper cachedsize {v.sexp()} {v.root} ())")
        metas.append(("cached", spec, v))
        if len(v.nodes) < 60 and spec.get("depth", 0) <= 8:
            qs.append(f"(mapper treesize {v.sexp()} {v.root} ())")
            metas.append(("tree", spec, v))
    ans = common.driver_query(qs)
    bad = 0
    cached: dict[str, str] = {}
    for (kind, spec, v), a in zip(metas, ans):
        if kind == "wf" and a != "ok #t":
            bad += 1
            ctx.broken.append(f"hypothesis:WFHeap-fails-on-serialised-heap:{spec}")
        if kind == "cached":
            cached[json.dumps(spec)] = a[3:].split(" ")[0]
            if a[3:].split(" ")[1] != str(len(v.nodes)):
                bad += 1
                ctx.broken.append(f"model:log-length:{spec}:{a}")
        if kind == "tree" and a[3:] != cached[json.dumps(spec)]:
            bad += 1
            ctx.broken.append(f"model:cached!=tree:{spec}")
    # depth-60 ladder: the tree has 2^61-ish nodes; the memoised evaluation gives the exact number
    ctx.sample({"ladder60_tree_size_from_memoised_model": cached.get(json.dumps({"family": "ladder", "depth": 60}))})
    ctx.note_batch("model-sanity", len(qs), bad, exhaustive=True)



# --------------------------------------------------------------------------
# nested, shared functions: every body exactly once per mapper run
# --------------------------------------------------------------------------

def nested_specs(ctx) -> list[dict]:
    specs = [{"family": "nested_calls", "depth": 1, "order": "outer-first", "repeat": 2}]
    for depth in (2, 3):
        for order in ("outer-first", "inner-first", "mixed"):
            specs.append({"family": "nested_calls", "depth": depth, "order": order, "repeat": 2})
    specs.append({"family": "nested_calls", "depth": 3, "order": "outer-first", "repeat": 3})
    if ctx.thorough:
        specs += [{"family": "nested_calls", "depth": d, "order": o, "repeat": r}
                  for d in (2, 3) for o in ("outer-first", "inner-first", "mixed") for r in (1, 3)]
    return specs


def _fn_name(v: heapser.HeapView, ns_tag: int) -> str:
    from pytato.tags import FunctionIdentifier
    if ns_tag < 0:
        return "<outer>"
    tags = [tg for tg in v.nodes[ns_tag].tags if isinstance(tg, FunctionIdentifier)]
    return str(tags[0].identifier) if tags else f"fn#{ns_tag}"


def check_function_bodies(ctx, t: ch.Tables):
    """Traced functions calling traced functions, the same definition called from several bodies and
    from top level, in both visiting orders: a mapper that enters function bodies (through clones made
    by `clone_for_callee`, instrumented at class level, one shared log) must invoke its per-node
    method exactly ONCE per mapper run on every node of every body and on every FunctionDefinition."""
    alias_of = ch.mapper_alias(t)
    entries = []
    for e in t.entries:
        if e.family not in ("transform", "analysis") or not e.cached:
            continue
        if e.name in t.skips or alias_of.get(e.name, e.name) in t.skips:
            continue
        if {"Call", "FunctionDefinition", "NamedCallResult"} & set(ch.refused_kinds(t, e.name)):
            continue
        entries.append(e)
    queries, pend = [], []
    n = dis = 0
    for spec in nested_specs(ctx):
        graph = build_graph(spec)
        v = heapser.view(graph)
        ns = namespaces(v)
        shared = [i for i, s_ in enumerate(ns) if len(s_) > 1 and v.kind(i) != "FunctionDefinition"]
        assert not shared, f"generator shares arrays between namespaces: {shared[:3]}"
        for e in entries:
            alias = alias_of.get(e.name, e.name)
            log, res, err, secs = run_mapper(e, graph)
            n += 1
            if err is not None:
                dis += 1
                if err == "TIMEOUT":
                    ctx.violation(f"mapper-revisits-function-body:{alias}",
                                  f"{e.name} did not finish nested shared functions ({spec}, {len(v.nodes)} nodes) within "
                                  f"{TRAVERSAL_LIMIT_S:.0f} s — bodies are traversed once per call site",
                                  {"check": "function-bodies", "mapper": e.name, "graph": spec,
                                   "rec_calls_before_timeout": len(log.pairs)})
                elif "collision" in str(err) and not duplicates_within_namespace(v):
                    ctx.violation(f"mapper-cross-namespace-collision:{alias}",
                                  f"{e.name} reports a cache collision on {spec} although no namespace contains two equal "
                                  f"nodes: it maps a function body with the CALLER's array cache, so the (equal, e.g. "
                                  f"`in__pt_0`) parameter placeholders of two different functions collide",
                                  {"check": "function-bodies", "mapper": e.name, "graph": spec,
                                   "error": f"{type(err).__name__}: {str(err)[:200]}"})
                else:
                    ctx.violation(f"mapper-raises:{alias}:{type(err).__name__}",
                                  f"{e.name} raised {type(err).__name__}: {str(err)[:160]} on {spec}",
                                  {"check": "function-bodies", "mapper": e.name, "graph": spec})
                continue
            counts = {v.index[i]: c for i, c in log.method_calls.items() if i in v.index}
            multi = {i: c for i, c in counts.items() if c > 1}
            in_body = {i: c for i, c in multi.items() if -1 not in ns[i] or v.kind(i) == "FunctionDefinition"}
            if in_body:
                dis += 1
                i, c = max(in_body.items(), key=lambda p_: p_[1])
                where = _fn_name(v, i if v.kind(i) == "FunctionDefinition" else min(ns[i]))
                ctx.violation(f"mapper-revisits-function-body:{alias}",
                              f"{e.name} on {spec}: per-node method invoked {c} times on a {v.kind(i)} node of function "
                              f"'{where}' ({len(in_body)} body nodes / definitions visited more than once in one mapper "
                              f"run; the definition is called from {sum(1 for k in range(len(v.nodes)) if v.kind(k) == 'Call')} "
                              f"call sites) — each body must be traversed once",
                              {"check": "function-bodies", "mapper": e.name, "graph": spec,
                               "invocations": {f"{k}:{v.kind(k)}@{_fn_name(v, k if v.kind(k) == 'FunctionDefinition' else min(ns[k]))}": c_
                                               for k, c_ in sorted(in_body.items())[:25]}})
                continue
            if multi:
                dis += 1
                i, c = max(multi.items(), key=lambda p_: p_[1])
                ctx.violation(f"mapper-revisits:{alias}",
                              f"{e.name} on {spec}: per-node method invoked {c} times on an outer {v.kind(i)} node",
                              {"check": "function-bodies", "mapper": e.name, "graph": spec})
                continue
            excl = ch.exclusions_for(t, e.name)
            pend.append((e, spec, v, ns, set(counts), len(queries)))
            queries.append(model_log(v, excl))
    answers = common.driver_query_parallel(queries)
    for e, spec, v, ns, real, qi in pend:
        alias = alias_of.get(e.name, e.name)
        model = set(heapser.parse_ids(answers[qi][3:]))
        if real != model:
            dis += 1
            missing = sorted(model - real)
            if missing:
                i = missing[0]
                ctx.violation(f"mapper-skips-function-body:{alias}",
                              f"{e.name} on {spec}: never invoked its method on a {v.kind(i)} node of function "
                              f"'{_fn_name(v, i if v.kind(i) == 'FunctionDefinition' else min(ns[i]))}' "
                              f"({len(missing)} reachable nodes not visited; the model and the reflective walk reach them)",
                              {"check": "function-bodies", "mapper": e.name, "graph": spec,
                               "missed": [f"{j}:{v.kind(j)}" for j in missing[:20]]})
            else:
                ctx.broken.append(f"correspondence:function-bodies:{e.name}:{spec}:extra={sorted(real - model)[:5]}")
    ctx.note_batch("nested-shared-functions", n, dis, exhaustive=False,
                   graphs=len(nested_specs(ctx)), mappers=[e.name for e in entries])


# --------------------------------------------------------------------------
# two distinct inputs with equal results, the later one shared by several users
# --------------------------------------------------------------------------

def twin_specs(ctx) -> list[dict]:
    specs = []
    for mode in ("tag", "dup"):
        for order in ("plain-first", "twin-first"):
            specs.append({"family": "twin", "mode": mode, "order": order, "fan": 3, "levels": 2})
            specs.append({"family": "twin", "mode": mode, "order": order, "fan": 2, "levels": 3})
            if ctx.thorough:
                specs += [{"family": "twin", "mode": mode, "order": order, "fan": f_, "levels": l_}
                          for f_, l_ in ((1, 4), (4, 1), (5, 3), (3, 6))]
    return specs


def _twin_mappers(mode: str):
    """(signature name, table row for the edge selection, constructor, call)"""
    import pytato as pt
    import pytato.transform as ptf
    from ..gen.kinds import VBarTag

    def strip(expr):
        if isinstance(expr, pt.Array) and expr.tags_of_type(VBarTag):
            return expr.without_tags(VBarTag())
        return expr

    class IdKeyedMapAndCopy(ptf.CachedMapAndCopyMapper):
        """as users subclass it: cache keyed by object identity"""
        def get_cache_key(self, expr):
            return id(expr)

        def clone_for_callee(self, function):
            return type(self)(self.map_fn, _function_cache=self._function_cache)

    class IdKeyedCopy(ptf.CopyMapper):
        def get_cache_key(self, expr):
            return id(expr)

    class IdKeyedCopyWithArgs(ptf.CopyMapperWithExtraArgs):
        def get_cache_key(self, expr, *args):
            return (id(expr), args)
    for c in (IdKeyedMapAndCopy, IdKeyedCopy, IdKeyedCopyWithArgs):
        c.__name__ = c.__bases__[0].__name__
    call1 = lambda inst, g: inst(g)                       # noqa: E731
    if mode == "tag":
        return [("CachedMapAndCopyMapper", "CachedMapAndCopyMapper", lambda: ptf.CachedMapAndCopyMapper(strip), call1,
                 "(untag VBarTag)"),
                ("CachedMapAndCopyMapper[id-keyed]", "CachedMapAndCopyMapper", lambda: IdKeyedMapAndCopy(strip), call1,
                 "(untag VBarTag)")]
    return [("Deduplicator", "Deduplicator", ptf.Deduplicator, call1, "id"),
            ("CopyMapper[id-keyed]", "CopyMapper", IdKeyedCopy, call1, "id"),
            ("CopyMapperWithExtraArgs[id-keyed]", "CopyMapperWithExtraArgs", IdKeyedCopyWithArgs,
             lambda inst, g: inst(g, 7), "id"),
            ("CachedMapAndCopyMapper[id-keyed]", "CachedMapAndCopyMapper", lambda: IdKeyedMapAndCopy(lambda x: x), call1,
             "id")]


def _parallel_images(a, b) -> dict[int, set[int]]:
    """walk input and result graph side by side (same labels): which result objects stand where the
    input object stood — read off the RESULT GRAPH, independent of the mapper's cache"""
    out: dict[int, set[int]] = {}
    seen: set[tuple[int, int]] = set()
    st = [(a, b)]
    while st:
        x, y = st.pop()
        if (id(x), id(y)) in seen:
            continue
        seen.add((id(x), id(y)))
        out.setdefault(id(x), set()).add(id(y))
        cx = reflect.children(x, into_functions=True)
        cy = reflect.children(y, into_functions=True)
        if [lb for lb, _ in cx] != [lb for lb, _ in cy]:
            out.setdefault(id(x), set()).add(-1)        # structure changed
            continue
        st += [(c1, c2) for (_, c1), (_, c2) in zip(cx, cy)]
    return out


def check_result_sharing(ctx, t: ch.Tables):
    """`TransformMapperCache.add` with sharing: every use of a shared input node — first use (cache miss)
    and later uses (cache hits) alike — must get ONE and the same result object; equal results of
    different inputs must be one object; no more distinct nodes than given."""
    import pytato.transform as ptf
    queries, pend = [], []
    n = dis = 0
    for spec in twin_specs(ctx):
        graph = build_graph(spec)
        v = heapser.view(graph)
        for name, row, make, call, mode_q in _twin_mappers(spec["mode"]):
            base = name.split("[")[0]
            inst = ch.instrument(make())
            log = ch.CallLog()
            n += 1
            try:
                with ch.logging_to(log), time_limit(TRAVERSAL_LIMIT_S):
                    res = call(inst, graph)
            except Exception as ex:    # noqa: BLE001
                dis += 1
                ctx.violation(f"mapper-raises:{base}:{type(ex).__name__}",
                              f"{name} raised {type(ex).__name__}: {str(ex)[:160]} on {spec}",
                              {"check": "result-sharing", "mapper": name, "graph": spec})
                continue
            rv = heapser.view(res)
            problems = []
            # (a) the instrumented old -> new map: all uses of one input object
            split = {i: {id(r) for r in rs} for i, rs in log.rec_results.items() if len({id(r) for r in rs}) > 1}
            split = {v.index[i]: s_ for i, s_ in split.items() if i in v.index}
            # (b) the same, read off the result graph
            imgs = _parallel_images(graph, res)
            split_g = {v.index[i]: s_ for i, s_ in imgs.items() if len(s_) > 1 and i in v.index}
            if split or split_g:
                i = sorted(set(split) | set(split_g))[0]
                users = sorted({p for p in range(len(v.nodes)) for _, _, j in v.edges[p] if j == i})
                problems.append(
                    f"the {len(users)} uses of one shared {v.kind(i)} input node were mapped to "
                    f"{len(split.get(i, ())) or len(split_g.get(i, ()))} different result objects "
                    f"({len(set(split) | set(split_g))} input nodes affected)")
                sig = f"transform-splits-shared-node:{base}"
            # (c) no equal-but-distinct nodes in the result
            rd = duplicates_within_namespace(rv)
            collision = None
            try:
                ptf.CopyMapper()(res)
            except ValueError as ex:
                collision = str(ex)[:100]
            if (rd or collision) and not problems:
                sig = f"transform-leaves-duplicates:{base}"
            if rd or collision:
                problems.append(f"the result contains {len(rd)} equal-but-distinct node pairs"
                                + (f"; a default CopyMapper over it reports: {collision}" if collision else ""))
            # (d) never more distinct nodes than given
            if len(rv.nodes) > len(v.nodes):
                if not problems:
                    sig = f"transform-creates-nodes:{base}"
                problems.append(f"{len(rv.nodes)} distinct result objects for {len(v.nodes)} distinct input objects")
            if problems:
                dis += 1
                ctx.violation(sig, f"{name} on {spec}: " + "; ".join(problems),
                              {"check": "result-sharing", "mapper": name, "graph": spec, "problems": problems,
                               "split_by_cache_log": {f"{k}:{v.kind(k)}": len(s_) for k, s_ in sorted(split.items())[:10]},
                               "split_in_result_graph": {f"{k}:{v.kind(k)}": len(s_) for k, s_ in sorted(split_g.items())[:10]},
                               "expected": "one result object per input node, duplicate-free result"})
                continue
            excl = ch.exclusions_for(t, row)
            pend.append((name, spec, v, len(rv.nodes), len(queries)))
            queries.append(f"(mapper transform {v.sexp()} {v.root} {heapser.excl(excl)} {mode_q})")
    answers = common.driver_query_parallel(queries)
    for name, spec, v, rnodes, qi in pend:
        m_nodes = int(answers[qi][3:].split(" ", 4)[2])
        if rnodes != m_nodes:
            dis += 1
            base = name.split("[")[0]
            if rnodes > m_nodes:
                ctx.violation(f"transform-loses-sharing:{base}",
                              f"{name} on {spec}: {rnodes} distinct result nodes, the model (first-seen equal result "
                              f"reused) has {m_nodes}",
                              {"check": "result-sharing", "mapper": name, "graph": spec})
            else:
                ctx.broken.append(f"correspondence:result-sharing:{name}:{spec}:real={rnodes}:model={m_nodes}")
    ctx.note_batch("result-dedup-with-sharing", n, dis, exhaustive=False, graphs=len(twin_specs(ctx)))


# --------------------------------------------------------------------------
# single-edge replacement: a mapped child must end up in the result
# --------------------------------------------------------------------------

def edge_sig(label: str) -> str:
    """edge label without positions / binding names: `csr:row_starts`, `operand:arrays`, `bind`, `index` …"""
    p = label.split(":")
    if p[0] in ("bind", "entry", "ret"):
        return p[0]
    return ":".join(x for x in p if not x.isdigit())


def reflective_subst(root, subst: dict):
    """`root` with every node whose id is in `subst` replaced — by reflection, never a mapper"""
    memo: dict[int, Any] = {}

    def cp(n):
        if id(n) in subst:
            return subst[id(n)]
        if id(n) in memo:
            return memo[id(n)]
        new = n
        for label, c in reflect.children(n, into_functions=True):
            cc = cp(c)
            if cc is not c:
                new = probes.replace_child(new, label, cc)
        memo[id(n)] = new
        return new
    return cp(root)


def _same_structure(a, b) -> bool:
    """reflective structural comparison (data wrappers: same buffer object and same fields — pytato's
    `==` treats two rebuilt wrappers of one buffer as different)"""
    from pytato.array import DataWrapper
    seen: set[tuple[int, int]] = set()
    st = [(a, b)]
    while st:
        x, y = st.pop()
        if x is y or (id(x), id(y)) in seen:
            continue
        seen.add((id(x), id(y)))
        if type(x) is not type(y):
            return False
        if isinstance(x, DataWrapper):
            if x.data is not y.data or x.tags != y.tags or x.axes != y.axes or x.name != y.name:
                return False
        elif heapser.attr_key(x) != heapser.attr_key(y):
            return False
        cx = reflect.children(x, into_functions=True)
        cy = reflect.children(y, into_functions=True)
        if [lb for lb, _ in cx] != [lb for lb, _ in cy]:
            return False
        st += [(c1, c2) for (_, c1), (_, c2) in zip(cx, cy)]
    return True


def _replacement_for(child):
    try:
        return probes.fresh_like(child)
    except TypeError:
        return ch.different_from(child)


def _substituting_runs(t: ch.Tables):
    """(signature name, table row, run(graph, subst) -> result).  `subst`: id(old) -> new.
    Every transform mapper CLASS of the table is subclassed so that `rec` returns the replacement for a
    substituted node (what a user-written rewrite does); map_and_copy additionally the public way."""
    import pytato.transform as ptf
    runs = []

    def by_subclass(make):
        def run(graph, subst):
            inst = make()
            base = type(inst)

            class Substituting(base):   # type: ignore[misc,valid-type]
                def rec(self, expr, *a, **kw):
                    r = subst.get(id(expr))
                    return r if r is not None else super().rec(expr, *a, **kw)

                def rec_function_definition(self, expr, *a, **kw):
                    r = subst.get(id(expr))
                    return r if r is not None else super().rec_function_definition(expr, *a, **kw)
            Substituting.__name__ = base.__name__
            inst.__class__ = Substituting
            return inst(graph)
        return run
    for e in t.entries:
        if e.transform and e.make is not None:
            runs.append((e.name, e.name, by_subclass(e.make)))
    runs.append(("CachedMapAndCopyMapper[map_fn]", "CachedMapAndCopyMapper",
                 lambda g, subst: ptf.CachedMapAndCopyMapper(lambda x: subst.get(id(x), x))(g)))
    runs.append(("map_and_copy", "CachedMapAndCopyMapper",
                 lambda g, subst: ptf.map_and_copy(g, lambda x: subst.get(id(x), x))))
    return runs


def _edge_sets(labels: list[str]) -> list[tuple[str, ...]]:
    sets = [(lb,) for lb in labels]
    pairs = [(a, b) for i, a in enumerate(labels) for b in labels[i + 1:]]
    return sets + pairs[:6]


def replacement_case(t: ch.Tables, kinds_all: dict, name: str, row: str, run, kind: str, labels: tuple[str, ...]):
    """one case -> None (fine) | ("skip", why) | ("violation", signature, what, details)"""
    node = kinds_all[kind]
    kids = dict(reflect.children(node, into_functions=True))
    kclass = type(node).__name__
    excl = set(ch.exclusions_for(t, row))
    if any((kclass, probes.edge_class(lb)) in excl for lb in labels):
        return ("skip", "edge class the mapper is known (table) not to follow")
    try:
        subst_objs = {lb: _replacement_for(kids[lb]) for lb in labels}
    except TypeError:
        return ("skip", "no replacement for this child")
    if len({id(kids[lb]) for lb in labels}) != len(labels):
        return ("skip", "edges share a child")
    subst = {id(kids[lb]): subst_objs[lb] for lb in labels}
    if name.endswith("[map_fn]") or name == "map_and_copy":
        if any(probes.edge_class(lb) == "function" for lb in labels):
            return ("skip", "map_fn is applied to arrays and containers, not to function definitions")
    # what the result must be, by reflection: the substitution applied EVERYWHERE the child occurs
    # (also validates that the replacement is admissible)
    try:
        expected = reflective_subst(node, subst)
    except Exception as ex:    # noqa: BLE001
        return ("skip", f"replacement not admissible: {type(ex).__name__}")
    refused = ch.refused_kinds(t, row)
    try:
        with time_limit(TRAVERSAL_LIMIT_S):
            res = run(node, subst)
    except Exception as ex:    # noqa: BLE001
        if type(ex).__name__ in refused.values():
            return ("skip", "mapper refuses a kind of this probe")
        return ("violation", f"mapper-raises:{name.split('[')[0]}:{type(ex).__name__}",
                f"{name} raised {type(ex).__name__}: {str(ex)[:160]} when the child at {labels} of a {kclass} is replaced",
                {"error": str(ex)[:300]})
    got = dict(reflect.children(res, into_functions=True)) if reflect._is_node(res) else {}
    problems = []
    dropped = None
    for lb, c in kids.items():
        if lb in subst_objs:
            if got.get(lb) is not subst_objs[lb]:
                problems.append(f"edge {lb} points to {describe(got.get(lb), 0) if lb in got else 'nothing'} "
                                f"{'(the OLD child)' if got.get(lb) is c else ''} instead of the replacement")
                dropped = dropped or lb
        elif got.get(lb) is not c and not any(id(x) in subst for x in reflect.walk(c, into_functions=True)):
            problems.append(f"edge {lb}: an unchanged child was not kept as the same object")
    still = [lb for lb in labels if any(x is kids[lb] for x in reflect.walk(res, into_functions=True))] \
        if reflect._is_node(res) else list(labels)
    if still:
        problems.append(f"the replaced child of {still} is still reachable from the result")
        dropped = dropped or still[0]
    if not problems and not _same_structure(res, expected):
        problems.append("the result differs structurally from the node rebuilt by reflection")
    if problems:
        lb = dropped or labels[0]
        return ("violation", f"transform-drops-replaced-child:{name.split('[')[0]}:{kclass}:{edge_sig(lb)}",
                f"{name}: replacing ONLY the child at {list(labels)} of a {kclass} node — " + "; ".join(problems)
                + " (the mapped child was computed and discarded, or the node was not rebuilt)",
                {"problems": problems})
    return ("ok", res)


def check_edge_replacement(ctx, t: ch.Tables):
    """for every transform mapper, every node kind and every edge: replace exactly that child (then
    pairs of children; first / middle / last for n-ary kinds) and look at the real result"""
    kinds_all = dict(t.kinds)
    kinds_all.update(probes.nary_probe_nodes())
    runs = _substituting_runs(t)
    n = dis = skipped = 0
    queries, pend = [], []
    for kind, node in kinds_all.items():
        labels = [lb for lb, _ in reflect.children(node, into_functions=True)]
        for name, row, run in runs:
            for labs in _edge_sets(labels):
                out = replacement_case(t, kinds_all, name, row, run, kind, labs)
                if out[0] == "skip":
                    skipped += 1
                    continue
                n += 1
                if out[0] == "violation":
                    dis += 1
                    _, sig, what, details = out
                    ctx.violation(sig, what, dict(details, check="edge-replacement", mapper=name, row=row,
                                                  kind=kind, edges=list(labs),
                                                  probe=describe(node)))
                    continue
                # number of distinct result nodes vs the Lean transform model with the substitution
                res = out[1]
                kids = dict(reflect.children(node, into_functions=True))
                olds = [kids[lb] for lb in labs]
                news = [c for lb, c in reflect.children(res, into_functions=True) if lb in labs]
                v, idx = heapser.view_many([node] + news)
                sub = " ".join(f"({v.index[id(o)]} {v.index[id(r_)]})" for o, r_ in zip(olds, news))
                pend.append((name, kind, labs, len(heapser.view(res).nodes), len(queries)))
                queries.append(f"(mapper transform {v.sexp()} {idx[0]} {heapser.excl(ch.exclusions_for(t, row))} "
                               f"(subst ({sub})))")
    answers = common.driver_query_parallel(queries)
    for name, kind, labs, rnodes, qi in pend:
        a = answers[qi]
        if not a.startswith("ok "):
            ctx.broken.append(f"driver:{a[:60]}")
            continue
        m_nodes = int(a[3:].split(" ", 4)[2])
        if m_nodes != rnodes:
            dis += 1
            ctx.broken.append(f"correspondence:edge-replacement:{name}:{kind}:{labs}:real={rnodes}:model={m_nodes}")
    ctx.note_batch("single-edge-replacement", n, dis, exhaustive=True, skipped=skipped,
                   kinds=len(kinds_all), mappers=[r[0] for r in runs])


# --------------------------------------------------------------------------
# ladders through every edge class, counted at class level
# --------------------------------------------------------------------------

def _tree_size(v: heapser.HeapView) -> int:
    paths = [0] * len(v.nodes)
    for i in range(len(v.nodes)):
        paths[i] = 1 + sum(paths[j] for _, _, j in v.edges[i])
    return paths[v.root]


def check_edge_ladders(ctx, t: ch.Tables):
    """Reconverging ladders THROUGH each edge class (array-valued indices, bindings, stack / concatenate
    operands, where-condition, symbolic shape components, call arguments, send payload / passthrough,
    einsum arguments, remapping chains, CSR parts, containers): 2^depth paths, O(depth) nodes.  Every
    traversal must stay within a LINEAR budget of per-node invocations, counted at class level:
    `==` (EqualityComparer.rec / comparers created, patched on the class), every cached mapper of the
    table (rec calls of all instances, incl. clones and freshly made ones), `deduplicate` of two equal
    copies, and — under a wall-clock guard on depth-40 ladders — hash, pickle, persistent key, repr."""
    import pickle

    import pytato as pt
    import pytato.transform as ptf
    depths = (14,) if not ctx.thorough else (12, 14, 16)
    entries = [e for e in t.entries if e.family in ("transform", "analysis") and e.cached
               and not e.name.startswith("fn:")]
    entries += [e for e in t.entries if e.name in ("fn:deduplicate", "fn:map_and_copy", "fn:get_num_nodes",
                                                   "fn:collect_materialized_nodes", "fn:get_nusers")]
    n = dis = 0
    flagged: set[str] = set()

    def flag(trav, cls, what, details):
        nonlocal dis
        dis += 1
        sig = f"mapper-revisits:{trav}:{cls}"
        if sig in flagged:
            return
        flagged.add(sig)
        ctx.violation(sig, what, dict(details, check="edge-ladder", traversal=trav, edge_class=cls))

    def both(cls, d):
        return dags.edge_ladder(cls, d), dags.edge_ladder(cls, d)
    for cls in dags.EDGE_LADDERS:
        for d in depths:
            g1, g2 = both(cls, d)
            v = heapser.view(g1)
            nn, tree = len(v.nodes), _tree_size(v)
            spec = {"family": "edge_ladder", "edge_class": cls, "depth": d, "nodes": nn, "paths": tree}
            # ---- == on two equal, distinct copies
            n += 1
            budget = 8 * nn + 50
            try:
                with ch.eq_counter(50 * nn + 500) as st, time_limit(TRAVERSAL_LIMIT_S):
                    ok = g1 == g2
            except (ch.BudgetExceeded, TraversalTimeout):
                ok = None
            if ok is None or st["rec"] > budget or st["comparers"] > budget:
                flag("EqualityComparer", cls,
                     f"`==` on two equal copies of a depth-{d} ladder through '{cls}' edges ({nn} nodes, {tree:.1e} paths): "
                     f"{'aborted after ' if ok is None else ''}{st['rec']} EqualityComparer.rec calls by {st['comparers']} "
                     f"comparers (class-level count; linear budget {budget}) — sub-comparisons behind this edge class are "
                     f"not memoised across paths",
                     {"graph": spec, "rec_calls": st["rec"], "comparers": st["comparers"], "budget": budget})
            elif ok is not True:
                ctx.broken.append(f"correspondence:edge-ladder:equal-copies-compare-unequal:{cls}")
            # ---- deduplicate two equal copies (equality-keyed caches go through Array.__eq__ / __hash__)
            n += 1
            c1, c2 = both(cls, d)
            dd = pt.make_dict_of_named_arrays({"a": c1, "b": c2}) if isinstance(c1, pt.Array) else \
                pt.make_dict_of_named_arrays({**{f"a{k}": x for k, x in c1._data.items()},
                                              **{f"b{k}": x for k, x in c2._data.items()}})
            budget = 60 * nn + 500
            try:
                with ch.eq_counter(4 * budget) as st, time_limit(TRAVERSAL_LIMIT_S):
                    res = ptf.deduplicate(dd)
                fin = True
            except (ch.BudgetExceeded, TraversalTimeout):
                fin = False
            except Exception as ex:    # noqa: BLE001
                fin = True
                ctx.broken.append(f"edge-ladder:deduplicate-raises:{cls}:{type(ex).__name__}")
            if not fin or st["rec"] > budget:
                flag("deduplicate", cls,
                     f"deduplicate of two equal copies of a depth-{d} ladder through '{cls}' edges ({2 * nn} nodes): "
                     f"{'aborted after ' if not fin else ''}{st['rec']} EqualityComparer.rec calls (class level; budget "
                     f"{budget})",
                     {"graph": spec, "rec_calls": st["rec"], "budget": budget})
            # ---- every cached mapper of the table
            kinds_present = {v.kind(i) for i in range(nn)}
            for e in entries:
                n += 1
                budget = 20 * nn + 100
                log = ch.CallLog(budget=4 * budget)
                err = None
                try:
                    with ch.logging_to(log), ch.eq_counter(40 * nn + 500) as st, time_limit(TRAVERSAL_LIMIT_S):
                        e.run(g1)
                except (ch.BudgetExceeded, TraversalTimeout) as ex:
                    err = ex
                except Exception as ex:    # noqa: BLE001
                    refused = ch.refused_kinds(t, e.name)
                    if any(k in kinds_present for k in refused) and type(ex).__name__ in refused.values():
                        continue
                    dis += 1
                    ctx.violation(f"mapper-raises:{ch.mapper_alias(t).get(e.name, e.name)}:{type(ex).__name__}",
                                  f"{e.name} raised {type(ex).__name__}: {str(ex)[:160]} on a ladder through '{cls}' edges",
                                  {"check": "edge-ladder", "graph": spec, "mapper": e.name})
                    continue
                multi = sum(1 for c in log.instance_calls.values() if c > 1)
                if err is not None or len(log.pairs) > budget or multi or st["rec"] > budget:
                    alias = ch.mapper_alias(t).get(e.name, e.name)
                    flag(alias, cls,
                         f"{e.name} on a depth-{d} ladder through '{cls}' edges ({nn} nodes, {tree:.1e} paths): "
                         f"{'aborted after ' if err is not None else ''}{len(log.pairs)} rec calls over all instances "
                         f"(budget {budget}), {multi} nodes visited more than once by one instance, {st['rec']} "
                         f"EqualityComparer.rec calls — not linear in the number of nodes",
                         {"graph": spec, "mapper": e.name, "rec_calls": len(log.pairs), "revisited": multi,
                          "eq_rec_calls": st["rec"], "budget": budget})
        # ---- wall-clock guard on a depth-40 ladder: hash, pickle, persistent key, repr
        g = dags.edge_ladder(cls, 40)
        spec = {"family": "edge_ladder", "edge_class": cls, "depth": 40}

        def keyb(x):
            from pytato.analysis import PytatoKeyBuilder
            return PytatoKeyBuilder()(x)
        for trav, fn in (("hash", hash), ("pickle", lambda x: pickle.loads(pickle.dumps(x))),
                         ("PytatoKeyBuilder", keyb), ("Reprifier", repr)):
            if f"mapper-revisits:{trav}:*" in flagged:
                continue
            n += 1
            try:
                with time_limit(5.0):
                    fn(g)
            except TraversalTimeout:
                flag(trav, cls, f"{trav} of a depth-40 ladder through '{cls}' edges did not finish within 5 s "
                                f"(2^40 paths: not per-node)", {"graph": spec})
            except Exception:    # noqa: BLE001 - unsupported kinds are C18's / C04's subject
                pass
    ctx.note_batch("ladders-through-every-edge-class", n, dis, exhaustive=False,
                   edge_classes=list(dags.EDGE_LADDERS), depths=list(depths), mappers=len(entries))

# --------------------------------------------------------------------------

def run(ctx: common.Ctx):
    ctx.assumptions += [
        "structural equality of nodes is pytato's `==` (C04's subject); object identity is id()",
        "a mapper's children are observed by swapping the instance's class for a subclass whose rec() logs and "
        "defers to the original (EqualityComparer / Reprifier: read off their result, see children.py)",
        "a loud refusal of a node kind (NotImplementedError / UnsupportedArrayError) is recorded in the table "
        "(`unsupported`) and is not a C13 violation; C20 reports the analysis functions that refuse valid graphs",
        "WalkMapper is uncached by documentation: compared with the tree recursion on small graphs only",
    ]
    t = ch.regenerate()
    ctx.coverage["generated_tables"] = {
        "lean/PtGen/Children.lean": common.sha256_file(ch.OUT),
        "lean/PtGen/ChildrenWitness.lean": common.sha256_file(ch.OUT_WITNESS)}
    ctx.coverage["table_sizes"] = {
        "mappers": len(t.entries), "probe_kinds": len(t.kinds), "rows": len(t.rows),
        "refusals": len(t.unsupported), "edges": sum(len(v) for v in t.array_edges.values()),
        "scope_exclusions": t.skips, "documented_exclusions": [list(r) for r in t.doc_exclusions]}
    ctx.lean_obligations("PtProofs.C13", THEOREMS, extra_targets=["PtGen.Children", "PtGen.ChildrenWitness"])
    lean_ok = ctx.lean_obligations("PtProofs.C13Tables", TABLE_THEOREMS)
    check_tables(ctx, t, lean_ok)
    check_model_sanity(ctx)
    check_traversals(ctx, t)
    check_collisions(ctx, t)
    from . import c13_flags
    c13_flags.check_flags(ctx)
    check_transforms(ctx, t)
    check_pair_mappers(ctx)
    check_function_bodies(ctx, t)
    check_result_sharing(ctx, t)
    check_edge_replacement(ctx, t)
    check_replacement_below_multi_result_calls(ctx, t)
    check_edge_ladders(ctx, t)
    from . import c13_extra_args
    c13_extra_args.check_extra_args(ctx, build_graph, nested_specs)
    from . import c13_collectors
    c13_collectors.check_collectors(ctx, t)
    from . import c13_named
    c13_named.check_named_members(ctx)
    from . import c13_mapping_order
    c13_mapping_order.check_mapping_order(ctx)
    for th in THEOREMS[:4]:
        ctx.sample({"theorem": th})
    ctx.broken = sorted(set(ctx.broken))[:40]


def replay(ctx, path):
    r = json.loads(open(path).read())
    print(json.dumps({k: r.get(k) for k in ("signature", "what", "check", "mapper", "kind", "label", "graph")},
                     indent=1))
    t = ch.extract()
    entries = {e.name: e for e in t.entries}
    if r.get("check") == "table-miss":
        res = search_missing_edge(t, entries[r["mapper"]], r["kind"], r["label"])
        print("observed on the current tree:", json.dumps(res, indent=1))
        print("expected: reached = true (the reflective walk reaches the node)")
        if r.get("edge_class") == "slice-bound":
            print("consequence:", json.dumps(stale_child_reproducer(), indent=1))
        return 0 if res["reached"] else 1
    if r.get("check") == "traversal":
        e = entries[r["mapper"]]
        graph = build_graph(r["graph"])
        v = heapser.view(graph)
        log, res, err, secs = run_mapper(e, graph)
        multi = sum(1 for c in log.method_calls.values() if c > 1)
        print(f"observed: error={err!r} seconds={secs:.2f} rec_calls={len(log.pairs)} "
              f"nodes_with_method_calls={len(log.method_calls)} visited_more_than_once={multi}")
        print(f"expected: no error, {len(v.nodes)} or fewer nodes each visited exactly once")
        return 1 if (err is not None or multi) else 0
    if r.get("check") in ("function-bodies", "result-sharing", "edge-replacement", "edge-ladder", "flags", "collectors", "named-members", "mapping-order"):
        from . import c13_collectors, c13_flags
        sub = common.Ctx(prop=ctx.prop, tier=ctx.tier, seed=ctx.seed)
        {"function-bodies": check_function_bodies, "result-sharing": check_result_sharing,
         "edge-replacement": check_edge_replacement, "edge-ladder": check_edge_ladders,
         "flags": lambda s_, t_: c13_flags.check_flags(s_),
         "collectors": c13_collectors.check_collectors,
         "mapping-order": lambda s_, t_: __import__("harness.props.c13_mapping_order", fromlist=["x"]).check_mapping_order(s_),
         "named-members": lambda s_, t_: __import__("harness.props.c13_named", fromlist=["x"]).check_named_members(s_)}[r["check"]](sub, t)
        hits = [v_ for v_ in sub.violations if v_["signature"] == r.get("signature")] + \
            ([r["signature"]] if r.get("signature") in sub.known_hit else [])
        print("observed on the current tree:", "still violated" if hits else "no longer violated")
        for v_ in sub.violations[:3]:
            print("  ", v_["signature"], "-", v_["what"][:300])
        return 1 if hits else 0
    print("re-running the C13 check on the current tree …")
    run(ctx)
    return ctx.finish()


# --------------------------------------------------------------------------
# replacement BELOW a call with several results: the result taken from the rebuilt call must be the one of the
# same name (a mapper that re-reads "the first" entry is right for single-result functions only)
# --------------------------------------------------------------------------

def check_replacement_below_multi_result_calls(ctx, t: ch.Tables):
    import numpy as np
    import pytato as pt
    runs = _substituting_runs(t)

    def graphs():
        x = pt.make_placeholder("x", (3,), np.float64)
        y = pt.make_placeholder("y", (3,), np.float64)

        def f_tuple(a, b):
            return a + b, a * b, a - 2 * b

        def f_dict(a, b):
            return {"p": a + b, "zz": a * b, "m": a - 2 * b}

        for fname, f, keys in (("tuple", f_tuple, (0, 1, 2)), ("dict", f_dict, ("p", "zz", "m"))):
            leaf = x * 2
            r = pt.trace_call(f, leaf, y)
            for k in keys:
                yield f"{fname}:result-{k}", pt.make_dict_of_named_arrays({"o": r[k] * 3}), leaf
            yield f"{fname}:two-results", pt.make_dict_of_named_arrays({"o": r[keys[2]] + r[keys[1]]}), leaf
    # CopyMapperWithExtraArgs leaves the mapping of function definitions to its users: a minimal user (CopyMapper's
    # version with the extra arguments passed on), run with one positional and one keyword extra argument
    from pytato.transform import CopyMapperWithExtraArgs

    def run_extra(graph, subst):
        class UserCopy(CopyMapperWithExtraArgs):
            def get_cache_key(self, expr, *args, **kwargs):
                return (expr, args, tuple(sorted(kwargs.items())))

            def get_function_definition_cache_key(self, expr, *args, **kwargs):
                return (expr, args, tuple(sorted(kwargs.items())))

            def rec(self, expr, *args, **kwargs):
                r = subst.get(id(expr))
                return r if r is not None else super().rec(expr, *args, **kwargs)

            def map_function_definition(self, expr, *args, **kwargs):
                new_mapper = self.clone_for_callee(expr)
                new_returns = {name: new_mapper(ret, *args, **kwargs) for name, ret in expr.returns.items()}
                return expr.replace_if_different(returns=new_returns)
        return UserCopy()(graph, 7, flag="k")
    runs = runs + [("CopyMapperWithExtraArgs[user-subclass]", "CopyMapperWithExtraArgs", run_extra)]
    n = dis = 0
    not_judged: set[str] = set()
    for gname, g, leaf in graphs():
        new_leaf = pt.make_placeholder("w", (3,), np.float64) + 1
        subst = {id(leaf): new_leaf}
        try:
            want = reflective_subst(g, subst)
        except Exception as ex:   # noqa: BLE001
            not_judged.add(f"{gname}:reflective:{type(ex).__name__}")
            continue
        for name, row, run in runs:
            try:
                with time_limit(TRAVERSAL_LIMIT_S):
                    got = run(g, dict(subst))
            except Exception as ex:   # noqa: BLE001  (mappers that refuse calls are judged by the tables)
                not_judged.add(f"{name}:{type(ex).__name__}")
                continue
            n += 1
            if not _same_structure(got, want) and not (got == want):
                dis += 1
                ctx.violation(f"transform-wrong-result-below-multi-result-call:{name.split('[')[0]}",
                              f"{name}: the argument of a call with three results is replaced; the result of the mapper "
                              f"is not the graph with that replacement applied ({gname})",
                              {"check": "below-multi-result-calls", "mapper": name, "graph": gname})
    ctx.note_batch("replacement-below-multi-result-calls", n, dis, exhaustive=False, not_judged=sorted(not_judged)[:20])

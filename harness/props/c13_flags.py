"""C13 — the two diagnostics of a transforming mapper hold at every nesting level.

Property clause: "a transformation ... reports rather than hides a cache-key
collision between distinct nodes" (err_on_collision) and "... a mapper-created
duplicate" (err_on_created_duplicate).  Both are per-mapper settings; the body of
a traced function is traversed by a CLONE of the mapper (clone_for_callee), a
nested body by a clone of the clone.  What the user asked for at the root has to
hold in every namespace:

  family   every TransformMapper / TransformMapperWithExtraArgs subclass found by
           reflection over the pytato package
           x  every flag combination the constructor offers (4 when it takes the
              two flags, else the class's fixed setting)
           x  scenario: two distinct equal nodes in the input ("collision"),
              a subclass that rebuilds an unchanged node ("created-duplicate")
           x  where the offending node sits: top level / body of a traced
              function / body of a function called from a body
           x  what the offending node is: an index lambda, a chain of two, a
              constant leaf
  oracle   (1) the outcome (reports / passes silently / another error) is the same
               at every nesting level;
           (2) where the constructor takes the flags, the outcome is what the
               flags say: collision reported iff err_on_collision, created
               duplicate reported iff err_on_created_duplicate.
A mapper that refuses the clean twin of a graph (same graph without the offending
node) is not judged on that graph.
"""
from __future__ import annotations

import importlib
import inspect
import pkgutil

from .c13 import TRAVERSAL_LIMIT_S, time_limit

LEVELS = ("top", "body", "nested")
WHATS = ("il", "chain", "const")


# --------------------------------------------------------------------------
# graphs
# --------------------------------------------------------------------------

def _offender(a, what: str, dup: bool):
    """an expression over `a`; with dup it contains two distinct equal nodes"""
    import pytato as pt

    def one():
        if what == "il":
            return a + 1
        if what == "chain":
            return pt.sin(a + 1)
        return pt.zeros(a.shape, dtype=a.dtype)
    u = one()
    v = one() if dup else u
    if dup:
        assert u is not v and u == v
    MARK.append(u)
    return (u * v) if what != "const" else (a + u) * v


MARK: list = []     # the offending node of the graph built last (graph() returns it)


def graph(level: str, what: str, dup: bool, plain: bool = False):
    """`plain`: no index lambda outside the offending namespace (for the
    created-duplicate scenario, where EVERY index lambda offends)"""
    import numpy as np
    import pytato as pt
    from pytato.function import trace_call
    x = pt.make_placeholder("x", (4,), np.float64)

    def f(a):
        return {"o": _offender(a, what, dup)}

    def g(a):
        inner = trace_call(f, a if plain else a + 2)["o"]
        return {"o": inner if plain else inner + 1}

    if level == "top":
        out = _offender(x, what, dup)
    elif level == "body":
        out = trace_call(f, x)["o"]
    else:
        out = trace_call(g, x)["o"]
    return pt.make_dict_of_named_arrays({"o": out}), MARK[-1]


# --------------------------------------------------------------------------
# mappers
# --------------------------------------------------------------------------

def _required_args(name: str):
    """constructor arguments of the classes that need some (None: unknown class)"""
    import pytato as pt
    table = {
        "CachedMapAndCopyMapper": lambda: ((lambda e: e),),
        "_DistributedInputReplacer": lambda: ({}, {}, {}),
        "CodeGenPreprocessor": lambda: (pt.LoopyPyOpenCLTarget(),),
        "PlaceholderSubstitutor": lambda: (_AnyName(),),
        "AxisTagAttacher": lambda: ({}, False),
    }
    if name == "EinsumDistributiveLawMapper":
        from pytato.transform.einsum_distributive_law import DoNotDistribute
        return lambda: ((lambda e: DoNotDistribute()),)
    return table.get(name)


class _AnyName(dict):
    """substitutions for PlaceholderSubstitutor: every name is bound (to one array per name)"""
    def __missing__(self, name):
        import numpy as np
        import pytato as pt
        self[name] = pt.make_placeholder(name, (4,), np.float64)
        return self[name]


def call_args(cls) -> tuple:
    """the extra arguments the class's own entry point starts the traversal with"""
    return {"EinsumWithNoBroadcastsRewriter": ((),),       # rewrite_einsums_with_no_broadcasts
            "EinsumDistributiveLawMapper": (None,),        # apply_distributive_property_to_einsums
            }.get(cls.__name__, ())


def entering(cls):
    """the *WithExtraArgs bases leave function definitions to their users: the
    smallest subclass that enters them the way CopyMapper does"""
    def map_function_definition(self, expr, *args, **kwargs):
        new_mapper = self.clone_for_callee(expr)
        from constantdict import constantdict
        new_returns = constantdict({name: new_mapper(ret, *args, **kwargs) for name, ret in expr.returns.items()})
        return expr.replace_if_different(returns=new_returns)
    return type(cls.__name__, (cls,), {"map_function_definition": map_function_definition,
                                       "__module__": cls.__module__})


def mapper_classes():
    import pytato
    import pytato.transform as ptf
    for m in pkgutil.walk_packages(pytato.__path__, "pytato."):
        try:
            importlib.import_module(m.name)
        except Exception:   # noqa: BLE001  (optional dependencies)
            pass
    seen, out = set(), []

    def walk(c):
        if c in seen or not c.__module__.startswith("pytato"):
            return
        seen.add(c)
        out.append(c)
        for s in c.__subclasses__():
            walk(s)
    walk(ptf.TransformMapper)
    walk(ptf.TransformMapperWithExtraArgs)
    return [c for c in out if c not in (ptf.TransformMapper, ptf.TransformMapperWithExtraArgs)]


def configurations(cls):
    """[(label, flags or None, make(cls'))] — make builds an instance of cls' (cls
    or a subclass of it) in that configuration; [] when it cannot be constructed"""
    params = inspect.signature(cls.__init__).parameters
    need = [p for p in list(params.values())[1:]
            if p.default is inspect.Parameter.empty
            and p.kind in (p.POSITIONAL_ONLY, p.POSITIONAL_OR_KEYWORD)]
    args = ()
    if need:
        mk = _required_args(cls.__name__)
        if mk is None:
            return []
        args = mk
    takes = "err_on_collision" in params and "err_on_created_duplicate" in params
    if not takes:
        return [("default", None, lambda c, args=args: c(*(args() if args else ())))]
    out = []
    for ec in (True, False):
        for ed in (True, False):
            out.append((f"collision={ec},created_duplicate={ed}", (ec, ed),
                        lambda c, ec=ec, ed=ed, args=args: c(*(args() if args else ()),
                                                              err_on_collision=ec, err_on_created_duplicate=ed)))
    return out


def rebuilding(cls):
    """subclass of cls that hands back an equal but NEW node for every index lambda
    the class itself left unchanged — the mistake err_on_created_duplicate is for"""
    def map_index_lambda(self, expr, *args, **kwargs):
        r = super(sub, self).map_index_lambda(expr, *args, **kwargs)
        return r.copy() if r is expr else r
    sub = type(cls.__name__, (cls,), {"map_index_lambda": map_index_lambda, "__module__": cls.__module__})
    return sub


def watching(cls):
    """subclass of cls (and so of its callee clones) that notes every node it is asked to map"""
    seen: set[int] = set()

    def rec(self, expr, *args, **kwargs):
        seen.add(id(expr))
        return super(sub, self).rec(expr, *args, **kwargs)
    sub = type(cls.__name__, (cls,), {"rec": rec, "__module__": cls.__module__})
    return sub, seen


def outcome(make, g, args=()) -> str:
    import pytato.transform as ptf
    try:
        with time_limit(TRAVERSAL_LIMIT_S):
            make()(g, *args)
        return "silent"
    except Exception as e:   # noqa: BLE001
        cause = e.__cause__
        if isinstance(cause, ptf.CacheCollisionError) or isinstance(e, ptf.CacheCollisionError):
            return "reports-collision"
        if isinstance(cause, ptf.MapperCreatedDuplicateError) or isinstance(e, ptf.MapperCreatedDuplicateError):
            return "reports-created-duplicate"
        return f"error:{type(e).__name__}"


def expected(scenario: str, flags) -> str:
    ec, ed = flags
    if scenario == "collision":
        return "reports-collision" if ec else "silent"
    return "reports-created-duplicate" if ed else "silent"


# --------------------------------------------------------------------------
# the batch
# --------------------------------------------------------------------------

def check_flags(ctx):
    classes = mapper_classes()
    n = bad = judged_levels = 0
    unconstructible, refused = [], set()
    seen_sigs = set()
    import pytato.transform as ptf
    for cls in classes:
        confs = configurations(cls)
        if not confs:
            unconstructible.append(cls.__name__)
            continue
        args = call_args(cls)
        if issubclass(cls, ptf.TransformMapperWithExtraArgs) and outcome(
                lambda: confs[0][2](cls), graph("body", "il", False)[0], args) == "error:NotImplementedError":
            cls = entering(cls)
        for scenario in ("collision", "created-duplicate"):
            run_cls = cls if scenario == "collision" else rebuilding(cls)
            for label, flags, make in confs:
                for what in WHATS:
                    got = {}
                    for level in LEVELS:
                        plain = scenario == "created-duplicate"
                        g_bad, _ = graph(level, what, dup=(scenario == "collision"), plain=plain)
                        g_clean, mark = graph(level, what, dup=False, plain=plain)
                        # the clean twin under the class itself: does it take the graph at all,
                        # and does its traversal get to the namespace in question?
                        wcls, seen = watching(cls)
                        twin = outcome(lambda: make(wcls), g_clean, args)
                        if twin != "silent":
                            refused.add(f"{cls.__name__}:{level}:{twin}")
                            continue
                        if id(mark) not in seen:
                            refused.add(f"{cls.__name__}:{level}:does-not-enter")
                            continue
                        got[level] = outcome(lambda: make(run_cls), g_bad, args)
                    if not got:
                        continue
                    n += 1
                    judged_levels += len(got)
                    problems = []
                    if len(set(got.values())) > 1:
                        problems.append(("differs-by-nesting",
                                         "the outcome depends on the namespace the offending node sits in"))
                    if flags is not None:
                        want = expected(scenario, flags)
                        off = {lv: o for lv, o in got.items() if o != want}
                        if off and not problems:
                            problems.append(("not-followed", f"the flags ask for `{want}`"))
                    if not problems:
                        continue
                    bad += 1
                    for kind, why in problems:
                        sig = f"collision-flags:{kind}:{cls.__name__}:{scenario}"
                        if sig in seen_sigs:
                            continue
                        seen_sigs.add(sig)
                        ctx.violation(
                            sig,
                            f"{cls.__name__}({label}) on a graph whose {scenario.replace('-', ' ')} "
                            f"({what}) sits at top level / in a function body / in a nested body: {got}; {why}",
                            {"check": "flags", "mapper": cls.__name__, "module": cls.__module__,
                             "configuration": label, "scenario": scenario, "what": what, "outcomes": got,
                             "graph": {"family": "c13_flags.graph", "levels": list(got), "what": what}})
    ctx.note_batch("diagnostic-flags-hold-at-every-nesting-level", n, bad, exhaustive=True,
                   classes=len(classes) - len(unconstructible), judged_levels=judged_levels,
                   unconstructible=sorted(unconstructible), not_judged=sorted(refused)[:40])

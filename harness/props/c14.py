"""C14 — Python (NumPy-like / JAX) code generation computes what NumPy computes.

Theorems (PtProofs/C14.lean): the slice re-synthesis of `_map_index_base`
round-trips — for every normalised slice the emitted Python slice, adjusted by
CPython's own rules, is the same normalised slice (so it selects the same
elements) for every axis length, start, stop, step.

Tie: the NumPy-like module is real NumPy (the interface jax.numpy mirrors; JAX is
not installed).  Generated programs (static shapes; sparse matmul and loopy calls
are outside the target's fragment) are compiled and executed; outputs vs the
reference evaluator; keyword arguments vs the user's input names; pre-bound data
identity; a construct the target does not support must raise a not-supported
error (NotImplementedError family) at generation time — never AttributeError /
NameError / wrong values at run time.  Exhaustive sub-batch: every slice of C02's
scope through `_map_index_base`; every name the generator can emit must exist in
the NumPy namespace (translator table + kernel-checked obligation)."""
from __future__ import annotations

import numpy as np

from .. import common, pytarget, ser
from ..gen import programs
from ..refeval import close, evaluate

THEOREMS = ["Pt.slice_resynth_roundtrip", "Pt.slice_resynth_selects_same"]

def _not_supported():
    # NotImplementedError, or the explicit "this index lambda has no known high-level form" diagnostic
    from pytato.diagnostic import UnknownIndexLambdaExpr
    return (NotImplementedError, UnknownIndexLambdaExpr)


def batch_slices(ctx):
    """every slice of C02's scope through the real _map_index_base and the Lean model of the re-synthesis"""
    import pytato as pt
    vals = [None, *range(-7, 8)]
    steps = [None, 1, -1, 2, -2, 3, -3]
    cases = dis = 0
    queries, meta = [], []
    for n in range(0, 7):
        a = np.arange(n, dtype=np.int64) + 1
        x = pt.make_placeholder("x", (n,), np.int64)
        for st in vals:
            for sp in vals:
                for step in steps:
                    sl = slice(st, sp, step)
                    cases += 1
                    node = x[sl]
                    try:
                        bp = pytarget.generate(node)
                        got = bp(x=a)
                    except Exception as e:   # noqa: BLE001
                        dis += 1
                        ctx.violation(f"pytarget:slice:exception:{type(e).__name__}",
                                      f"x[{st}:{sp}:{step}] on length {n}: {type(e).__name__}: {e}",
                                      {"n": n, "slice": [st, sp, step]})
                        continue
                    if not np.array_equal(np.asarray(got), a[sl]):
                        dis += 1
                        line = [ln.strip() for ln in bp.program.split("\n") if "x[" in ln]
                        ctx.violation("pytarget:slice:value-mismatch",
                                      f"x[{st}:{sp}:{step}] on length {n}: generated {line} returns "
                                      f"{np.asarray(got).tolist()}, NumPy {a[sl].tolist()}",
                                      {"n": n, "slice": [st, sp, step], "generated": line})
                        continue
                    idx = node.indices[0] if hasattr(node, "indices") else None
                    if idx is not None:
                        queries.append(f"(resynth {idx.start} {idx.stop} {idx.step} {n})")
                        line = [ln.strip() for ln in bp.program.split("\n") if "x[" in ln]
                        meta.append((n, (st, sp, step), line[0] if line else None))
    ans = common.driver_query_parallel(queries)
    mdis = 0
    for q, a, (n, sl, line) in zip(queries, ans, meta):
        # model answer: "ok lower upper step" with None for omitted parts; real line: `_pt_tmp = x[l:u:s,]`
        if line is None:
            continue
        inner = line[line.index("x[") + 2:line.rindex("]")].rstrip(",")
        parts = inner.split(":")
        while len(parts) < 3:
            parts.append("")
        real = " ".join(p if p else "None" for p in parts[:3])
        if real.split()[2] == "None":
            real = " ".join(real.split()[:2] + ["1"])
        model = a[3:] if a.startswith("ok ") else a
        m = model.split()
        if len(m) == 3 and m[2] == "1":
            pass
        if model != real:
            mdis += 1
            ctx.broken.append(f"correspondence:resynth-model-vs-real:n={n}:slice={sl}:model={model}:real={real}")
    ctx.note_batch("slices-through-_map_index_base(exhaustive)", cases, dis + mdis, exhaustive=True,
                   model_compared=len(queries))


def batch_programs(ctx):
    n = 2500 if ctx.thorough else 400
    cfg = programs.Config(exclude=("csr",))
    nprng = np.random.default_rng(ctx.seed * 3 + 14)
    import pytato as pt
    from ..reflect import walk
    from pytato.array import DataWrapper, Placeholder
    cases = dis = 0
    unsupported: dict[str, int] = {}
    dtype_dev = 0
    ops_ok: dict[str, int] = {}
    for i in range(n):
        p = programs.generate(ctx.seed + 1400, i, cfg)
        expr = pt.transform.deduplicate(p.expr())
        cases += 1
        try:
            bp = pytarget.generate(expr)
        except _not_supported() as e:
            import re
            key = f"{type(e).__name__}:" + re.sub(r"\d+", "N", str(e))[:40]
            unsupported[key] = unsupported.get(key, 0) + 1
            continue
        except Exception as e:   # noqa: BLE001
            dis += 1
            from .c01 import _short
            ctx.violation(f"pytarget:generate:{type(e).__name__}:{_short(str(e))}",
                          f"program {i} (seed {ctx.seed}): generate_numpy_like raised {type(e).__name__}: {e} — "
                          "not a not-supported error", {"program_index": i, "seed": ctx.seed + 1400, "ops": p.ops})
            continue
        # arguments: exactly the user's reachable input names + generated data names
        reach = {nn.name for nn in walk(expr) if isinstance(nn, Placeholder)}
        dws = [nn for nn in walk(expr) if isinstance(nn, DataWrapper)]
        exp_args = set(bp.expected_arguments)
        # an input the generated code does not need (e.g. only its shape matters) may be omitted; calling
        # with all of the user's inputs must work (checked by the call below)
        if not (exp_args - set(bp.bound_arguments)) <= reach or not set(bp.bound_arguments) <= exp_args | set(bp.bound_arguments) \
                or (set(bp.bound_arguments) & reach):
            dis += 1
            ctx.violation("pytarget:arguments",
                          f"program {i}: expected arguments {sorted(exp_args)} vs user inputs {sorted(reach)} + bound "
                          f"{sorted(bp.bound_arguments)}", {"program_index": i, "seed": ctx.seed + 1400})
            continue
        if any(not any(d.data is v for d in dws) for v in bp.bound_arguments.values()):
            dis += 1
            ctx.violation("pytarget:bound-data-not-the-wrapped-object", f"program {i}", {"program_index": i})
            continue
        inp = p.make_inputs(nprng)
        try:
            with np.errstate(all="ignore"):
                out = bp(**{k: v for k, v in inp.items() if k in reach})
        except Exception as e:   # noqa: BLE001
            dis += 1
            from .c01 import _short
            ctx.violation(f"pytarget:runtime:{type(e).__name__}:{_short(str(e))}",
                          f"program {i} (seed {ctx.seed}): generated code fails at run time with {type(e).__name__}: "
                          f"{e} (ops {sorted(set(p.ops))})",
                          {"program_index": i, "seed": ctx.seed + 1400, "ops": p.ops, "source": bp.program})
            continue
        try:
            ref = evaluate(p.expr(), inp)
        except Exception as e:   # noqa: BLE001
            ctx.broken.append(f"refeval:{type(e).__name__}:program{i}")
            continue
        bad = None
        for name in p.outputs:
            got = np.asarray(out[name])
            if got.shape != ref[name].shape or not close(got, ref[name], single=True, exact=False):
                bad = name
                break
            if got.dtype != ref[name].dtype:
                dtype_dev += 1
        if bad:
            dis += 1
            ctx.violation("pytarget:value-mismatch",
                          f"program {i} (seed {ctx.seed}) output {bad}: generated Python computes something else "
                          f"(ops {sorted(set(p.ops))})",
                          {"program_index": i, "seed": ctx.seed + 1400, "output": bad, "source": bp.program,
                           "observed": np.asarray(out[bad]).tolist(), "expected": ref[bad].tolist()})
            continue
        for o in set(p.ops):
            ops_ok[o] = ops_ok.get(o, 0) + 1
        if i % 80 == 0:
            ctx.sample({"batch": "programs", "program": i, "ops": sorted(set(p.ops))})
    ctx.note_batch("generated-python-vs-reference", cases, dis, exhaustive=False, not_supported=unsupported,
                   executed_ok_constructor_counts=ops_ok, outputs_with_dtype_deviation=dtype_dev)


def batch_names(ctx):
    """every function name the target can emit must exist in numpy (the array module)"""
    from pytato.target.python import numpy_like as nl
    names = set(nl.PYTATO_REDUCTION_TO_NP_REDUCTION.values()) | set(nl.COMPARISON_OP_TO_CALL.values()) \
        | set(nl.LOGICAL_OP_TO_CALL.values()) | {"ones", "zeros", "full", "where", "broadcast_to", "einsum",
                                                 "reshape", "stack", "concatenate", "roll", "transpose"}
    from pytato.raising import C99CallOp
    import pytato.raising as raising
    for f in sorted(raising.PT_C99UNARY_FUNCS | raising.PT_C99BINARY_FUNCS):
        try:
            names.add(nl._c99_callop_numpy_name(C99CallOp(f, ())))
        except Exception:   # noqa: BLE001
            names.add(f)
    dis = 0
    for nm in sorted(names):
        if not hasattr(np, nm):
            dis += 1
            ctx.violation(f"pytarget:missing-attr:numpy.{nm}",
                          f"the NumPy-like target can emit `{nm}`, which the installed NumPy {np.__version__} "
                          "does not provide", {"name": nm, "numpy": np.__version__})
    ctx.note_batch("emitted-names-exist-in-numpy", len(names), dis, exhaustive=True, names=sorted(names))


def run(ctx: common.Ctx):
    ctx.assumptions += [
        "NumPy's kernels are executed, not verified; JAX is absent: only the generator shared by both targets and "
        "the NumPy interface are exercised",
        "type casts are dropped by the target (raising): values compared with single-precision tolerance, dtype "
        "deviations counted, not flagged",
    ]
    ctx.lean_obligations("PtProofs.C14", THEOREMS)
    batch_names(ctx)
    batch_slices(ctx)
    batch_programs(ctx)
    ctx.broken = sorted(set(ctx.broken))[:50]


def replay(ctx, path):
    print(open(path).read()[:3000])
    run(ctx)
    return ctx.finish()

"""C14 — Python (NumPy-like / JAX) code generation computes what NumPy computes.

Theorems (PtProofs/C14.lean): the slice re-synthesis of `_map_index_base`
round-trips — for every normalised slice the emitted Python slice, adjusted by
CPython's own rules, is the same normalised slice (so it selects the same
elements) for every axis length, start, stop, step.

Tie: the NumPy-like module is real NumPy (the interface jax.numpy mirrors; JAX is
not installed).  Generated programs (static shapes; sparse matmul and loopy calls
are outside the target's fragment) are compiled and executed; outputs vs the
reference evaluator; keyword arguments vs the user's input names; pre-bound data
identity; a construct the target does not support must raise a not-supported
error (NotImplementedError family) at generation time — never AttributeError /
NameError / wrong values at run time.  Exhaustive sub-batch: every slice of C02's
scope through `_map_index_base`; every name the generator can emit must exist in
the NumPy namespace (translator table + kernel-checked obligation)."""
from __future__ import annotations

import numpy as np

from .. import common, pytarget, ser
from ..gen import programs
from ..refeval import close, evaluate

THEOREMS = ["Pt.slice_resynth_roundtrip", "Pt.slice_resynth_selects_same",
            # the generator model (tied to the real generator by text: batch lean-generator-model-vs-real-text)
            "Pt.Py.pygen_sound", "Pt.Py.pygen_refuses", "Pt.Py.outputs_aligned", "Pt.Py.fragment_check_sound",
            "Pt.Py.print_parse_roundtrip", "Pt.Py.print_precedence_sound", "Pt.Py.il_value_pointwise"]

def _not_supported():
    # NotImplementedError, or the explicit "this index lambda has no known high-level form" diagnostic
    from pytato.diagnostic import UnknownIndexLambdaExpr
    return (NotImplementedError, UnknownIndexLambdaExpr)


def batch_slices(ctx):
    """every slice of C02's scope through the real _map_index_base and the Lean model of the re-synthesis"""
    import pytato as pt
    vals = [None, *range(-7, 8)]
    steps = [None, 1, -1, 2, -2, 3, -3]
    cases = dis = 0
    queries, meta = [], []
    for n in range(0, 7):
        a = np.arange(n, dtype=np.int64) + 1
        x = pt.make_placeholder("x", (n,), np.int64)
        for st in vals:
            for sp in vals:
                for step in steps:
                    sl = slice(st, sp, step)
                    cases += 1
                    node = x[sl]
                    try:
                        bp = pytarget.generate(node)
                        got = bp(x=a)
                    except Exception as e:   # noqa: BLE001
                        dis += 1
                        ctx.violation(f"pytarget:slice:exception:{type(e).__name__}",
                                      f"x[{st}:{sp}:{step}] on length {n}: {type(e).__name__}: {e}",
                                      {"n": n, "slice": [st, sp, step]})
                        continue
                    if not np.array_equal(np.asarray(got), a[sl]):
                        dis += 1
                        line = [ln.strip() for ln in bp.program.split("\n") if "x[" in ln]
                        ctx.violation("pytarget:slice:value-mismatch",
                                      f"x[{st}:{sp}:{step}] on length {n}: generated {line} returns "
                                      f"{np.asarray(got).tolist()}, NumPy {a[sl].tolist()}",
                                      {"n": n, "slice": [st, sp, step], "generated": line})
                        continue
                    idx = node.indices[0] if hasattr(node, "indices") else None
                    if idx is not None:
                        queries.append(f"(resynth {idx.start} {idx.stop} {idx.step} {n})")
                        line = [ln.strip() for ln in bp.program.split("\n") if "x[" in ln]
                        meta.append((n, (st, sp, step), line[0] if line else None))
    ans = common.driver_query_parallel(queries)
    mdis = 0
    for q, a, (n, sl, line) in zip(queries, ans, meta):
        # model answer: "ok lower upper step" with None for omitted parts; real line: `_pt_tmp = x[l:u:s,]`
        if line is None:
            continue
        inner = line[line.index("x[") + 2:line.rindex("]")].rstrip(",")
        parts = inner.split(":")
        while len(parts) < 3:
            parts.append("")
        real = " ".join(p if p else "None" for p in parts[:3])
        if real.split()[2] == "None":
            real = " ".join(real.split()[:2] + ["1"])
        model = a[3:] if a.startswith("ok ") else a
        m = model.split()
        if len(m) == 3 and m[2] == "1":
            pass
        if model != real:
            mdis += 1
            ctx.broken.append(f"correspondence:resynth-model-vs-real:n={n}:slice={sl}:model={model}:real={real}")
    ctx.note_batch("slices-through-_map_index_base(exhaustive)", cases, dis + mdis, exhaustive=True,
                   model_compared=len(queries))


def batch_programs(ctx):
    n = 2500 if ctx.thorough else 400
    # output keys in NON-lexicographic insertion order (the target sorts by key somewhere along the way)
    cfg = programs.Config(exclude=("csr",), output_namer=lambda k: ["zeta", "beta", "mid", "alpha", "omega"][k % 5] + ("" if k < 5 else str(k)))
    nprng = np.random.default_rng(ctx.seed * 3 + 14)
    import pytato as pt
    from ..reflect import walk
    from pytato.array import DataWrapper, Placeholder
    cases = dis = 0
    unsupported: dict[str, int] = {}
    dtype_dev = 0
    ops_ok: dict[str, int] = {}
    for i in range(n):
        p = programs.generate(ctx.seed + 1400, i, cfg)
        expr = pt.transform.deduplicate(p.expr())
        cases += 1
        try:
            bp = pytarget.generate(expr)
        except _not_supported() as e:
            import re
            key = f"{type(e).__name__}:" + re.sub(r"\d+", "N", str(e))[:40]
            unsupported[key] = unsupported.get(key, 0) + 1
            continue
        except Exception as e:   # noqa: BLE001
            dis += 1
            from .c01 import _short
            ctx.violation(f"pytarget:generate:{type(e).__name__}:{_short(str(e))}",
                          f"program {i} (seed {ctx.seed}): generate_numpy_like raised {type(e).__name__}: {e} — "
                          "not a not-supported error", {"program_index": i, "seed": ctx.seed + 1400, "ops": p.ops})
            continue
        # arguments: exactly the user's reachable input names + generated data names
        reach = {nn.name for nn in walk(expr) if isinstance(nn, Placeholder)}
        dws = [nn for nn in walk(expr) if isinstance(nn, DataWrapper)]
        exp_args = set(bp.expected_arguments)
        # an input the generated code does not need (e.g. only its shape matters) may be omitted; calling
        # with all of the user's inputs must work (checked by the call below)
        if not (exp_args - set(bp.bound_arguments)) <= reach or not set(bp.bound_arguments) <= exp_args | set(bp.bound_arguments) \
                or (set(bp.bound_arguments) & reach):
            dis += 1
            ctx.violation("pytarget:arguments",
                          f"program {i}: expected arguments {sorted(exp_args)} vs user inputs {sorted(reach)} + bound "
                          f"{sorted(bp.bound_arguments)}", {"program_index": i, "seed": ctx.seed + 1400})
            continue
        if any(not any(d.data is v for d in dws) for v in bp.bound_arguments.values()):
            dis += 1
            ctx.violation("pytarget:bound-data-not-the-wrapped-object", f"program {i}", {"program_index": i})
            continue
        inp = p.make_inputs(nprng)
        try:
            with np.errstate(all="ignore"):
                out = bp(**{k: v for k, v in inp.items() if k in reach})
        except Exception as e:   # noqa: BLE001
            dis += 1
            from .c01 import _short
            ctx.violation(f"pytarget:runtime:{type(e).__name__}:{_short(str(e))}",
                          f"program {i} (seed {ctx.seed}): generated code fails at run time with {type(e).__name__}: "
                          f"{e} (ops {sorted(set(p.ops))})",
                          {"program_index": i, "seed": ctx.seed + 1400, "ops": p.ops, "source": bp.program})
            continue
        try:
            ref = evaluate(p.expr(), inp)
        except Exception as e:   # noqa: BLE001
            ctx.broken.append(f"refeval:{type(e).__name__}:program{i}")
            continue
        bad = bad_dtype = None
        for name in p.outputs:
            got = np.asarray(out[name])
            if got.shape != ref[name].shape or not close(got, ref[name], single=True, exact=False):
                bad = name
                break
            if got.dtype != ref[name].dtype:
                # the recorded dtype-inference deviations from NumPy (C03's known findings: reductions keep the
                # operand dtype, isnan is int32, bool//bool …) surface here as well: the reference evaluator
                # follows pytato's declared dtype, real NumPy does not
                c03_known = {"isnan", "conj", "floordiv", "mod", "pow"} | {o for o in p.ops if o.startswith("reduce_")}
                if c03_known & set(p.ops):
                    dtype_dev += 1
                else:
                    bad_dtype = (name, str(got.dtype), str(ref[name].dtype))
        if bad:
            dis += 1
            ctx.violation("pytarget:value-mismatch",
                          f"program {i} (seed {ctx.seed}) output {bad}: generated Python computes something else "
                          f"(ops {sorted(set(p.ops))})",
                          {"program_index": i, "seed": ctx.seed + 1400, "output": bad, "source": bp.program,
                           "observed": np.asarray(out[bad]).tolist(), "expected": ref[bad].tolist()})
            continue
        if bad_dtype:
            dis += 1
            ctx.violation("pytarget:dtype-mismatch",
                          f"program {i} (seed {ctx.seed}) output {bad_dtype[0]}: generated Python returns {bad_dtype[1]}, "
                          f"pytato declares and NumPy computes {bad_dtype[2]} (ops {sorted(set(p.ops))})",
                          {"program_index": i, "seed": ctx.seed + 1400, "output": bad_dtype[0], "source": bp.program})
            continue
        for o in set(p.ops):
            ops_ok[o] = ops_ok.get(o, 0) + 1
        if i % 80 == 0:
            ctx.sample({"batch": "programs", "program": i, "ops": sorted(set(p.ops))})
    ctx.note_batch("generated-python-vs-reference", cases, dis, exhaustive=False, not_supported=unsupported,
                   executed_ok_constructor_counts=ops_ok, outputs_with_dtype_deviation=dtype_dev)


def batch_scalar_operands(ctx):
    """every arithmetic operator with a scalar operand of every kind (Python / typed NumPy scalars, negative
    ones) on either side: the generated Python must give NumPy's dtype and values (the emitted source goes
    through `ast.unparse` and NumPy's weak-scalar promotion, both of which can change the meaning)"""
    import operator
    import pytato as pt
    scalars = [2, -2, 3, -3, 0, 1.5, -0.5, -2.0, np.int32(2), np.int64(-3), np.int8(-2), np.float32(1.5), np.float32(-2),
               np.float64(1.1), np.float64(-2.0), True,
               float("inf"), float("-inf"), float("nan"), np.float64("inf"), np.float64("-inf"), np.float32("inf"),
               np.float32("-inf"), np.float32("nan"), -0.0, np.float64(-0.0)]
    ops = {"+": operator.add, "-": operator.sub, "*": operator.mul, "/": operator.truediv, "**": operator.pow,
           "//": operator.floordiv, "%": operator.mod}
    data = {"int8": np.array([1, 2, 3, 0], np.int8), "int32": np.array([1, 2, 3, 4], np.int32),
            "int64": np.array([0, 1, 2, 3], np.int64), "float32": np.array([1, 2, 3, 4], np.float32),
            "float64": np.array([1.0, 2.0, 3.0, 0.5]), "uint8": np.array([1, 2, 3, 4], np.uint8)}
    cases = dis = skipped = 0
    for dt, arr in data.items():
        x = pt.make_placeholder("x", arr.shape, arr.dtype)
        for s in scalars:
            for oname, op in ops.items():
                for side in ("array-op-scalar", "scalar-op-array"):
                    f = (lambda a, op=op, s=s: op(a, s)) if side == "array-op-scalar" else (lambda a, op=op, s=s: op(s, a))
                    with np.errstate(all="ignore"):
                        try:
                            ref = f(arr)
                        except Exception:   # noqa: BLE001
                            continue        # NumPy rejects the combination (e.g. integer ** negative integer)
                    try:
                        e = f(x)
                    except Exception:   # noqa: BLE001
                        continue            # pytato rejects it at construction: allowed
                    cases += 1
                    try:
                        bp = pytarget.generate(e)
                    except _not_supported():
                        skipped += 1
                        continue
                    desc = {"array_dtype": dt, "scalar": repr(s), "op": oname, "side": side}
                    try:
                        with np.errstate(all="ignore"):
                            got = np.asarray(bp(x=arr))
                    except Exception as ex:   # noqa: BLE001
                        dis += 1
                        ctx.violation(f"pytarget:scalar-operand:runtime:{type(ex).__name__}",
                                      f"{side} {dt} {oname} {s!r}: generated code fails: {ex}", dict(desc, source=bp.program))
                        continue
                    same_decl = np.dtype(e.dtype) == ref.dtype     # else: a dtype-inference deviation, C03's matter
                    if got.shape != ref.shape or not close(got, ref.astype(got.dtype) if not same_decl else ref,
                                                           single=not same_decl, exact=False) \
                            or (same_decl and got.dtype != ref.dtype):
                        dis += 1
                        ctx.violation("pytarget:scalar-operand:" + ("dtype" if np.array_equal(got, ref.astype(got.dtype))
                                                                    else "value"),
                                      f"{side}: {dt} array {oname} {s!r}: generated Python gives {got.tolist()} "
                                      f"({got.dtype}), NumPy {ref.tolist()} ({ref.dtype}); pytato declares {e.dtype}",
                                      dict(desc, source=bp.program, observed=got.tolist(), expected=ref.tolist()))
    ctx.note_batch("scalar-operand-forms", cases, dis, exhaustive=True, not_supported=skipped,
                   scope=f"{len(data)} array dtypes x {len(scalars)} scalars x {len(ops)} operators x 2 sides")


def _own_near_misses():
    """index lambdas with a binding that is no operand but decides what the bindings broadcast to: as a NumPy
    operation on the OPERANDS the result would not have the index lambda's shape"""
    import pymbolic.primitives as prim
    import pytato as pt
    from constantdict import constantdict
    from pytato.array import IndexLambda, _get_default_axes
    v = prim.Variable

    def mk(expr, shape, binds, dt="float64"):
        return IndexLambda(expr=expr, shape=shape, dtype=np.dtype(dt), bindings=constantdict(binds),
                           axes=_get_default_axes(len(shape)), var_to_reduction_descr=constantdict(),
                           tags=frozenset(), non_equality_tags=frozenset())
    small = pt.make_placeholder("w1", (4,), "float64")
    big = pt.make_placeholder("w2", (3, 4), "float64")
    sub = prim.Subscript(v("_in0"), (v("_1"),))
    binds = {"_in0": small, "_in1": big}
    return [
        ("unused-binding-decides-shape:binary", mk(sub + 2, (3, 4), binds)),
        ("unused-binding-decides-shape:binary-same-operand", mk(sub * sub, (3, 4), binds)),
        ("unused-binding-decides-shape:call", mk(v("pytato.c99.sin")(sub), (3, 4), binds)),
        ("unused-binding-decides-shape:where", mk(prim.If(prim.Comparison(sub, ">", 0), sub, 2), (3, 4), binds)),
        ("unused-binding-decides-shape:zeros-like", mk(v("pytato.zero")(sub), (3, 4), binds)),
    ]


def batch_near_misses(ctx):
    """hand-built index lambdas that merely resemble a high-level operation (C19's near-misses, incl. what
    lowering produces): the target must refuse them or compute exactly what the index lambda denotes"""
    from . import c19
    from ..ilinterp import eval_index_lambda
    from ..reflect import walk
    from pytato.array import Placeholder
    rng = np.random.default_rng(ctx.seed + 141)
    cases = dis = refused = 0
    for label, il in list(c19.near_misses(ctx)) + _own_near_misses():
        cases += 1
        inp = {n.name: c19._data(rng, tuple(n.shape), n.dtype) for n in walk(il) if isinstance(n, Placeholder)}
        try:
            bp = pytarget.generate(il)
        except _not_supported():
            refused += 1
            continue
        except Exception as e:   # noqa: BLE001
            dis += 1
            ctx.violation(f"pytarget:near-miss:generate:{type(e).__name__}",
                          f"{label} ({il.expr}): generate_numpy_like raised {type(e).__name__}: {e} — not a "
                          "not-supported error", {"label": label, "expr": str(il.expr)})
            continue
        try:
            binds = {k: evaluate(v, inp) for k, v in il.bindings.items()}
            truth, _ = eval_index_lambda(il, binds)
            with np.errstate(all="ignore"):
                got = np.asarray(bp(**{k: v for k, v in inp.items() if k in bp.expected_arguments}))
        except Exception as e:   # noqa: BLE001
            dis += 1
            ctx.violation(f"pytarget:near-miss:runtime:{type(e).__name__}",
                          f"{label} ({il.expr}): the generated code fails: {e}", {"label": label, "source": bp.program})
            continue
        if got.shape != truth.shape:
            dis += 1
            ctx.violation("pytarget:near-miss:shape-mismatch",
                          f"{label}: the index lambda {il.expr} of shape {tuple(il.shape)} is emitted as code whose "
                          f"result has shape {got.shape} (`{bp.program.strip().splitlines()[-2].strip()}`)",
                          {"label": label, "expr": str(il.expr), "source": bp.program,
                           "observed": list(got.shape), "expected": list(truth.shape)})
        elif not close(got, truth, single=False, exact=False):
            dis += 1
            ctx.violation("pytarget:near-miss:value-mismatch",
                          f"{label}: the index lambda {il.expr} is emitted as code that computes something else",
                          {"label": label, "expr": str(il.expr), "source": bp.program,
                           "observed": got.tolist(), "expected": truth.tolist()})
    ctx.note_batch("near-miss-index-lambdas", cases, dis, exhaustive=False, refused_as_not_supported=refused)


def batch_api_table(ctx):
    """the public array API function by function (harness/apitable.py): generated Python vs the NumPy function of
    the same meaning applied to the same inputs (not vs pytato's own graph)"""
    import pytato as pt
    from .. import apitable
    from .c01 import _num_close
    cs = apitable.cases(ctx.seed, ctx.thorough)
    cases = dis = refused = 0
    with np.errstate(all="ignore"):
        for c in cs:
            if c["family"] == "sparse":
                continue
            inp = c["inputs"]
            try:
                ref = np.asarray(c["ref"](**inp))
                node = c["build"](**{k: pt.make_placeholder(k, v.shape, v.dtype) for k, v in inp.items()})
            except Exception:   # noqa: BLE001
                continue
            if not isinstance(node, pt.Array):
                continue
            cases += 1
            fn = c["label"].split(":")[0]
            try:
                bp = pytarget.generate(pt.transform.deduplicate(pt.make_dict_of_named_arrays({"o": node})))
            except _not_supported():
                refused += 1
                continue
            except Exception as e:   # noqa: BLE001
                dis += 1
                ctx.violation(f"pytarget:api-table:generate:{fn}:{type(e).__name__}",
                              f"{c['label']}: generate_numpy_like raised {type(e).__name__}: {e}", {"call": c["label"]})
                continue
            try:
                got = np.asarray(bp(**{k: v for k, v in inp.items() if k in bp.expected_arguments})["o"])
            except Exception as e:   # noqa: BLE001
                dis += 1
                ctx.violation(f"pytarget:api-table:runtime:{fn}:{type(e).__name__}",
                              f"{c['label']}: generated code fails: {e}", {"call": c["label"], "source": bp.program})
                continue
            sp = any(np.asarray(v).dtype in (np.dtype("float32"), np.dtype("complex64")) for v in inp.values())
            if not _num_close(got, ref, c.get("exact", False), single=sp):
                dis += 1
                ctx.violation(f"pytarget:api-table:value:{fn}",
                              f"{c['label']}: generated Python gives {got.reshape(-1)[:6].tolist()}…, NumPy's {fn} "
                              f"{ref.reshape(-1)[:6].tolist()}…", {"call": c["label"], "source": bp.program})
    ctx.note_batch("api-table-vs-numpy-functions", cases, dis, exhaustive=False, refused_as_not_supported=refused)


# --------------------------------------------------------------------------
# the Lean model of the generator (PtModel.PyGen, object of `pygen_sound`) vs the real generator: TEXT
# --------------------------------------------------------------------------

def _text_cases(ctx):
    """(label, graph) from the program stream, the scalar-operand forms, C19's near-misses and the API table"""
    import operator
    import pytato as pt
    from .. import apitable
    from . import c19
    n = 1500 if ctx.thorough else 400
    cfg = programs.Config(exclude=("csr",), output_namer=lambda k: ["zeta", "beta", "mid", "alpha", "omega"][k % 5]
                          + ("" if k < 5 else str(k)))
    for i in range(n):
        p = programs.generate(ctx.seed + 1400, i, cfg)
        yield f"program:{i}", pt.transform.deduplicate(p.expr())
    scalars = [2, -2, 3, -3, 0, 1.5, -0.5, -2.0, np.int32(2), np.int64(-3), np.int8(-2), np.float32(1.5), np.float32(-2),
               np.float64(1.1), np.float64(-2.0), True, float("inf"), float("-inf"), float("nan"), np.float64("inf"),
               np.float64("-inf"), np.float32("inf"), np.float32("-inf"), np.float32("nan"), -0.0, np.float64(-0.0)]
    ops = {"+": operator.add, "-": operator.sub, "*": operator.mul, "/": operator.truediv, "**": operator.pow,
           "//": operator.floordiv, "%": operator.mod}
    for dt in ("int8", "int32", "int64", "float32", "float64", "uint8"):
        x = pt.make_placeholder("x", (4,), np.dtype(dt))
        for s in scalars:
            for on, op in ops.items():
                for side in (0, 1):
                    try:
                        with np.errstate(all="ignore"):
                            e = op(x, s) if side == 0 else op(s, x)
                    except Exception:   # noqa: BLE001
                        continue
                    if isinstance(e, pt.Array):
                        yield f"scalar:{dt}:{on}:{s!r}:{'array-op-scalar' if side == 0 else 'scalar-op-array'}", e
    # fill values / typed constants of every kind
    for dt in ("float32", "float64", "int32", "bool", "complex64"):
        for v in (0, 1, 2, -3, 1.5, float("nan"), float("inf"), float("-inf"), np.float32("nan"), np.float64("nan"),
                  np.float32("inf"), np.float64("-inf"), np.float32(2.5), np.int8(-3), True, 1.0, 0.0, -0.0):
            try:
                with np.errstate(all="ignore"):
                    np.full((1,), v, dtype=np.dtype(dt))   # no NumPy meaning (nan as an integer): not a case
                yield f"full:{dt}:{v!r}", pt.full((3, 2), v, dtype=np.dtype(dt))
            except Exception:   # noqa: BLE001
                continue
        for v in (float("nan"), np.float32("nan"), float("-inf"), np.float32("inf"), 2.5):
            try:
                yield f"full-default-dtype:{v!r}", pt.full((2,), v)
                yield f"full-0d:{v!r}", pt.full((), v)
            except Exception:   # noqa: BLE001
                continue
        yield f"zeros:{dt}", pt.zeros((2, 3), dtype=np.dtype(dt))
        yield f"ones:{dt}", pt.ones((2, 3), dtype=np.dtype(dt))
    # several outputs in every insertion order
    import itertools
    a = pt.make_placeholder("a", (3,), np.float64)
    outs = {"zeta": a + 1, "alpha": a * 2, "mid": a - 3}
    for perm in itertools.permutations(outs):
        yield "outputs:" + ",".join(perm), pt.make_dict_of_named_arrays({k: outs[k] for k in perm})
    # every form of subscript: slices of either sign (re-synthesis), dropped trailing slices, integers,
    # contiguous / non-contiguous advanced indices, advanced indices separated by an ellipsis for no axis
    x3 = pt.make_placeholder("x", (4, 5, 6), np.float64)
    y2 = pt.make_placeholder("y", (4, 5), np.float64)
    i1 = pt.make_placeholder("i1", (3,), np.int64)
    i2 = pt.make_placeholder("i2", (3,), np.int64)
    forms = {
        "neg-step-empty": lambda: x3[-10::-1], "neg-step": lambda: x3[::-1, 3:0:-2], "full-neg": lambda: x3[::-1, ::-1, ::-1],
        "trailing-dropped": lambda: x3[1:3], "middle": lambda: x3[:, 1:3], "ints": lambda: x3[1, -1, 2],
        "int-slice": lambda: x3[-1, 1:-1], "all-trivial": lambda: x3[:, :, :], "clipped": lambda: x3[-100:100, 7:2],
        "contig": lambda: x3[i1, i2], "contig-mid": lambda: x3[:, i1, i2], "noncontig": lambda: x3[i1, :, i2],
        "noncontig-int": lambda: x3[i1, 1:3, 2], "ellipsis-no-axis": lambda: y2[i1, ..., i2],
        "ellipsis-no-axis-then-slice": lambda: x3[i1, ..., i2, 1:3], "ellipsis-no-axis-int": lambda: y2[1, ..., i2],
        "slice-then-ellipsis-no-axis": lambda: x3[:, i1, ..., i2], "index-of-index": lambda: x3[i1, i2][::-1, 2],
    }
    for fl, mk in forms.items():
        try:
            yield "subscript:" + fl, mk()
        except Exception:   # noqa: BLE001
            continue
    for label, il in list(c19.near_misses(ctx)) + _own_near_misses():
        yield "near-miss:" + label, il
    with np.errstate(all="ignore"):
        for c in apitable.cases(ctx.seed, ctx.thorough):
            if c["family"] == "sparse":
                continue
            try:
                node = c["build"](**{k: pt.make_placeholder(k, v.shape, v.dtype) for k, v in c["inputs"].items()})
            except Exception:   # noqa: BLE001
                continue
            if isinstance(node, pt.Array):
                yield "api:" + c["label"], pt.transform.deduplicate(pt.make_dict_of_named_arrays({"o": node}))


def _construct_of(line: str) -> str:
    import re
    m = re.search(r"_pt_np\.(\w+)", line)
    if m:
        return m.group(1)
    if line.lstrip().startswith("return"):
        return "return"
    rhs = line.split("=", 1)[1] if "=" in line else line
    if "{" in rhs:
        return "dict"
    if "[" in rhs:
        return "subscript"
    if rhs.strip().endswith(".T"):
        return "T"
    return "binop"


def _run_program_text(args, body, inputs, bound=None):
    """compile a function body (real or model) and run it on the inputs"""
    src = "import numpy as _pt_np\nimport numpy as np\ndef _pt_kernel(*, " + ", ".join(args) + "):\n" \
        + "\n".join("    " + ln for ln in body) + "\n" if args else \
        "import numpy as _pt_np\nimport numpy as np\ndef _pt_kernel():\n" + "\n".join("    " + ln for ln in body) + "\n"
    ns: dict = {}
    exec(compile(src, "<pygen>", "exec"), ns)   # noqa: S102 - the generated program IS the object under test
    kw = {k: v for k, v in inputs.items() if k in args}
    kw.update(bound or {})
    with np.errstate(all="ignore"):
        return ns["_pt_kernel"](**kw)


def _judge(ctx, label, expr, bp, real, model):
    """a disagreement between the real generator and its model: find out on the REAL code whether the property
    is violated (run the real program against the reference evaluator and the declared dtypes)"""
    import pytato as pt
    from ..reflect import walk
    from pytato.array import DictOfNamedArrays, Placeholder
    from . import c19
    rng = np.random.default_rng(abs(hash(label)) % (2 ** 31) if False else 141)
    inputs = {n.name: c19._data(rng, tuple(int(d) for d in n.shape), n.dtype)
              for n in walk(expr) if isinstance(n, Placeholder) and all(isinstance(d, (int, np.integer)) for d in n.shape)}
    try:
        ref = evaluate(expr, inputs)
    except Exception as e:   # noqa: BLE001
        return None, f"reference evaluator fails: {type(e).__name__}"
    if bp is None:
        return None, "the real generator refuses"
    try:
        with np.errstate(all="ignore"):
            got = bp(**{k: v for k, v in inputs.items() if k in bp.expected_arguments})
    except Exception as e:   # noqa: BLE001
        return f"the generated program fails at run time: {type(e).__name__}: {e}", None
    items = [(k, got[k], ref[k], expr._data[k]) for k in expr._data] if isinstance(expr, DictOfNamedArrays) \
        else [("result", got, ref, expr)]
    for k, g, r, node in items:
        g = np.asarray(g)
        if g.shape != r.shape or not close(g, r, single=True, exact=False):
            return (f"output {k}: the generated program returns {g.reshape(-1)[:6].tolist()} (shape {g.shape}), the "
                    f"graph denotes {np.asarray(r).reshape(-1)[:6].tolist()} (shape {r.shape})"), None
        if g.dtype != np.dtype(node.dtype):
            return (f"output {k}: the generated program returns dtype {g.dtype}, the graph declares {node.dtype}"), None
    return None, "the real program computes what the graph denotes"


def batch_text_model(ctx):
    """`(pygen …)`: the text the Lean model of NumpyCodegenMapper emits for the reflectively serialised real graph
    vs the real `bp.program` (modulo the fixed module header), and the refusal classification"""
    from .. import pygenser
    cases, queries = [], []
    for label, expr in _text_cases(ctx):
        try:
            q, _ = pygenser.serialise(expr)
        except Exception as e:   # noqa: BLE001
            ctx.broken.append(f"pygen-serialiser:{label.split(':')[0]}:{type(e).__name__}")
            continue
        bp = None
        try:
            with np.errstate(all="ignore"):
                bp = pytarget.generate(expr)
            real = ("program",) + pygenser.real_body(bp.program)
        except _not_supported() as e:
            real = ("refuse", type(e).__name__)
        except Exception as e:   # noqa: BLE001
            real = ("crash", f"{type(e).__name__}: {str(e)[:80]}")
        cases.append((label, expr, bp, real))
        queries.append(q)
    answers = common.driver_query_parallel(queries)
    dis = 0
    counts = {"same-text": 0, "both-refuse": 0, "unmodelled": 0, "disagree": 0}
    fam_counts: dict[str, dict[str, int]] = {}
    unmodelled: dict[str, int] = {}
    in_fragment = 0
    outside: dict[str, int] = {}
    crashes: dict[str, int] = {}
    for (label, expr, bp, real), a in zip(cases, answers):
        fam = label.split(":")[0]
        fc = fam_counts.setdefault(fam, {"same-text": 0, "both-refuse": 0, "unmodelled": 0, "disagree": 0})
        m = pygenser.parse_model(a)
        if m[0] == "error":
            ctx.broken.append(f"pygen-driver:{a[:60]}")
            continue
        if real[0] == "crash":
            # the real generator fails with an error that is not one of the documented refusals: a violation
            counts["real-crash"] = counts.get("real-crash", 0) + 1
            fc["real-crash"] = fc.get("real-crash", 0) + 1
            crashes[f"{label}: {real[1]}"[:160]] = 1
            dis += 1
            ctx.violation(f"pygen-text:generate-crash:{real[1].split(':')[0]}",
                          f"{label}: generate_numpy_like fails with {real[1]} — neither a program nor a documented "
                          f"refusal (the model of the generator answers: {m[0]}"
                          f"{' ' + m[1] if m[0] != 'program' else ''})",
                          {"check": "pygen-text", "case": label, "real": list(real),
                           "model": m[1:3] if m[0] == "program" else m[1:]})
            continue
        if m[0] == "unmodelled":
            counts["unmodelled"] += 1
            fc["unmodelled"] += 1
            unmodelled[m[1][:40]] = unmodelled.get(m[1][:40], 0) + 1
            continue
        if real[0] == "program" and m[0] == "program" and list(real[1]) == m[1] and list(real[2]) == m[2]:
            counts["same-text"] += 1
            fc["same-text"] += 1
            # is the graph inside the fragment `pygen_sound` is proved for?
            if m[3] == "yes":
                in_fragment += 1
            elif m[3] is not None:
                for k in m[3][3:].split(","):
                    outside[k] = outside.get(k, 0) + 1
            continue
        if real[0] != "program" and m[0] == "refuse":
            counts["both-refuse"] += 1
            fc["both-refuse"] += 1
            continue
        # ---- disagreement: search on the real code
        counts["disagree"] += 1
        fc["disagree"] += 1
        dis += 1
        if real[0] == "program" and m[0] == "program":
            diff = next(((x, y) for x, y in zip(real[2], m[2]) if x != y), None)
            if diff is None:
                diff = (f"def …({', '.join(real[1])}) / {len(real[2])} lines", f"def …({', '.join(m[1])}) / {len(m[2])} lines")
            what_diff = f"emits `{diff[0]}` where the model of the generator emits `{diff[1]}`"
            construct = _construct_of(diff[0])
        elif real[0] == "program":
            what_diff = f"emits a program where the model refuses ({m[1]})"
            construct = "accepts-" + m[1].split("(")[0]
        else:
            what_diff = f"{'refuses' if real[0] == 'refuse' else 'crashes'} ({real[1]}) where the model emits a program"
            construct = "refuses"
        bad, ok = _judge(ctx, label, expr, bp, real, m)
        if bad is not None:
            ctx.violation(f"pygen-text:{construct}",
                          f"{label}: the NumPy-like target {what_diff}; {bad}",
                          {"check": "pygen-text", "case": label, "real": real[1:] if real[0] == "program" else real,
                           "model": m[1:3] if m[0] == "program" else m[1:], "observed": bad})
        else:
            ctx.broken.append(f"correspondence:pygen-text:{fam}:{construct}:{label[:60]}:{ok}")
    total = sum(counts.values())
    ctx.note_batch("lean-generator-model-vs-real-text", total, dis, exhaustive=False, counts=counts,
                   per_family=fam_counts, unmodelled_reasons=unmodelled,
                   modelled_fraction=round(1 - counts["unmodelled"] / max(total, 1), 4),
                   real_generator_crashes=sorted(crashes),
                   programs_in_proved_fragment=in_fragment,
                   proved_fragment_fraction=round(in_fragment / max(counts["same-text"], 1), 4),
                   outside_fragment_node_kinds=dict(sorted(outside.items(), key=lambda kv: -kv[1])))



def batch_names(ctx):
    """every function name the target can emit must exist in numpy (the array module)"""
    from pytato.target.python import numpy_like as nl
    names = set(nl.PYTATO_REDUCTION_TO_NP_REDUCTION.values()) | set(nl.COMPARISON_OP_TO_CALL.values()) \
        | set(nl.LOGICAL_OP_TO_CALL.values()) | {"ones", "zeros", "full", "where", "broadcast_to", "einsum",
                                                 "reshape", "stack", "concatenate", "roll", "transpose"}
    from pytato.raising import C99CallOp
    import pytato.raising as raising
    for f in sorted(raising.PT_C99UNARY_FUNCS | raising.PT_C99BINARY_FUNCS):
        try:
            names.add(nl._c99_callop_numpy_name(C99CallOp(f, ())))
        except Exception:   # noqa: BLE001
            names.add(f)
    dis = 0
    for nm in sorted(names):
        if not hasattr(np, nm):
            dis += 1
            ctx.violation(f"pytarget:missing-attr:numpy.{nm}",
                          f"the NumPy-like target can emit `{nm}`, which the installed NumPy {np.__version__} "
                          "does not provide", {"name": nm, "numpy": np.__version__})
    ctx.note_batch("emitted-names-exist-in-numpy", len(names), dis, exhaustive=True, names=sorted(names))


def batch_call_sequences(ctx):
    """one bound program called several times: every call takes exactly the user's inputs — a missing one is an error
    in EVERY call (also after a call that passed it), the result depends on this call's inputs only, wrapped data stay
    bound and unmodified, and what one call was given is not kept for the next"""
    import pytato as pt
    from ..refeval import close, evaluate
    rng = np.random.default_rng(ctx.seed + 1470)
    cases = dis = 0
    for i in range(60 if ctx.thorough else 20):
        p = programs.generate(ctx.seed + 1471, i)
        if len(p.inputs) < 1:
            continue
        expr = pt.transform.deduplicate(p.expr())
        try:
            bp = pytarget.generate(expr)
        except Exception:   # noqa: BLE001  (unsupported programs are judged by the other batches)
            continue
        # the USER's inputs: what the entry point expects minus what is pre-bound (wrapped data)
        names = sorted(set(bp.expected_arguments) - set(bp.bound_arguments))
        if not names:
            continue
        bound_before = {k: np.array(v, copy=True) for k, v in bp.bound_arguments.items()}
        ins1, ins2 = p.make_inputs(rng), p.make_inputs(rng)
        ins2_all = ins2      # (the reference wants every placeholder of the graph, also one the program does not read)
        ins1 = {k: v for k, v in ins1.items() if k in names}
        ins2 = {k: v for k, v in ins2.items() if k in names}
        cases += 1

        def fail(sig, what):
            nonlocal dis
            dis += 1
            ctx.violation(f"pytarget:call-sequence:{sig}", f"program {i}: {what}",
                          {"seed": ctx.seed + 1471, "program_index": i, "arguments": names})
        try:
            r1 = bp(**ins1)
        except Exception as e:   # noqa: BLE001
            fail("first-call-fails", f"{type(e).__name__}: {str(e)[:100]}")
            continue
        # (a) a later call without one input must fail like a first call without it
        missing = names[i % len(names)]
        try:
            bp(**{k: v for k, v in ins2.items() if k != missing})
            fail("missing-input-accepted-after-a-complete-call",
                 f"the second call omits {missing!r} and is accepted (the first call's value is still bound)")
            continue
        except TypeError:
            pass
        except Exception as e:   # noqa: BLE001
            fail("missing-input-wrong-error", f"omitting {missing!r} raises {type(e).__name__}, a fresh program raises TypeError")
            continue
        # (b) a call with no input at all
        try:
            bp()
            fail("no-input-accepted", "a call without any input is accepted after earlier calls")
            continue
        except TypeError:
            pass
        except Exception:   # noqa: BLE001
            pass
        # (c) the next complete call computes from ITS inputs; the first result is reproduced afterwards
        try:
            r2, r1b = bp(**ins2), bp(**ins1)
        except Exception as e:   # noqa: BLE001
            fail("later-call-fails", f"{type(e).__name__}: {str(e)[:100]}")
            continue
        ref2 = evaluate(expr, ins2_all)
        ok2 = all(close(r2[k], ref2[k]) for k in ref2) if isinstance(ref2, dict) else close(r2, ref2)
        same1 = all(close(r1b[k], r1[k]) for k in r1) if isinstance(r1, dict) else close(r1b, r1)
        if not ok2 or not same1:
            fail("result-depends-on-call-history", "the result of a call depends on the calls made before it")
            continue
        # (d) wrapped data: still bound, same contents, and no user input has crept into the bound arguments
        after = bp.bound_arguments
        if set(after) != set(bound_before) or any(not np.array_equal(np.asarray(after[k]), bound_before[k]) for k in bound_before):
            fail("bound-arguments-changed", f"bound arguments before {sorted(bound_before)} / after the calls {sorted(after)}")
    ctx.note_batch("call-sequences-on-one-bound-program", cases, dis, exhaustive=False)


def run(ctx: common.Ctx):
    ctx.assumptions += [
        "NumPy's kernels are executed, not verified; JAX is absent: only the generator shared by both targets and "
        "the NumPy interface are exercised",
        "type casts are dropped by the target (raising): values compared with single-precision tolerance, dtype "
        "deviations counted, not flagged",
    ]
    ctx.lean_obligations("PtProofs.C14", THEOREMS)
    batch_names(ctx)
    batch_call_sequences(ctx)
    batch_slices(ctx)
    batch_scalar_operands(ctx)
    batch_near_misses(ctx)
    batch_api_table(ctx)
    batch_programs(ctx)
    batch_text_model(ctx)
    ctx.broken = sorted(set(ctx.broken))[:50]


def replay(ctx, path):
    print(open(path).read()[:3000])
    run(ctx)
    return ctx.finish()

"""C05 — "applying deduplicate, eliminate_dead_code or materialize_with_mpms twice
gives the same result as applying it once", on graphs that ALREADY carry
materialization decisions when the transformation sees them.

The seeded program stream of the main batch tags sparsely and its graphs are mostly
trees; whether a transformation's decision for a node depends on what it has just
done to the node's operands only shows on graphs where decisions made BEFORE the
call (ImplStored tags of the user, outputs that other outputs use) sit above, below
and beside the nodes the call itself decides about.

  family   seeded small DAGs with heavy sharing (every new node draws its operands
           from all earlier nodes; unary / binary / reduction-free index lambdas,
           plus reshapes, transposes, stacks, so that not every node is an index lambda),
           x  ImplStored placed by the generator on a random subset of the nodes
              (density 0, 0.2, 0.45) before the transformation
           x  outputs: a random subset of the nodes, so that outputs are used by
              other outputs and some nodes are dead
  oracle   for every transformation T flagged idempotent in c05.transformations():
           T(T(g)) == T(g) — by pytato's ==, by the reflective fingerprint, and by
           the set of stored nodes (reflective read of the tags);
           T leaves the tags the generator placed in place (a stored node stays stored).
"""
from __future__ import annotations

import random

import numpy as np

from .. import reflect


def small_dag(rng: random.Random, size: int, density: float):
    """DictOfNamedArrays over (4,) and (2,2) float arrays"""
    import pytato as pt
    from pytato.tags import ImplStored
    p = pt.make_placeholder("p", (4,), np.float64)
    q = pt.make_placeholder("q", (4,), np.float64)
    w = pt.make_data_wrapper(np.arange(4.0) + 1)
    pool = [p, q, w]
    interior = []
    unary = [pt.sin, pt.cos, pt.exp, lambda a: -a, lambda a: a * 2, lambda a: a + 1]
    binary = [lambda a, b: a + b, lambda a, b: a * b, lambda a, b: a - b, pt.maximum]
    other = [lambda a: pt.reshape(pt.reshape(a, (2, 2)).T, (4,)), lambda a: pt.roll(a, 1),
             lambda a: pt.stack([a, a])[1], lambda a: pt.concatenate([a, a])[2:6], lambda a: a[::-1],
             pt.zeros_like, pt.ones_like]
    for _ in range(size):
        c = rng.random()
        # operands: half of the time among the three newest nodes (chains), else anywhere (fan-out)
        def pick():
            return rng.choice(pool[-3:]) if rng.random() < 0.5 else rng.choice(pool)
        if c < 0.3:
            n = rng.choice(unary)(pick())
        elif c < 0.85:
            n = rng.choice(binary)(pick(), pick())
        else:
            n = rng.choice(other)(pick())
        if rng.random() < density:
            n = n.tagged(ImplStored())
        pool.append(n)
        interior.append(n)
    # outputs: every node nothing uses (so that the whole graph is live) and up to two used ones
    # (outputs that other outputs use); now and then a single output, the rest dead
    used = {id(c) for n in interior for _, c in reflect.children(n)}
    sinks = [n for n in interior if id(n) not in used]
    if rng.random() < 0.15:
        outs = [interior[-1]]
    else:
        outs = sinks + rng.sample(interior, min(rng.randint(0, 2), len(interior)))
    return pt.make_dict_of_named_arrays({f"o{i}": o for i, o in enumerate(outs)})


def stored(expr) -> list:
    from pytato.tags import ImplStored
    return [n for n in reflect.walk(expr, into_functions=True)
            if any(isinstance(t, ImplStored) for t in (getattr(n, "tags", None) or ()))]


def partners(a, b) -> dict[int, object] | None:
    """id(node of a) -> the node of b at the same place (a and b: the same graph up to tags);
    None when they do not have the same shape"""
    out: dict[int, object] = {}

    def rec(x, y) -> bool:
        if id(x) in out:
            return True
        if type(x) is not type(y):
            return False
        out[id(x)] = y
        cx = reflect.children(x, into_functions=True)
        cy = reflect.children(y, into_functions=True)
        if [lb for lb, _ in cx] != [lb for lb, _ in cy]:
            return False
        return all(rec(u, v) for (_, u), (_, v) in zip(cx, cy))
    return out if rec(a, b) else None


def check_idempotence(ctx, transformations, fingerprint):
    import pytato as pt
    T = {k: f for k, (f, props) in transformations.items() if "idempotent" in props}
    N = 2500 if ctx.thorough else 360
    n = bad = changed_second = 0
    per = {k: 0 for k in T}
    acted = {k: 0 for k in T}
    pre_above = 0
    reported = set()
    for i in range(N):
        rng = random.Random(ctx.seed * 104729 + i)
        size = rng.randint(3, 11)
        density = (0.0, 0.2, 0.45)[i % 3]
        spec = {"family": "c05_idempotence.small_dag", "seed": ctx.seed * 104729 + i, "size": size, "density": density}
        g0 = small_dag(rng, size, density)
        try:
            g = pt.transform.deduplicate(g0)
        except Exception:   # noqa: BLE001  (the main batch reports deduplicate raising)
            continue
        pre = set(stored(g))
        for name, f in T.items():
            try:
                # (deduplicate gets the graph as built; the others require a deduplicated one)
                once = f(g0 if name == "deduplicate" else g)
            except Exception:   # noqa: BLE001  (the main batch reports a transformation raising)
                continue
            n += 1
            per[name] += 1
            s1 = set(stored(once))
            acted[name] += fingerprint(once) != fingerprint(g0 if name == "deduplicate" else g)
            pre_above += bool(pre) and len(s1) > len(pre)
            problem = None
            try:
                twice = f(once)
            except Exception as e:   # noqa: BLE001
                problem = (f"second-application-raises:{type(e).__name__}", str(e)[:200])
                twice = None
            if twice is not None:
                s2 = set(stored(twice))
                if s1 != s2:
                    problem = ("not-idempotent",
                               f"the second application stores {len(s2 - s1)} more / {len(s1 - s2)} fewer node(s): "
                               f"{[type(x).__name__ for x in (s2 ^ s1)][:4]}")
                elif not (twice == once) or fingerprint(twice) != fingerprint(once):
                    problem = ("not-idempotent", "the second application changes the graph")
            if problem is None and name == "materialize_with_mpms":
                # only adds decisions: the node at the place of one the user stored is stored
                pm = partners(g, once)
                ids1 = {id(x) for x in stored(once)}
                lost = None if pm is None else [x for x in stored(g) if id(pm[id(x)]) not in ids1]
                if pm is None:
                    problem = ("changes-more-than-tags", "the result does not have the shape of the argument")
                elif lost:
                    problem = ("drops-user-decision", f"{len(lost)} node(s) tagged ImplStored beforehand are not afterwards")
            if problem is None:
                continue
            bad += 1
            changed_second += 1
            sig = f"transform:{name}:{problem[0]}"
            if sig in reported:
                continue
            reported.add(sig)
            ctx.violation(sig, f"{name} on a graph of {size} nodes with {len(pre)} node(s) stored beforehand "
                               f"({spec}): {problem[1]}; stored after one application: {len(s1)}",
                          {"check": "idempotence", "transformation": name, "graph": spec})
    ctx.note_batch("idempotence-on-pre-materialized-graphs", n, bad, exhaustive=False, graphs=N,
                   applications=per, applications_that_changed_the_graph=acted,
                   cases_where_the_call_stored_more_than_the_user=pre_above)

"""C05 — "applying deduplicate, eliminate_dead_code or materialize_with_mpms twice
gives the same result as applying it once", on graphs that ALREADY carry
materialization decisions when the transformation sees them.

The seeded program stream of the main batch tags sparsely and its graphs are mostly
trees; whether a transformation's decision for a node depends on what it has just
done to the node's operands only shows on graphs where decisions made BEFORE the
call (ImplStored tags of the user, outputs that other outputs use) sit above, below
and beside the nodes the call itself decides about.

  family   seeded small DAGs with heavy sharing (every new node draws its operands
           from all earlier nodes; unary / binary / reduction-free index lambdas,
           plus reshapes, transposes, stacks, so that not every node is an index lambda),
           x  ImplStored placed by the generator on a random subset of the nodes
              (density 0, 0.2, 0.45) before the transformation
           x  outputs: a random subset of the nodes, so that outputs are used by
              other outputs and some nodes are dead
  oracle   for every transformation T flagged idempotent in c05.transformations():
           T(T(g)) == T(g) — by pytato's ==, by the reflective fingerprint, and by
           the set of stored nodes (reflective read of the tags);
           T leaves the tags the generator placed in place (a stored node stays stored).
"""
from __future__ import annotations

import random

import numpy as np

from .. import reflect


def plan_dag(rng: random.Random, size: int):
    """a seeded plan of a small DAG: [(function, operand numbers)], outputs.  Node numbers: 0..2 the
    leaves, 3+i the i-th planned node.  Every node draws its operands from all earlier ones."""
    import pytato as pt
    unary = [pt.sin, pt.cos, pt.exp, lambda a: -a, lambda a: a * 2, lambda a: a + 1]
    binary = [lambda a, b: a + b, lambda a, b: a * b, lambda a, b: a - b, pt.maximum]
    other = [lambda a: pt.reshape(pt.reshape(a, (2, 2)).T, (4,)), lambda a: pt.roll(a, 1),
             lambda a: pt.stack([a, a])[1], lambda a: pt.concatenate([a, a])[2:6], lambda a: a[::-1],
             pt.zeros_like, pt.ones_like]
    steps = []
    for i in range(size):
        npool = 3 + i

        def pick():
            # half of the time among the three newest nodes (chains), else anywhere (fan-out)
            return rng.randrange(max(0, npool - 3), npool) if rng.random() < 0.5 else rng.randrange(npool)
        c = rng.random()
        if c < 0.3:
            steps.append((rng.choice(unary), (pick(),)))
        elif c < 0.85:
            steps.append((rng.choice(binary), (pick(), pick())))
        else:
            steps.append((rng.choice(other), (pick(),)))
    # outputs: every node nothing uses (so that the whole graph is live) and up to two used ones
    # (outputs that other outputs use); now and then a single output, the rest dead
    used = {o for _, ops in steps for o in ops}
    sinks = [3 + i for i in range(size) if 3 + i not in used]
    if rng.random() < 0.15:
        outs = [3 + size - 1]
    else:
        outs = sinks + rng.sample(range(3, 3 + size), min(rng.randint(0, 2), size))
    return steps, outs


def build(plan, tagged=frozenset()):
    """(DictOfNamedArrays, the planned nodes) over (4,) float arrays; the nodes numbered in
    `tagged` carry ImplStored"""
    import pytato as pt
    from pytato.tags import ImplStored
    steps, outs = plan
    pool = [pt.make_placeholder("p", (4,), np.float64), pt.make_placeholder("q", (4,), np.float64),
            pt.make_data_wrapper(_DATA)]
    for i, (fn, ops) in enumerate(steps):
        n = fn(*(pool[o] for o in ops))
        if 3 + i in tagged:
            n = n.tagged(ImplStored())
        pool.append(n)
    return pt.make_dict_of_named_arrays({f"o{k}": pool[o] for k, o in enumerate(outs)}), pool


_DATA = np.arange(4.0) + 1


def tag_sets(rng: random.Random, plan, picks: set[int]) -> list[tuple[str, frozenset]]:
    """where the generator places ImplStored before the transformation: nowhere; at random; and
    relative to the nodes the materializer picks on the untagged graph — on their users (above),
    on their operands (below), on a mix"""
    steps, _ = plan
    nodes = list(range(3, 3 + len(steps)))
    above = sorted({3 + i for i, (_, ops) in enumerate(steps) if set(ops) & picks} - picks)
    below = sorted({o for i, (_, ops) in enumerate(steps) if 3 + i in picks for o in ops if o >= 3} - picks)

    def some(xs):
        xs = list(xs)
        return frozenset(rng.sample(xs, rng.randint(1, len(xs)))) if xs else None
    out = [("none", frozenset()),
           ("random", frozenset(n for n in nodes if rng.random() < 0.3))]
    for label, xs in (("above-the-picked", above), ("below-the-picked", below),
                      ("around-the-picked", sorted(set(above) | set(below) | picks)),
                      ("above-and-random", sorted(set(above) | {n for n in nodes if rng.random() < 0.2}))):
        t = some(xs)
        if t is not None:
            out.append((label, t))
    # and one decision at a time, right above / right below a picked node
    out += [("one-above-the-picked", frozenset([x])) for x in above]
    out += [("one-below-the-picked", frozenset([x])) for x in below]
    return out


def same_tags_everywhere(a, b) -> bool:
    """same shape, and node by node the same tags (reflective; pytato's == is asked separately)"""
    pm = partners(a, b)
    if pm is None:
        return False
    return all(getattr(x, "tags", None) == getattr(pm[id(x)], "tags", None)
               for x in reflect.walk(a, into_functions=True))


def stored(expr) -> list:
    from pytato.tags import ImplStored
    return [n for n in reflect.walk(expr, into_functions=True)
            if any(isinstance(t, ImplStored) for t in (getattr(n, "tags", None) or ()))]


def partners(a, b) -> dict[int, object] | None:
    """id(node of a) -> the node of b at the same place (a and b: the same graph up to tags);
    None when they do not have the same shape"""
    out: dict[int, object] = {}

    def rec(x, y) -> bool:
        if id(x) in out:
            return True
        if type(x) is not type(y):
            return False
        out[id(x)] = y
        cx = reflect.children(x, into_functions=True)
        cy = reflect.children(y, into_functions=True)
        if [lb for lb, _ in cx] != [lb for lb, _ in cy]:
            return False
        return all(rec(u, v) for (_, u), (_, v) in zip(cx, cy))
    return out if rec(a, b) else None


def check_idempotence(ctx, transformations, fingerprint):
    import pytato as pt
    T = {k: f for k, (f, props) in transformations.items() if "idempotent" in props}
    N = 1500 if ctx.thorough else 130
    n = bad = 0
    per = {k: 0 for k in T}
    acted = {k: 0 for k in T}
    placements: dict[str, int] = {}
    more_than_user = 0
    reported = set()
    for i in range(N):
        seed = ctx.seed * 104729 + i
        rng = random.Random(seed)
        size = rng.randint(4, 13)
        plan = plan_dag(rng, size)
        # what the materializer picks when the user has decided nothing
        picks: set[int] = set()
        try:
            g_plain, pool = build(plan)
            g_plain_d = pt.transform.deduplicate(g_plain)
            pm = partners(g_plain, pt.materialize_with_mpms(g_plain_d))
            if pm is not None:
                st = {id(x) for x in stored(pm[id(g_plain)])}
                picks = {k for k, node in enumerate(pool) if k >= 3 and id(node) in pm and id(pm[id(node)]) in st}
        except Exception:   # noqa: BLE001  (the main batch reports a transformation raising)
            pass
        for label, tagged in tag_sets(rng, plan, picks):
            spec = {"family": "c05_idempotence", "seed": seed, "size": size, "placement": label,
                    "tagged": sorted(tagged)}
            g0, _ = build(plan, tagged)
            try:
                g = pt.transform.deduplicate(g0)
            except Exception:   # noqa: BLE001
                continue
            placements[label] = placements.get(label, 0) + 1
            n_pre = len(stored(g))
            for name, f in T.items():
                if name != "materialize_with_mpms" and label not in ("none", "random"):
                    continue        # the tags matter to the materializer only
                arg = g0 if name == "deduplicate" else g      # (the others require a deduplicated graph)
                try:
                    once = f(arg)
                except Exception:   # noqa: BLE001
                    continue
                n += 1
                per[name] += 1
                s1 = set(stored(once))
                acted[name] += (len(list(reflect.walk(once))) < len(list(reflect.walk(arg)))) if name == "deduplicate" \
                    else not (once == arg)
                more_than_user += name == "materialize_with_mpms" and bool(n_pre) and len(s1) > n_pre
                problem = None
                try:
                    twice = f(once)
                except Exception as e:   # noqa: BLE001
                    problem = (f"second-application-raises:{type(e).__name__}", str(e)[:200])
                    twice = None
                if twice is not None:
                    s2 = set(stored(twice))
                    if s1 != s2:
                        problem = ("not-idempotent",
                                   f"the second application stores {len(s2 - s1)} more / {len(s1 - s2)} fewer node(s): "
                                   f"{[type(x).__name__ for x in (s2 ^ s1)][:4]}")
                    elif not (twice == once) or not same_tags_everywhere(once, twice) \
                            or (n % 7 == 0 and fingerprint(twice) != fingerprint(once)):
                        problem = ("not-idempotent", "the second application changes the graph")
                if problem is None and name == "materialize_with_mpms":
                    # only adds decisions: the node at the place of one the user stored is stored
                    pm = partners(g, once)
                    ids1 = {id(x) for x in stored(once)}
                    lost = None if pm is None else [x for x in stored(g) if id(pm[id(x)]) not in ids1]
                    if pm is None:
                        problem = ("changes-more-than-tags", "the result does not have the shape of the argument")
                    elif lost:
                        problem = ("drops-user-decision",
                                   f"{len(lost)} node(s) tagged ImplStored beforehand are not afterwards")
                if problem is None:
                    continue
                bad += 1
                sig = f"transform:{name}:{problem[0]}"
                if sig in reported:
                    continue
                reported.add(sig)
                ctx.violation(sig, f"{name} on a graph of {size} nodes with {n_pre} node(s) stored beforehand "
                                   f"({spec}): {problem[1]}; stored after one application: {len(s1)}",
                              {"check": "idempotence", "transformation": name, "graph": spec})
    ctx.note_batch("idempotence-on-pre-materialized-graphs", n, bad, exhaustive=False, plans=N,
                   placements=placements, applications=per, applications_that_changed_the_graph=acted,
                   cases_where_the_call_stored_more_than_the_user=more_than_user)

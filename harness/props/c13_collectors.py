"""C13 — what the gathering / collecting traversals RETURN on graphs that are
deliberately not deduplicated.

Property clause: "a cached traversal ... reaches every array a node depends on",
over graphs "with and without structurally equal duplicates; every public mapper
class".  A traversal that visits every node can still lose one when it puts its
partial results together.  pytato has two documented flavours of collectors:

  set-based      (InputGatherer, SizeParamGatherer, DependencyMapper,
                 DirectPredecessorsGetter, ...): the result is a set under `==`;
                 equal nodes are ONE element however many objects there are;
  identity-based (ListOfInputsGatherer "preserving duplicates",
                 ListOfDirectPredecessorsGetter, TopoSortMapper,
                 get_num_nodes(count_duplicates=True), get_node_multiplicities,
                 ...): every OBJECT counts once.

  family   every collector of the table below
           x  graphs from C13's generators, SPLIT reflectively: along a random
              subset of edges (all of them / a third) the child is replaced by a
              fresh equal object — equal-but-distinct leaves (placeholders, size
              parameters, data wrappers) AND equal-but-distinct interior nodes;
              plus traced functions whose bodies contain such pairs
  oracle   G the split graph, D its reflective deduplication (harness code, not
           pytato's Deduplicator):
           set-based       result(G) == result(D) as sets under `==`;
           identity-based  no object is listed twice, the listed objects fall in
                           the same `==` classes as result(D), and per class
                           every distinct object in the collector's scope (a
                           reflective walk by id) is listed.
           FunctionDefinition's diagnostics on its parameters: a body that refers
           to a parameter through two placeholder objects is refused; through one
           object (however often), accepted and that object is handed out.
"""
from __future__ import annotations

import copy
import random
from collections import Counter

from .. import reflect
from ..gen import probes
from .c13 import TRAVERSAL_LIMIT_S, build_graph, time_limit

SPLIT_EDGES = ("operand", "shape", "index", "bind", "entry")

# (FunctionDefinition._placeholders refused a second placeholder object for a parameter only when it was EQUAL to the
# first: found by this batch, repaired in /repo by 9d42804; nothing is exempt any more)
HANDED_OVER: set = set()


# --------------------------------------------------------------------------
# graphs
# --------------------------------------------------------------------------

def split(root, rng: random.Random, p: float):
    """copy of the graph in which, along each array edge of the outer namespace, the
    child is with probability p a FRESH object equal to the original child"""
    from pytato.array import Array
    memo: dict[int, object] = {}

    def cp(n):
        if id(n) in memo:
            return memo[id(n)]
        new = n
        for label, c in reflect.children(n, into_functions=False):
            cc = cp(c)
            if (label.split(":")[0] in SPLIT_EDGES and isinstance(cc, Array)
                    and type(cc).__name__ not in ("NamedCallResult", "LoopyCallResult", "NamedArray")
                    and rng.random() < p):
                cc = copy.copy(cc)
            if cc is not c:
                new = probes.replace_child(new, label, cc)
        memo[id(n)] = new
        return new
    import sys
    old = sys.getrecursionlimit()
    sys.setrecursionlimit(max(old, 20000))
    try:
        return cp(root)
    finally:
        sys.setrecursionlimit(old)


def hand_made():
    """small graphs with equal-but-distinct leaves of every input kind, equal-but-distinct
    interior nodes, and the same inside function bodies"""
    import numpy as np
    import pytato as pt
    from pytato.function import trace_call
    out = []
    data = np.arange(4.0)

    def leaves():
        n = pt.make_size_param("n")
        return (pt.make_placeholder("x", (4,), np.float64), pt.make_data_wrapper(data),
                pt.make_placeholder("s", (n,), np.float64))
    x1, d1, s1 = leaves()
    x2, d2, s2 = leaves()
    out.append(("two-of-every-leaf", pt.make_dict_of_named_arrays(
        {"a": (x1 + d1) * (x2 + d2), "b": s1 + 1, "c": s2 + 1, "d": x1 * x2})))
    out.append(("equal-interior", pt.make_dict_of_named_arrays(
        {"a": pt.sin(x1 + 1) * pt.sin(x1 + 1), "b": (x1 + 1) + pt.sin(x1 + 1)})))

    def body(a, b):
        return {"o": (a + d1) * (a + d2) + pt.sin(b + 1) * pt.sin(b + 1), "p": a + d1}

    def outer(a):
        r = trace_call(body, a + 1, a + 1)
        return {"o": r["o"] + r["p"] + d2}
    r1 = trace_call(body, x1, x2)
    r2 = trace_call(body, x2 + 1, x1 + 1)
    out.append(("calls", pt.make_dict_of_named_arrays({"a": r1["o"] + r2["p"], "b": r1["p"] * x2})))
    out.append(("nested-calls", pt.make_dict_of_named_arrays(
        {"a": trace_call(outer, x1)["o"], "b": trace_call(outer, x2)["o"] + d1})))
    return out


def graphs(ctx):
    out = list(hand_made())
    specs = [{"family": "diamond"}, {"family": "ladder", "depth": 10}, {"family": "every_edge"},
             {"family": "all_kinds"},
             {"family": "nested_calls", "depth": 2, "order": "outer-first", "repeat": 2}]
    nrand = 40 if ctx.thorough else 6
    specs += [{"family": "random", "seed": ctx.seed * 1000 + 700 + i, "size": 25, "rdup": bool(i % 2)}
              for i in range(nrand)]
    for si, spec in enumerate(specs):
        base = build_graph(spec)
        for p in (1.0, 0.34):
            rng = random.Random(ctx.seed * 7919 + si * 31 + int(p * 100))
            try:
                out.append((f"{spec}|split={p}", split(base, rng, p)))
            except Exception as e:   # noqa: BLE001  (a kind the reflective copy cannot rebuild)
                ctx.note_batch("collectors-on-split-graphs:unsplittable", 1, 0, last=f"{spec}: {type(e).__name__}")
    return out


# --------------------------------------------------------------------------
# reflective reference: deduplication with the object map, scope of a collector
# --------------------------------------------------------------------------

def dedup_map(root):
    """(D, m): D = the graph with structurally equal objects merged (by reflection, not by
    pytato's Deduplicator; equality is pytato's `==`), m: id(object of the graph) -> its object in D"""
    canon: dict = {}
    memo: dict[int, object] = {}
    keep = []

    def cp(n):
        if id(n) in memo:
            return memo[id(n)]
        new = n
        for label, c in reflect.children(n, into_functions=True):
            cc = cp(c)
            if cc is not c:
                new = probes.replace_child(new, label, cc)
        try:
            new = canon.setdefault(new, new)
        except TypeError:
            pass
        memo[id(n)] = new
        keep.append(n)
        return new
    import sys
    old = sys.getrecursionlimit()
    sys.setrecursionlimit(max(old, 20000))
    try:
        d = cp(root)
    finally:
        sys.setrecursionlimit(old)
    # objects of D map to themselves
    for o in list(reflect.walk(d, into_functions=True)):
        memo.setdefault(id(o), o)
        keep.append(o)
    memo["__keep__"] = keep      # ids stay valid while the map lives
    return d, memo


def reach(root, excl: set, *, bodies: bool, body_placeholders: bool = False, fds: bool = False):
    """distinct objects (by id) reachable from root along the edges the collector follows
    (`excl`: (node class, edge class) pairs of today's children table it does not follow);
    bodies: also the bodies of the functions called; fds: list the FunctionDefinition objects"""
    from pytato.array import Placeholder
    from pytato.function import FunctionDefinition
    seen: set[int] = set()
    out = []

    def rec(n, inbody):
        if id(n) in seen:
            return
        seen.add(id(n))
        if isinstance(n, FunctionDefinition):
            if fds:
                out.append(n)
            if not bodies:
                return
            inbody = True
        elif not (inbody and isinstance(n, Placeholder) and not body_placeholders):
            out.append(n)
        for label, c in reflect.children(n, into_functions=True):
            if (type(n).__name__, probes.edge_class(label)) in excl:
                continue
            rec(c, inbody)
    import sys
    old = sys.getrecursionlimit()
    sys.setrecursionlimit(max(old, 20000))
    try:
        rec(root, False)
    finally:
        sys.setrecursionlimit(old)
    return out


# --------------------------------------------------------------------------
# the collectors
# --------------------------------------------------------------------------

class Collector:
    def __init__(self, name, run, mode, *, table=None, bodies=False, body_placeholders=False, fds=False,
                 roots="graph"):
        self.name, self.run, self.mode = name, run, mode
        self.table = table or name        # row of the children table that says which edges it follows
        self.bodies, self.body_placeholders, self.fds = bodies, body_placeholders, fds
        self.roots = roots      # "graph": run on the graph; "nodes": run on every array of it


def _quiet(cls, *a):
    """the set-based collectors are cached by `==` and report a cache-key collision by
    default; asked not to, they must give the set"""
    try:
        return cls(*a, err_on_collision=False)
    except TypeError:
        return cls(*a)


def collectors():
    import pytato.analysis as pa
    import pytato.transform as ptf

    def topo(g):
        m = ptf.TopoSortMapper()
        m(g)
        return m.topological_order

    out = [
        Collector("InputGatherer", lambda g: _quiet(ptf.InputGatherer)(g), "set", bodies=True),
        Collector("ListOfInputsGatherer", lambda g: ptf.ListOfInputsGatherer()(g), "objects", bodies=True),
        Collector("SizeParamGatherer", lambda g: _quiet(ptf.SizeParamGatherer)(g), "set", bodies=True),
        Collector("DependencyMapper", lambda g: _quiet(ptf.DependencyMapper)(g), "set", roots="nodes"),
        Collector("TopoSortMapper", topo, "objects"),
        Collector("fn:get_num_nodes(count_duplicates=False)",
                  lambda g: pa.get_num_nodes(g, count_duplicates=False), "count-set", table="NodeCountMapper"),
        Collector("fn:get_num_nodes(count_duplicates=True)",
                  lambda g: pa.get_num_nodes(g, count_duplicates=True), "count-objects", table="NodeCountMapper",
                  fds=True),
        Collector("fn:get_node_multiplicities", lambda g: dict(pa.get_node_multiplicities(g)), "multiplicity",
                  table="NodeMultiplicityMapper", fds=True),
        Collector("fn:collect_materialized_nodes", lambda g: pa.collect_materialized_nodes(g), "set",
                  table="MaterializedNodeCollector"),
        Collector("DirectPredecessorsGetter", lambda n: pa.DirectPredecessorsGetter()(n), "set", roots="nodes"),
        Collector("ListOfDirectPredecessorsGetter",
                  lambda n: pa.ListOfDirectPredecessorsGetter()(n), "predecessor-list", roots="nodes"),
    ]
    if hasattr(pa, "get_num_tags_of_type"):
        from pytato.tags import ImplStored
        out.append(Collector("fn:get_num_tags_of_type", lambda g: pa.get_num_tags_of_type(g, ImplStored),
                             "count-set", table="TagCountMapper"))
    return out


def _names(objs, n=4):
    return [type(o).__name__ for o in list(objs)[:n]]


def judge(c: Collector, g, d, m, excl):
    """-> None | (kind, text).  g: split graph (or a node of it), d = m[g] the same in the
    deduplicated graph, m the object map, excl the edges the collector does not follow"""
    with time_limit(TRAVERSAL_LIMIT_S):
        rg = c.run(g)
        rd = c.run(d)
    if c.mode == "count-set":
        return None if rg == rd else ("set-result-depends-on-duplicates", f"{rg} on the graph, {rd} deduplicated")
    if c.mode == "count-objects":
        import pytato.analysis as pa
        scope = reach(g, excl, bodies=c.bodies, body_placeholders=c.body_placeholders, fds=c.fds)
        counted = {id(o) for o in pa.get_node_multiplicities(d)}
        want = sum(1 for o in scope if id(m[id(o)]) in counted)
        return None if rg == want else ("objects-miscounted",
                                        f"{rg} counted, {want} distinct objects by reflection ({rd} deduplicated)")
    if c.roots == "nodes":
        # components of a DERIVED shape are made on the fly (C20 judges them): not objects of either graph
        rg = [o for o in rg if id(o) in m]
        rd = [o for o in rd if id(o) in m]
    foreign = [o for o in rg if id(o) not in m]
    if foreign:
        return ("lists-foreign-object", f"{_names(foreign)} are not objects of the graph")
    listed = {id(o): o for o in rd}                       # objects of D the collector lists there
    image = {id(m[id(o)]): m[id(o)] for o in rg}          # where the objects listed on G go in D
    if c.mode == "set":
        if set(image) != set(listed):
            return ("set-result-depends-on-duplicates",
                    f"lost {_names(v for k, v in listed.items() if k not in image)}, "
                    f"extra {_names(v for k, v in image.items() if k not in listed)} w.r.t. the deduplicated graph")
        return None
    scope = reach(g, excl, bodies=c.bodies, body_placeholders=c.body_placeholders, fds=c.fds)
    if c.mode == "multiplicity":
        want = Counter(id(m[id(o)]) for o in scope if id(m[id(o)]) in listed)
        got = Counter()
        for k, cnt in rg.items():
            got[id(m[id(k)])] += cnt
        if got != want:
            bad = [(type(listed.get(k, image.get(k))).__name__, got.get(k, 0), want.get(k, 0))
                   for k in set(got) | set(want) if got.get(k, 0) != want.get(k, 0)]
            return ("objects-miscounted", f"(kind, reported, distinct objects by reflection): {bad[:4]}")
        return None
    if c.mode == "predecessor-list":
        kids = {id(ch): ch for _, ch in reflect.children(g, into_functions=False) + reflect.derived_shape_children(g)}
        scope = [o for o in kids.values() if id(o) in m]
        if any(id(o) not in kids for o in rg):
            return ("lists-foreign-object", "a listed predecessor is not a child object of the node")
    else:
        ids = Counter(id(o) for o in rg)
        twice = [o for o in rg if ids[id(o)] > 1]
        if twice:
            return ("object-listed-twice", f"{_names(twice)}")
    if set(image) != set(listed):
        return ("object-list-classes-differ",
                f"lost {_names(v for k, v in listed.items() if k not in image)}, "
                f"extra {_names(v for k, v in image.items() if k not in listed)} w.r.t. the deduplicated graph")
    got = {id(o) for o in rg}
    dropped = [o for o in scope if id(m[id(o)]) in listed and id(o) not in got]
    if dropped:
        return ("object-dropped-as-equal",
                f"{len(got)} objects listed, {len(got) + len(dropped)} distinct objects in scope by reflection; "
                f"not listed: {Counter(type(o).__name__ for o in dropped).most_common(4)}")
    return None


# --------------------------------------------------------------------------
# FunctionDefinition's parameter diagnostics
# --------------------------------------------------------------------------

def function_cases():
    """(label, FunctionDefinition, {parameter: [placeholder objects in the body]})"""
    import numpy as np
    import pytato as pt
    from constantdict import constantdict
    from pytato.function import FunctionDefinition, ReturnType
    from pytato.tags import ImplStored

    def fd(params, **rets):
        rt = ReturnType.ARRAY if list(rets) == ["_"] else ReturnType.DICT_OF_ARRAYS
        return FunctionDefinition(parameters=frozenset(params), return_type=rt,
                                  returns=constantdict(rets), tags=frozenset())

    def u(shape=(4,), dtype=np.float64):
        return pt.make_placeholder("u", shape, dtype)
    w = pt.make_placeholder("w", (4,), np.float64)
    out = []
    a = u()
    out.append(("one-object-used-twice", fd({"u"}, _=a + a)))
    out.append(("one-object-two-returns", fd({"u", "w"}, p=a + w, q=pt.sin(a) * w)))
    a, b = u(), u()
    out.append(("equal:operands", fd({"u"}, _=a + b)))
    a, b = u(), u()
    out.append(("equal:deep", fd({"u", "w"}, p=pt.sin(a + w), q=pt.cos(w) * (b + 1))))
    a, b = u(), u()
    out.append(("equal:index", fd({"u"}, _=a[pt.cast(b, np.int64) % 4] if hasattr(pt, "cast") else a + b)))
    a, b = u(), u((5,))
    out.append(("unequal:shape", fd({"u"}, _=a + b[:4])))
    a, b = u(), u(dtype=np.float32)
    out.append(("unequal:dtype", fd({"u"}, _=a + b)))
    a = u()
    out.append(("unequal:tags", fd({"u"}, _=a + a.tagged(ImplStored()))))
    # the duplicate sits in the body of a function CALLED from the body: not this definition's parameter
    a, b = u(), u()
    inner = fd({"u"}, _=a + b)
    c = u()
    try:
        out.append(("inner-function-only", fd({"u"}, _=pt.function.Call(
            inner, bindings=constantdict({"u": c}), tags=frozenset())["_"] + c)))
    except Exception:   # noqa: BLE001
        pass
    return out


def check_function_parameters(ctx):
    from pytato.array import Placeholder
    n = bad = 0
    handed = {}
    for label, f in function_cases():
        objs: dict[str, list] = {}
        for ret in f.returns.values():
            for o in reflect.walk(ret, into_functions=False):
                if isinstance(o, Placeholder) and all(o is not q for q in objs.setdefault(o.name, [])):
                    objs[o.name].append(o)
        several = {k: v for k, v in objs.items() if len(v) > 1}
        for how in ("get_placeholder", "call"):
            n += 1
            try:
                with time_limit(TRAVERSAL_LIMIT_S):
                    if how == "get_placeholder":
                        got = {k: f.get_placeholder(k) for k in sorted(f.parameters)}
                    else:
                        import pytato as pt
                        f(**{k: pt.make_placeholder(f"arg_{k}", v[0].shape, v[0].dtype) for k, v in objs.items()})
                        got = None
                err = None
            except Exception as e:   # noqa: BLE001
                err, got = e, None
            problem = None
            if several and err is None:
                kind = "equal" if all(o == v[0] for v in several.values() for o in v) else "unequal"
                problem = (f"function-parameter-through-two-placeholders-accepted:{kind}",
                           f"the body refers to parameter(s) {sorted(several)} through "
                           f"{[len(v) for v in several.values()]} distinct placeholder objects ({kind}); "
                           f"{how} accepts it" + (f" and hands out {got}" if got else ""))
            elif not several and err is not None:
                problem = ("function-parameter-diagnostic-spurious",
                           f"every parameter is referred to through ONE placeholder object, yet {how} raises "
                           f"{type(err).__name__}: {err}")
            elif not several and got is not None and any(got[k] is not objs[k][0] for k in got):
                problem = ("function-parameter-wrong-object", "get_placeholder hands out another object than the body's")
            if problem is None:
                continue
            if problem[0] in HANDED_OVER:
                handed[problem[0]] = f"{label}/{how}"
                continue
            bad += 1
            ctx.violation(problem[0], f"FunctionDefinition ({label}): {problem[1]}",
                          {"check": "collectors", "case": label, "how": how,
                           "graph": {"family": "c13_collectors.function_cases", "label": label}})
    ctx.note_batch("function-parameter-diagnostics", n, bad, exhaustive=True, handed_over=handed)


# --------------------------------------------------------------------------
# the batch
# --------------------------------------------------------------------------

def check_collectors(ctx, t=None):
    from pytato.array import Array
    from ..extract import children as ch
    if t is None:
        t = ch.extract()
    cs = collectors()
    gs = graphs(ctx)
    everyone = set()
    for e in t.entries:
        everyone |= {x for x in ch.exclusions_for(t, e.name) if x[1] not in ("function", "ret")}
    table_names = {e.name for e in t.entries}
    n = bad = refused = 0
    reported: set[str] = set()
    per = Counter()
    with_dups = 0
    for gname, g in gs:
        d, m = dedup_map(g)
        n_obj = sum(1 for _ in reflect.walk(g, into_functions=True))
        n_cls = sum(1 for _ in reflect.walk(d, into_functions=True))
        with_dups += n_obj > n_cls
        for c in cs:
            excl = ({x for x in ch.exclusions_for(t, c.table) if x[1] not in ("function", "ret")}
                    if c.table in table_names else everyone)
            if c.roots == "graph":
                pairs = [(g, d)]
            else:
                nodes = [o for o in reflect.walk(g, into_functions=False) if isinstance(o, Array)]
                stride = max(1, len(nodes) // (40 if ctx.thorough else 12))
                pairs = [(o, m[id(o)]) for o in nodes[::stride]]
            for a, b in pairs:
                try:
                    verdict = judge(c, a, b, m, excl)
                except Exception as e:   # noqa: BLE001  (refusals of node kinds are C20's / the table's subject)
                    refused += 1
                    why = "reports-collision" if "collision" in str(e) else type(e).__name__
                    per[f"refused:{c.name}:{why}"] += 1
                    continue
                n += 1
                per[c.name] += 1
                if verdict is None:
                    continue
                bad += 1
                sig = f"collector:{verdict[0]}:{c.name}"
                if sig in reported:
                    continue
                reported.add(sig)
                ctx.violation(sig, f"{c.name} ({'identity' if c.mode not in ('set', 'count-set') else 'set'}-based) on "
                                   f"{gname} ({n_obj} objects, {n_cls} after deduplication): {verdict[1]}",
                              {"check": "collectors", "mapper": c.name, "graph": {"family": "c13_collectors", "name": gname}})
    ctx.note_batch("collectors-on-split-graphs", n, bad, exhaustive=False, graphs=len(gs),
                   graphs_with_duplicates=with_dups, refused=refused, per_collector=dict(per))
    check_function_parameters(ctx)

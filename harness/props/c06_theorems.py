THEOREMS = ["Pt.distribute_sound", "Pt.can_dist_is_linear", "Pt.tableCanDist_linear", "Pt.distribute_sound_table",
            "Pt.not_linear_scalar_over_array", "Pt.einsum_add", "Pt.einsum_sub", "Pt.einsum_smul", "Pt.einsum_muls",
            "Pt.einsum_div_scalar", "Pt.einsum_lincomb", "Pt.distribute_ctx_sound", "Pt.noBroadcast_sound"]

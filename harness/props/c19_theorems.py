THEOREMS = ["Pt.raise_sound", "Pt.raise_sound_reduce", "Pt.raise_reduce_inv", "Pt.raise_rejects",
            "Pt.raise_reduce_prefix_misreads"]

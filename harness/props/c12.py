"""C12 — outlining a function and inlining its calls are inverse and value-preserving.

Theorems (PtProofs/C12.lean, when present): substitution lemma for placeholder
replacement without capture; `inline_sound`.

Tie / search: seeded functions whose bodies are programs of C01's generator over
1..4 parameters, returning an array, a tuple or a dict; call sites with
positional / keyword / mixed arguments, repeated calls with different arguments,
nesting depth <= 3, caller placeholders named like the callee's parameters.
(1) trace_call results have the shapes/dtypes/values of calling the Python
function directly (reference evaluator with a call interpreter);
(2) tag_all_calls_to_be_inlined + inline_calls gives a call-free graph with
identical values; (3) both also through generated code (loopy C target)."""
from __future__ import annotations

import random

import numpy as np

from .. import cexec, common, reflect
from ..gen import programs
from ..refeval import close, evaluate

try:
    from .c12_theorems import THEOREMS
except ImportError:
    THEOREMS = []


class FnGen:
    """functions f(*arrays) built from a fixed op recipe so that the SAME python function can be applied
    directly and through trace_call"""

    def __init__(self, rng):
        self.rng = rng

    def make_body(self, nparams, shapes, ret_kind):
        """returns python callable body(*args, **kwargs) -> array | tuple | dict, deterministic"""
        import pytato as pt
        r = self.rng
        recipe = []
        nsteps = r.randint(1, 5)
        for _ in range(nsteps):
            recipe.append((r.choice(["add", "mul", "sub", "scalar", "sin", "sum_bcast", "roll", "where", "neg", "idx",
                                     "stackmean"]),
                           r.randrange(10 ** 6)))

        def body(*args, **kwargs):
            vals = list(args) + [kwargs[k] for k in sorted(kwargs)]
            pool = list(vals)
            for op, salt in recipe:
                rr = random.Random(salt)
                a = rr.choice(pool)
                same = [p for p in pool if tuple(p.shape) == tuple(a.shape)]
                b = rr.choice(same)
                if op == "add":
                    e = a + b
                elif op == "mul":
                    e = a * b
                elif op == "sub":
                    e = a - 2 * b
                elif op == "scalar":
                    e = a * 1.5 + 1
                elif op == "sin":
                    e = pt.sin(a)
                elif op == "sum_bcast":
                    e = a + pt.sum(b)
                elif op == "roll":
                    e = pt.roll(a, 1, 0) if a.ndim else a
                elif op == "where":
                    e = pt.where(pt.greater(a, b), a, b * 0.5)
                elif op == "neg":
                    e = -a
                elif op == "idx":
                    e = a[::-1] if a.ndim else a
                else:
                    e = pt.sum(pt.stack([a, b]), axis=0) / 2
                pool.append(e)
            outs = pool[len(vals):] or [pool[0] + 1]
            if ret_kind == "bigtuple":
                # more than ten outputs: "_10" sorts before "_2" as a string
                nbig = 11 + (recipe[0][1] % 4)
                return tuple((outs[-1] + i) * (i + 1) for i in range(nbig))
            if ret_kind == "array":
                return outs[-1]
            if ret_kind == "tuple":
                return tuple(outs[-2:]) if len(outs) > 1 else (outs[-1],)
            return {f"r{i}": o for i, o in enumerate(outs[-3:])}
        return body


_ARG_DTYPES = [np.float64, np.float64, np.float64, np.float32, np.complex128, np.float32]


def build_case(ctx, rng, ci):
    """returns (direct outputs dict, traced outputs dict, placeholders dict)"""
    import pytato as pt
    g = FnGen(rng)
    nparams = rng.randint(1, 4)
    shape = tuple(rng.randint(1, 4) for _ in range(rng.randint(0, 2)))
    ret_kind = rng.choice(["array", "tuple", "dict", "array", "tuple", "dict", "bigtuple"])
    body = g.make_body(nparams, [shape] * nparams, ret_kind)
    phs = {}

    def ph(name):
        if name not in phs:
            # arguments of several element types (a traced parameter copies the dtype of ITS argument, however passed)
            phs[name] = pt.make_placeholder(name, shape, rng.choice(_ARG_DTYPES))
        return phs[name]
    # caller placeholders sometimes named like the callee's parameters (in__pt_0, in_a, ...)
    adversarial = rng.random() < 0.4
    kwnames = ["a", "b", "c", "d"]
    direct, traced = {}, {}
    ncalls = rng.randint(1, 3)
    nest = rng.randint(0, 2)

    def flatten(prefix, out):
        if isinstance(out, dict):
            return {f"{prefix}_{k}": v for k, v in sorted(out.items())}
        if isinstance(out, tuple):
            return {f"{prefix}_{i}": v for i, v in enumerate(out)}
        return {prefix: out}

    for c in range(ncalls):
        npos = rng.randint(0, nparams)
        names = []
        for i in range(nparams):
            if adversarial and rng.random() < 0.6:
                names.append(rng.choice([f"in__pt_{i}", f"in_{kwnames[i]}", "_pt_0", f"in__pt_{(i + 1) % 4}"]))
            else:
                names.append(f"x{rng.randint(0, 4)}")
        args = [ph(n) for n in names]
        # arguments may themselves be expressions
        args = [a if rng.random() < 0.7 else a * 2 + 1 for a in args]
        pos, kw = args[:npos], {kwnames[i]: args[i] for i in range(npos, nparams)}
        # keyword arguments are written in any order, not only alphabetically
        kwi = list(kw.items())
        rng.shuffle(kwi)
        kw = dict(kwi)

        f = body
        d = f(*pos, **kw)
        t = pt.trace_call(f, *pos, **kw)
        # nesting: feed a result into another traced call of a wrapper calling f again
        for lvl in range(nest):
            first_d = d if isinstance(d, pt.Array) else (d[0] if isinstance(d, tuple) else d[sorted(d)[0]])
            first_t = t if isinstance(t, pt.Array) else (t[0] if isinstance(t, tuple) else t[sorted(t)[0]])

            def wrapper(z, f=f, pos=pos, kw=kw, npos=npos):
                inner_args = [z] * nparams
                out = pt.trace_call(f, *inner_args[:npos], **{kwnames[i]: inner_args[i] for i in range(npos, nparams)})
                o = out if isinstance(out, pt.Array) else (out[0] if isinstance(out, tuple) else out[sorted(out)[0]])
                return o + z

            def wrapper_direct(z, f=f, npos=npos):
                inner_args = [z] * nparams
                out = f(*inner_args[:npos], **{kwnames[i]: inner_args[i] for i in range(npos, nparams)})
                o = out if isinstance(out, pt.Array) else (out[0] if isinstance(out, tuple) else out[sorted(out)[0]])
                return o + z
            d = wrapper_direct(first_d)
            t = pt.trace_call(wrapper, first_t)
        direct.update(flatten(f"c{c}", d))
        traced.update(flatten(f"c{c}", t))
    return direct, traced, phs, {"ret": ret_kind, "nparams": nparams, "ncalls": ncalls, "nest": nest,
                                 "adversarial_names": adversarial, "shape": shape}


def count_calls(expr):
    from pytato.function import Call
    return sum(1 for n in reflect.walk(expr, into_functions=False) if isinstance(n, Call))


def run(ctx: common.Ctx):
    import pytato as pt
    ctx.assumptions += ["graphs are passed through deduplicate before tagging/inlining, as pytato requires",
                        "floating point: scale-aware tolerance"]
    if THEOREMS:
        ctx.lean_obligations("PtProofs.C12", THEOREMS)
    else:
        ctx.coverage["lean"] = "C12 theorem file not yet present in this revision"
    rng = random.Random(ctx.seed * 71 + 12)
    nprng = np.random.default_rng(ctx.seed + 121)
    N = 900 if ctx.thorough else 150
    cases = dis = 0
    stats = {"array": 0, "tuple": 0, "dict": 0, "bigtuple": 0, "keyword_calls": 0, "nested": 0, "adversarial": 0,
             "calls_before_inlining": 0, "pretagged": 0}
    jobs, meta = [], []
    for ci in range(N):
        cases += 1
        try:
            direct, traced, phs, info = build_case(ctx, rng, ci)
        except Exception as e:   # noqa: BLE001
            dis += 1
            ctx.violation(f"calls:trace_call-raises:{type(e).__name__}",
                          f"case {ci} (seed {ctx.seed}): trace_call raised {type(e).__name__}: {e}",
                          {"case": ci, "seed": ctx.seed, "error": f"{type(e).__name__}: {e}"})
            continue
        stats[info["ret"]] += 1
        stats["nested"] += info["nest"] > 0
        stats["adversarial"] += info["adversarial_names"]
        inp = {n: (nprng.integers(-4, 5, size=p.shape) / 2.0
                   + (1j * nprng.integers(-4, 5, size=p.shape) / 2.0 if p.dtype.kind == "c" else 0)).astype(p.dtype)
               for n, p in phs.items()}
        # (1) metadata + values: traced vs direct
        bad = False
        for k in direct:
            if k not in traced or tuple(traced[k].shape) != tuple(direct[k].shape) or traced[k].dtype != direct[k].dtype:
                dis += 1
                bad = True
                ctx.violation("calls:result-metadata", f"case {ci}: result {k} of the traced call has other shape/dtype "
                              "than the direct application", {"case": ci, "seed": ctx.seed, "info": info})
                break
        if bad:
            continue
        dexpr = pt.make_dict_of_named_arrays(direct)
        try:
            texpr = pt.transform.deduplicate(pt.make_dict_of_named_arrays(traced))
        except Exception as e:   # noqa: BLE001
            dis += 1
            ctx.violation(f"calls:deduplicate-raises:{type(e).__name__}",
                          f"case {ci} (seed {ctx.seed}): deduplicate of the graph with traced calls raised "
                          f"{type(e).__name__}: {e}"[:400], {"case": ci, "seed": ctx.seed, "info": info})
            continue
        try:
            ref = evaluate(dexpr, inp)
            got = evaluate(texpr, inp)
        except Exception as e:   # noqa: BLE001
            ctx.broken.append(f"refeval:{type(e).__name__}:{e}"[:120])
            continue
        if any(not close(got[k], ref[k], exact=False) for k in ref):
            dis += 1
            ctx.violation("calls:traced-value-differs",
                          f"case {ci} (seed {ctx.seed}): the call results differ from applying the function directly",
                          {"case": ci, "seed": ctx.seed, "info": info})
            continue
        # (2) inline
        ncalls = count_calls(texpr)
        stats["calls_before_inlining"] += ncalls
        try:
            to_tag = texpr
            if rng.random() < 0.4:
                # some calls carry the inline tag already (a multi-step user): tag-all must still reach what is below them
                from pytato.function import Call
                from pytato.tags import InlineCallTag
                prng = random.Random(ctx.seed * 7919 + ci)

                def pretag(n, prng=prng):
                    if isinstance(n, Call) and prng.random() < 0.6 and not n.tags_of_type(InlineCallTag):
                        return n.tagged(InlineCallTag())
                    return n
                to_tag = pt.transform.map_and_copy(texpr, pretag)
                stats["pretagged"] += 1
            inl = pt.inline_calls(pt.tag_all_calls_to_be_inlined(to_tag))
        except Exception as e:   # noqa: BLE001
            dis += 1
            ctx.violation(f"calls:inline-raises:{type(e).__name__}", f"case {ci}: inline_calls raised {type(e).__name__}: {e}",
                          {"case": ci, "seed": ctx.seed, "info": info})
            continue
        left = count_calls(inl)
        from pytato.function import NamedCallResult
        left += sum(1 for n in reflect.walk(inl) if isinstance(n, NamedCallResult))
        if left:
            dis += 1
            ctx.violation("calls:not-call-free-after-inlining", f"case {ci}: {left} call nodes remain after inlining all calls",
                          {"case": ci, "seed": ctx.seed, "info": info})
            continue
        try:
            got2 = evaluate(inl, inp)
        except Exception as e:   # noqa: BLE001
            dis += 1
            ctx.violation(f"calls:inlined-graph-invalid:{type(e).__name__}", f"case {ci}: {e}", {"case": ci, "seed": ctx.seed})
            continue
        if any(not close(got2[k], ref[k], exact=False) for k in ref):
            dis += 1
            ctx.violation("calls:inlined-value-differs",
                          f"case {ci} (seed {ctx.seed}): the inlined graph evaluates differently "
                          f"(caller placeholders named like parameters: {info['adversarial_names']})",
                          {"case": ci, "seed": ctx.seed, "info": info,
                           "placeholders": sorted(phs)})
            continue
        if ci % 3 == 0 and len(jobs) < (300 if ctx.thorough else 40):
            jobs.append(cexec.Job(tag=f"call{ci}", expr=pt.tag_all_calls_to_be_inlined(texpr), runs=[inp]))
            # (a float32 / complex64 input makes every value that depends on it single precision, whatever the result
            #  dtype: C's sinf and NumPy's float32 sin differ in the last place)
            meta.append((ci, ref, dict(info, _single=any(p.dtype in (np.dtype("float32"), np.dtype("complex64"))
                                                          for p in phs.values()))))
        if ci % 25 == 0:
            ctx.sample({"batch": "calls", "case": ci, "info": info, "placeholders": sorted(phs)})
    ctx.note_batch("trace-and-inline-vs-direct-application", cases, dis, exhaustive=False, **stats)
    # (3) generated code for graphs WITH calls (generate_loopy inlines them itself)
    res = cexec.run_jobs(ctx, jobs)
    cdis = 0
    for (ci, ref, info), r in zip(meta, res):
        single = info.pop("_single", False)
        if r.error:
            if str(r.stage).startswith("c-"):
                continue
            cdis += 1
            from .c01 import _short
            ctx.violation(f"calls:codegen:{r.error_class}:{_short(r.error)}", f"case {ci}: {r.stage} failed: {r.error[:300]}",
                          {"case": ci, "seed": ctx.seed, "info": info})
            continue
        out = r.outputs[0]
        if any(k in out and not close(out[k], ref[k], exact=False, single=single) for k in ref):
            cdis += 1
            ctx.violation("calls:generated-code-value-differs", f"case {ci}: generated code for the graph with calls differs",
                          {"case": ci, "seed": ctx.seed, "info": info})
    ctx.note_batch("generated-code-of-graphs-with-calls", len(jobs), cdis, exhaustive=False)
    # (4) structure: the call model of PtModel/CallsMulti.lean vs the real trace_call / inline_calls / tag_all
    from . import c12_struct
    c12_struct.run_struct(ctx)
    ctx.broken = sorted(set(ctx.broken))[:50]


def replay(ctx, path):
    print(open(path).read()[:3000])
    run(ctx)
    return ctx.finish()

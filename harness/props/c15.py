"""C15 — names in generated code are faithful, unique and collision-free.

Theorems (PtProofs/C15.lean) over `Pt.NameGen`, the model of
pytools.UniqueNameGenerator as pytato drives it: a generated name is never an
existing one (`gen_fresh`); every request sequence yields pairwise distinct
names disjoint from all seeds, whatever prefixes are requested and whatever the
user's names are (`genMany_distinct`); `add_name` rejects conflicts.

Tie: (1) random operation sequences, real generator vs model; (2) generated
programs under *adversarial naming*: a first build learns every identifier the
kernel contains, a second build renames the user's inputs/outputs to exactly
those identifiers (outside the reserved patterns) and to near-misses; in the real
kernel all argument/temporary/iname/substitution names must be pairwise
distinct, user names kept verbatim, everything else drawn from `_pt_`/derived
names, bound data handed back unmodified, values still right; (3) clash / Named /
reserved-name scenarios."""
from __future__ import annotations

import random
import re

import numpy as np

from .. import cexec, common, ser
from ..gen import programs
from .c01 import _prep_dedup, compare_outputs

THEOREMS = ["Pt.gen_fresh", "Pt.genMany_distinct", "Pt.addName_conflict", "Pt.addName_ok", "Pt.gen_mono"]

RESERVED = [re.compile(r"^_pt_"), re.compile(r"^_[0-9]+$"), re.compile(r"^_r[0-9]+$"), re.compile(r"^_in[0-9]+$")]
STATIC_POOL = ["pt_temp", "temp_0", "x_dim0", "acc_x", "tmp", "tmp_0", "stage", "acc", "q_0", "i", "j", "n",
               "out", "out_0", "in", "in_0", "store", "x", "x_0", "x_1", "acc_in0", "_temp", "__pt", "pt_"]


def is_reserved(n):
    return any(r.match(n) for r in RESERVED)


def batch_namegen(ctx):
    from pytools import UniqueNameGenerator
    rng = random.Random(ctx.seed * 41 + 15)
    N = 3000 if ctx.thorough else 600
    bases = ["x", "x_0", "x_1", "_pt_temp", "_pt_temp_0", "a_b", "a_b_12", "t", "t_9", "out_dim0", "y_007", "z_", "_0"]
    queries, expected = [], []
    for _ in range(N):
        seeds = rng.sample(bases + [b + "_1" for b in bases], rng.randint(0, 6))
        g = UniqueNameGenerator(set(seeds))
        ops, outs = [], []
        for _ in range(rng.randint(1, 12)):
            if rng.random() < 0.75:
                b = rng.choice(bases)
                ops.append(f"(gen {b})")
                outs.append(g(b))
            elif rng.random() < 0.7:
                n = rng.choice(bases + ["fresh_a", "fresh_b"])
                ops.append(f"(add {n})")
                try:
                    g.add_name(n)
                    outs.append("ok")
                except ValueError:
                    outs.append("!conflict")
            else:
                n = rng.choice(bases)
                ops.append(f"(conflicting {n})")
                outs.append("#t" if g.is_name_conflicting(n) else "#f")
        queries.append(f"(names ({' '.join(seeds)}) ({' '.join(ops)}))")
        expected.append("ok (" + " ".join(outs) + ")")
    ans = common.driver_query_parallel(queries)
    dis = 0
    for q, a, e in zip(queries, ans, expected):
        if a != e:
            dis += 1
            ctx.broken.append(f"correspondence:namegen-model-vs-pytools:{q[:100]}")
    ctx.sample({"batch": "namegen", "query": queries[0], "real": expected[0]})
    ctx.note_batch("namegen-model-vs-pytools", N, dis, exhaustive=False)


def _post(expr, prog):
    """runs in the worker: identity / integrity of pre-bound data"""
    from .. import reflect
    from pytato.array import DataWrapper
    dws = [n for n in reflect.walk(expr) if isinstance(n, DataWrapper)]
    bound = prog.bound_arguments
    ident = {k: any(dw.data is v for dw in dws) for k, v in bound.items()}
    return {"bound_identity": ident, "n_data_wrappers": len({id(d.data) for d in dws}),
            "bound_bytes": {k: np.asarray(v).tobytes() for k, v in bound.items()}}


def check_names(ctx, p, res, user_inputs, user_outputs, allowed_prefixes=()):
    """independent duplicate / faithfulness checks on the real kernel's names"""
    k = res.kir or {}
    if "names" not in k:
        return 0
    nm = k["names"]
    dis = 0
    space = nm["args"] + nm["temps"] + nm["inames"] + nm["substs"]
    dups = sorted({x for x in space if space.count(x) > 1})
    if dups:
        dis += 1
        ctx.violation("names:duplicate-identifier",
                      f"program {p.index}: kernel has one name for two objects: {dups} "
                      f"(user inputs {sorted(user_inputs)}, outputs {sorted(user_outputs)})",
                      {"program_index": p.index, "seed": ctx.seed, "duplicates": dups, "names": nm,
                       "user_inputs": sorted(user_inputs), "user_outputs": sorted(user_outputs)})
    if len(set(nm["insn_ids"])) != len(nm["insn_ids"]):
        dis += 1
        ctx.violation("names:duplicate-instruction-id", f"program {p.index}", {"program_index": p.index})
    ai = res.arg_info or {}
    for u in user_inputs:
        if nm["args"].count(u) != 1:
            dis += 1
            ctx.violation("names:user-input-name-not-kept",
                          f"program {p.index}: placeholder {u!r} is not a kernel argument of exactly that name",
                          {"program_index": p.index, "seed": ctx.seed, "args": nm["args"]})
    for u in user_outputs:
        if nm["args"].count(u) != 1 or (u in ai and not ai[u][3] and u not in user_inputs):
            dis += 1
            ctx.violation("names:output-key-not-kept",
                          f"program {p.index}: output key {u!r} is not an output argument of exactly that name",
                          {"program_index": p.index, "seed": ctx.seed, "args": nm["args"]})
    for x in nm["args"] + nm["temps"]:
        if x in user_inputs or x in user_outputs:
            continue
        if not (x.startswith("_pt_") or any(x.startswith(pref) for pref in allowed_prefixes)
                or x.endswith("_offset")):
            dis += 1
            ctx.violation("names:generated-name-outside-reserved-space",
                          f"program {p.index}: generated identifier {x!r} is neither a user name nor from the "
                          "_pt_ name space",
                          {"program_index": p.index, "seed": ctx.seed, "name": x})
    post = res.post or {}
    bad = [k2 for k2, ok in post.get("bound_identity", {}).items() if not ok]
    if bad:
        dis += 1
        ctx.violation("names:bound-argument-not-the-wrapped-object",
                      f"program {p.index}: pre-bound arguments {bad} are not the wrapped data objects",
                      {"program_index": p.index, "seed": ctx.seed})
    return dis


def _reachable_inputs(p):
    from ..reflect import walk
    from pytato.array import Placeholder
    return {n.name for n in walk(p.expr()) if isinstance(n, Placeholder)}


def _is_conflict_diagnostic(r) -> bool:
    """an explicit name-conflict diagnostic (allowed outcome when an output key equals an input name)"""
    return r.error_class in ("ValueError", "NameClashError") and "conflict" in (r.error or "")


def batch_adversarial(ctx):
    n = 500 if ctx.thorough else 80
    rng = random.Random(ctx.seed * 43 + 150)
    nprng = np.random.default_rng(ctx.seed + 151)
    # pass 1: default names, learn the kernel's identifiers
    progs1, jobs1 = [], []
    for i in range(n):
        p = programs.generate(ctx.seed + 1500, i)
        progs1.append(p)
        jobs1.append(cexec.Job(tag=f"a{i}", expr=p.expr(), runs=[], prep=_prep_dedup, kir_orders=0, no_exec=True))
    res1 = cexec.run_jobs(ctx, jobs1)
    # pass 2..: adversarial renamings
    jobs2, meta = [], []
    for p, r in zip(progs1, res1):
        if r.error or not r.kir or "names" not in r.kir:
            continue
        nm = r.kir["names"]
        learned = [x for x in nm["temps"] + nm["inames"] + nm["substs"] + nm["insn_ids"] + nm["args"]
                   if not is_reserved(x) and x.isidentifier()]
        derived = []
        for x in nm["args"] + nm["inames"] + nm["temps"]:
            derived += [f"acc_{x}", f"{x}_0", f"{x}_dim0", f"{x}_store", f"{x}_lbound", f"{x}_ubound", f"{x}_offset"]
        derived = [x for x in derived if not is_reserved(x)]
        for variant in range(3 if ctx.thorough else 2):
            pool = list(dict.fromkeys(learned + rng.sample(derived, min(len(derived), 8)) + STATIC_POOL))
            rng.shuffle(pool)
            nin, nout = len(p.inputs), len(p.outputs)
            if len(pool) < nin + nout:
                continue
            in_names = pool[:nin]
            out_pool = pool[nin:]
            # output keys: fresh adversarial names, sometimes equal to an input name
            out_names = []
            for k in range(nout):
                if in_names and rng.random() < 0.15:
                    cand = rng.choice(in_names)
                    if cand not in out_names:
                        out_names.append(cand)
                        continue
                out_names.append(out_pool[k])
            cfg = programs.Config(input_namer=lambda k, a=in_names: a[k], output_namer=lambda k, a=out_names: a[k])
            try:
                p2 = programs.generate(ctx.seed + 1500, p.index, cfg)
            except Exception as e:   # noqa: BLE001
                ctx.broken.append(f"generator:renaming:{type(e).__name__}")
                continue
            if len(p2.outputs) != nout or len(p2.inputs) != nin:
                continue
            # an output key equal to an input name is only meaningful if that output IS that input
            ok = True
            for key, node in p2.outputs.items():
                if key in p2.inputs and getattr(node, "name", None) != key:
                    ok = False
            if not ok:
                continue
            runs = [p2.make_inputs(nprng)]
            jobs2.append(cexec.Job(tag=f"adv{p.index}.{variant}", expr=p2.expr(), runs=runs, prep=_prep_dedup,
                                   kir_orders=0, post=_post, want_source=True))
            meta.append((p2, runs, in_names, out_names))
    res2 = cexec.run_jobs(ctx, jobs2)
    dis = 0
    for (p2, runs, in_names, out_names), r in zip(meta, res2):
        if r.error and _is_conflict_diagnostic(r) and set(in_names) & set(out_names):
            ctx.coverage["output_key_equals_input_name_rejected"] = \
                ctx.coverage.get("output_key_equals_input_name_rejected", 0) + 1
            continue
        if r.error and not str(r.stage).startswith("c-"):
            dis += 1
            from .c01 import _short
            ctx.violation(f"names:codegen-fails-under-renaming:{r.error_class}:{_short(r.error)}",
                          f"program {p2.index}: {r.stage} fails when inputs are named {in_names} and outputs "
                          f"{out_names} (it succeeds with default names): {r.error[:300]}",
                          {"program_index": p2.index, "seed": ctx.seed, "inputs": in_names, "outputs": out_names,
                           "error": r.error})
            continue
        dis += check_names(ctx, p2, r, _reachable_inputs(p2), set(p2.outputs))
        if not r.error:
            dis += compare_outputs(ctx, "names", p2, runs, r, extra={"inputs_named": in_names,
                                                                    "outputs_named": out_names})
        if p2.index % 25 == 0:
            ctx.sample({"batch": "adversarial-naming", "program": p2.index, "inputs": in_names, "outputs": out_names})
    ctx.note_batch("adversarial-naming", len(meta), dis, exhaustive=False, first_pass_programs=n)


class _NameTagger:
    """attaches Named / PrefixNamed (+ImplStored) tags with names drawn from a collision-prone pool;
    its own random source, so that the program structure does not depend on it"""
    def __init__(self, seed, pool):
        self.rng = random.Random(seed)
        self.pool = pool
        self.used_named: set[str] = set()
        self.prefixes: set[str] = set()
        self.named: set[str] = set()
        self.named_allocated: set[str] = set()     # Named on wrapped data / stored temporaries (not outputs)

    def __call__(self, node, ordinal, op):
        from pytato.tags import ImplStored, Named, PrefixNamed
        from pytato.array import DataWrapper, InputArgumentBase
        r = self.rng
        if isinstance(node, DataWrapper):
            if r.random() < 0.7:
                nm = r.choice(self.pool)
                if r.random() < 0.25 and nm not in self.used_named:
                    self.used_named.add(nm)
                    self.named.add(nm)
                    self.named_allocated.add(nm)
                    return node.tagged(Named(nm))
                self.prefixes.add(nm)
                return node.tagged(PrefixNamed(nm))
            return node
        if isinstance(node, InputArgumentBase):
            return node
        if r.random() < 0.3:
            # re-use names already handed out (a Named name requested again as a prefix, and the other way round)
            taken = sorted(self.named | self.prefixes)
            nm = r.choice(taken) if taken and r.random() < 0.5 else r.choice(self.pool)
            if r.random() < 0.4 and nm not in self.used_named:
                self.used_named.add(nm)
                self.named.add(nm)
                return node.tagged((Named(nm), ImplStored()))
            self.prefixes.add(nm)
            return node.tagged((PrefixNamed(nm), ImplStored()))
        return node


def batch_adversarial_tags(ctx):
    """user-chosen names on wrapped data and on stored temporaries (Named / PrefixNamed) that collide with each
    other, with input/output names and with the names code generation derives from them (T_dim<d>, T_<k>, …)"""
    n = 400 if ctx.thorough else 90
    rng = random.Random(ctx.seed * 47 + 153)
    nprng = np.random.default_rng(ctx.seed + 154)
    bases = ["mass", "acc", "t", "q", "rowsum", "out"]
    jobs, meta = [], []
    for i in range(n):
        b = rng.sample(bases, 2)
        pool = []
        for x in b:
            pool += [x, x, f"{x}_dim0", f"{x}_dim1", f"{x}_0", f"{x}_1", f"{x}_store", f"acc_{x}", f"{x}_dim0_0"]
        names = pool[:]
        rng.shuffle(names)
        names = list(dict.fromkeys(names))
        p0 = programs.generate(ctx.seed + 1560, i)
        nin, nout = len(p0.inputs), len(p0.outputs)
        if len(names) < nin + nout:
            continue
        in_names, out_names = names[:nin], names[nin:nin + nout]
        tagger = _NameTagger(ctx.seed * 1009 + i, pool)
        cfg = programs.Config(input_namer=lambda k, a=in_names: a[k], output_namer=lambda k, a=out_names: a[k])
        try:
            p2 = programs.generate(ctx.seed + 1560, i, cfg, tagger)
        except Exception as e:   # noqa: BLE001
            ctx.broken.append(f"generator:tagging:{type(e).__name__}:{str(e)[:80]}")
            continue
        if len(p2.outputs) != nout or len(p2.inputs) != nin:
            continue
        # only what the program reads: an unreachable placeholder may share its name with a Named data wrapper,
        # and a value passed for it would replace the pre-bound data
        reach = _reachable_inputs(p2)
        runs = [{k: v for k, v in p2.make_inputs(nprng).items() if k in reach}]
        jobs.append(cexec.Job(tag=f"tag{i}", expr=p2.expr(), runs=runs, prep=_prep_dedup, kir_orders=0, post=_post,
                              want_source=True))
        meta.append((p2, runs, in_names, out_names, tagger))
    res = cexec.run_jobs(ctx, jobs)
    dis = rejected = 0
    stats = {"with_named": 0, "with_prefix": 0, "explicit_rejections": 0}
    for (p2, runs, in_names, out_names, tg), r in zip(meta, res):
        stats["with_named"] += bool(tg.named)
        stats["with_prefix"] += bool(tg.prefixes)
        if r.error and not str(r.stage).startswith("c-"):
            if tg.named and r.error_class == "ValueError":
                stats["explicit_rejections"] += 1   # "a Named tag yields exactly that name or an error"
                continue
            dis += 1
            from .c01 import _short
            ctx.violation(f"names:codegen-fails-under-name-tags:{r.error_class}:{_short(r.error)}",
                          f"program {p2.index}: {r.stage} fails with inputs {in_names}, outputs {out_names}, "
                          f"Named {sorted(tg.named)}, PrefixNamed {sorted(tg.prefixes)}: {r.error[:300]}",
                          {"program_index": p2.index, "seed": ctx.seed, "inputs": in_names, "outputs": out_names,
                           "named": sorted(tg.named), "prefixes": sorted(tg.prefixes), "error": r.error})
            continue
        # UniqueNameGenerator continues a trailing counter: the prefix "t_0" may yield "t_1"
        dis += check_names(ctx, p2, r, _reachable_inputs(p2), set(p2.outputs),
                           allowed_prefixes=tuple({re.sub(r"_[0-9]+$", "", x) for x in tg.prefixes | tg.named}))
        nmz = (r.kir or {}).get("names", {})
        space = set(nmz.get("args", []) + nmz.get("temps", []))
        # a Named tag that was accepted must have produced exactly that name: on every array of the preprocessed
        # program that is allocated (stored temporaries, wrapped data)
        if not r.error or str(r.stage).startswith("c-"):
            from pytato.array import DataWrapper, InputArgumentBase
            from pytato.tags import ImplStored, Named
            from ..reflect import walk
            outs_ids = {id(v) for v in p2.outputs.values()}
            must = set()
            for node in walk(p2.expr()):
                if not hasattr(node, "tags_of_type") or not node.tags_of_type(Named):
                    continue
                if int(np.prod([int(d) for d in node.shape])) == 0:
                    continue
                if isinstance(node, DataWrapper) or (not isinstance(node, InputArgumentBase) and id(node) not in outs_ids
                                                     and node.tags_of_type(ImplStored)):
                    must |= {t.name for t in node.tags_of_type(Named)}
            missing = sorted(n for n in must if n not in space)
            if missing and nmz:
                dis += 1
                ctx.violation("names:named-tag-not-honoured",
                              f"program {p2.index}: arrays tagged Named {missing} were accepted, but the kernel has no argument "
                              f"or temporary of exactly that name (it has {sorted(space)[:12]}…)",
                              {"program_index": p2.index, "seed": ctx.seed, "named": missing, "names": nmz,
                               "inputs": in_names, "outputs": out_names, "prefixes": sorted(tg.prefixes)})
        if not r.error:
            dis += compare_outputs(ctx, "names", p2, runs, r, extra={"inputs_named": in_names, "outputs_named": out_names,
                                                                    "named": sorted(tg.named),
                                                                    "prefixes": sorted(tg.prefixes)})
        if p2.index % 25 == 0:
            ctx.sample({"batch": "adversarial-name-tags", "program": p2.index, "inputs": in_names, "outputs": out_names,
                        "named": sorted(tg.named), "prefixes": sorted(tg.prefixes)})
    ctx.note_batch("adversarial-name-tags", len(meta), dis, exhaustive=False, **stats)


def batch_scenarios(ctx):
    """hand-picked naming scenarios of the statement, each over a few shapes"""
    import pytato as pt
    from pytato.tags import ImplStored, Named, PrefixNamed
    from pytato.diagnostic import NameClashError
    rng = np.random.default_rng(ctx.seed + 152)
    cases = dis = 0

    def gen_ok(expr):
        try:
            pt.generate_loopy(pt.transform.deduplicate(expr))
            return None
        except Exception as e:   # noqa: BLE001
            return e

    # (a) two distinct inputs with one name must be rejected with a name-clash error
    for shp2, dt2 in [((4,), np.float64), ((3,), np.int32), ((3, 1), np.float64)]:
        cases += 1
        x1 = pt.make_placeholder("x", (3,), np.float64)
        x2 = pt.make_placeholder("x", shp2, dt2)
        e = gen_ok(pt.make_dict_of_named_arrays({"o": x1 * 2, "p": x2 + 1}))
        if not isinstance(e, NameClashError):
            dis += 1
            ctx.violation("names:clash-not-rejected",
                          f"two distinct placeholders named 'x' ({shp2}, {np.dtype(dt2)}): expected NameClashError, got {e!r}",
                          {"shape2": shp2, "dtype2": str(np.dtype(dt2))})
    cases += 1
    n = pt.make_size_param("x")
    e = gen_ok(pt.make_dict_of_named_arrays({"o": pt.make_placeholder("x", (3,), np.float64) * 2,
                                             "p": pt.make_placeholder("y", (n,), np.float64) + 1}))
    if not isinstance(e, NameClashError):
        dis += 1
        ctx.violation("names:clash-not-rejected:size-param", f"size parameter and placeholder both named 'x': got {e!r}", {})
    # (b) Named yields exactly that name or an error
    import loopy as lp
    from pytato.loopy import call_loopy
    from pytato.target.loopy import LoopyPyOpenCLTarget
    _knl = lp.make_kernel("{[i]: 0<=i<4}", "out[i] = 2*a[i] + 1",
                          [lp.GlobalArg("a", dtype=np.float64, shape=(4,)),
                           lp.GlobalArg("out", dtype=np.float64, shape=(4,), is_input=False)],
                          name="callee", lang_version=(2018, 2), target=LoopyPyOpenCLTarget().get_loopy_target())

    def _lpcall(arg):
        return call_loopy(_knl, {"a": arg}, "callee")

    def _named_knl(name, body):
        return lp.make_kernel("{[i]: 0<=i<4}", f"out[i] = {body}",
                              [lp.GlobalArg("a", dtype=np.float64, shape=(4,)),
                               lp.GlobalArg("out", dtype=np.float64, shape=(4,), is_input=False)],
                              name=name, lang_version=(2018, 2), target=LoopyPyOpenCLTarget().get_loopy_target())

    def _call_of(name, body, arg):
        return call_loopy(_named_knl(name, body), {"a": arg}, name)["out"]
    jobs, meta = [], []
    x = pt.make_placeholder("x", (4,), np.float64)
    y = pt.make_placeholder("y", (4,), np.float64)
    _inner = pt.make_dict_of_named_arrays({"a": x * 2, "b": x + y})
    data = np.arange(4.0) + 100
    scen = {
        "named-temp": pt.make_dict_of_named_arrays({"o": (x + 1).tagged((Named("foo"), ImplStored())) * 2}),
        "prefix-equals-input": pt.make_dict_of_named_arrays({"o": (x + 1).tagged((PrefixNamed("x"), ImplStored())) * y}),
        "prefix-equals-output": pt.make_dict_of_named_arrays({"o": (x + 1).tagged((PrefixNamed("o"), ImplStored())) * y}),
        "dw-prefix-equals-input": pt.make_dict_of_named_arrays(
            {"o": pt.make_data_wrapper(data, tags=frozenset({PrefixNamed("x")})) + x}),
        "dw-named-equals-input": pt.make_dict_of_named_arrays(
            {"o": pt.make_data_wrapper(data, tags=frozenset({Named("x")})) + x}),
        # one name requested twice through different tags / for different kinds of object
        "named-then-prefix-same-name": pt.make_dict_of_named_arrays(
            {"o": (lambda p: p + (2 * p).tagged((PrefixNamed("tmp"), ImplStored())))(
                (x + 1).tagged((Named("tmp"), ImplStored())))}),
        "prefix-twice-same-name": pt.make_dict_of_named_arrays(
            {"o": (lambda p: p + (2 * p).tagged((PrefixNamed("tmp"), ImplStored())))(
                (x + 1).tagged((PrefixNamed("tmp"), ImplStored())))}),
        "prefix-then-named-same-name": pt.make_dict_of_named_arrays(
            {"o": (lambda p: p + (2 * p).tagged((Named("tmp"), ImplStored())))(
                (x + 1).tagged((PrefixNamed("tmp"), ImplStored())))}),
        "named-temp-equals-output-key": pt.make_dict_of_named_arrays(
            {"o": (x + 1).tagged((Named("p"), ImplStored())) * 2, "p": y + 1}),
        "dw-prefix-equals-temp-prefix": pt.make_dict_of_named_arrays(
            {"o": pt.make_data_wrapper(data, tags=frozenset({PrefixNamed("mass")}))
             + (x + 1).tagged((PrefixNamed("mass"), ImplStored())) * y}),
        "dw-prefix-equals-temp-named": pt.make_dict_of_named_arrays(
            {"o": pt.make_data_wrapper(data, tags=frozenset({PrefixNamed("mass")}))
             + (x + 1).tagged((Named("mass"), ImplStored())) * y}),
        "dw-prefix-equals-derived-iname": pt.make_dict_of_named_arrays(
            {"out": pt.make_data_wrapper(data, tags=frozenset({PrefixNamed("out_dim0")})) + x}),
        "input-named-like-temp-iname": pt.make_dict_of_named_arrays(
            {"o": (pt.make_placeholder("acc_dim0", (4,), np.float64) + 1).tagged((Named("acc"), ImplStored())) * 2}),
        "output-named-like-temp-iname": pt.make_dict_of_named_arrays(
            {"t_dim0": (x + 1).tagged((Named("t"), ImplStored())) * 2}),
        "reduction-prefix-and-input-like-iname": pt.make_dict_of_named_arrays(
            {"o": pt.sum(pt.make_placeholder("rowsum_dim0", (4, 3), np.float64), axis=1).tagged(PrefixNamed("rowsum")) + x}),
        # Named must yield EXACTLY the name, also next to names that differ only by a numeric suffix
        # (UniqueNameGenerator keeps per-prefix counters: a request for tmp_0 touches the counter of tmp)
        "prefix-suffixed-then-named": pt.make_dict_of_named_arrays(
            {"o": (lambda p: p + (2 * p).tagged((Named("tmp"), ImplStored())))(
                (x + 1).tagged((PrefixNamed("tmp_0"), ImplStored())))}),
        "named-then-prefix-suffixed": pt.make_dict_of_named_arrays(
            {"o": (lambda p: p + (2 * p).tagged((PrefixNamed("tmp_0"), ImplStored())))(
                (x + 1).tagged((Named("tmp"), ImplStored())))}),
        "dw-named-next-to-suffixed-prefix": pt.make_dict_of_named_arrays(
            {"o": pt.make_data_wrapper(data, tags=frozenset({Named("coef")}))
             * (x + 1).tagged((PrefixNamed("coef_0"), ImplStored())) + (y * 2).tagged((PrefixNamed("coef_1"), ImplStored()))}),
        "named-suffixed-and-named-plain": pt.make_dict_of_named_arrays(
            {"o": (lambda p: p + (2 * p).tagged((Named("tmp"), ImplStored())))(
                (x + 1).tagged((Named("tmp_0"), ImplStored())))}),
        # a hand-written loopy kernel in the graph (the callee is merged into the translation unit half-way through
        # code generation): names reserved up front (inputs, output keys) must stay reserved afterwards
        "loopy-call-then-prefix-equals-output": pt.make_dict_of_named_arrays(
            {"res": _lpcall(x)["out"] + (y + 1).tagged((PrefixNamed("res"), ImplStored())) * 2}),
        "loopy-call-then-prefix-equals-later-input": pt.make_dict_of_named_arrays(
            {"o": _lpcall(x)["out"] + (x * 3).tagged((PrefixNamed("y"), ImplStored())) * y}),
        "loopy-call-then-named-equals-output": pt.make_dict_of_named_arrays(
            {"res": _lpcall(x)["out"] + (y + 1).tagged((Named("res"), ImplStored())) * 2}),
        "loopy-call-output-named-like-callee-arg": pt.make_dict_of_named_arrays(
            {"a": _lpcall(x)["out"] * 2, "out": _lpcall(y)["out"] + 1}),
        # several DIFFERENT callee kernels sharing one name (each must get a name of its own), also next to a user
        # kernel that already has the name a renaming would pick
        "three-different-callees-one-name": pt.make_dict_of_named_arrays(
            {"o": _call_of("f", "2*a[i]", x) + _call_of("f", "3*a[i] + 1", y) + _call_of("f", "a[i] - 5", x * y)}),
        "four-different-callees-one-name": pt.make_dict_of_named_arrays(
            {"o": _call_of("g", "2*a[i]", x) + _call_of("g", "3*a[i]", y), "p": _call_of("g", "4*a[i]", y) - _call_of("g", "5*a[i]", x)}),
        "callee-then-user-kernel-named-like-the-renaming-then-callee": pt.make_dict_of_named_arrays(
            {"o": _call_of("f", "2*a[i]", x) + _call_of("f_0", "7*a[i]", y) + _call_of("f", "3*a[i] + 1", x + y)}),
        # an argument of the call that is an expression (stored in a temporary of its own) next to other temporaries
        "loopy-call-expression-argument-next-to-stored-temps": pt.make_dict_of_named_arrays(
            {"o": _lpcall(3 * x + 1)["out"] + (y + 1).tagged(ImplStored()) * 2, "p": _lpcall(x * y)["out"]}),
        "loopy-call-expression-argument-only": pt.make_dict_of_named_arrays({"o": _lpcall(3 * x + 1)["out"]}),
        "loopy-call-named-expression-argument-equals-input": pt.make_dict_of_named_arrays(
            {"o": _lpcall((3 * y + 1).tagged(Named("x")))["out"] + x}),
        # a size parameter reachable ONLY through the shape of an input that is itself an output, named like an
        # identifier code generation derives later (an iname of another output, the prefix of a stored temporary)
        "size-param-only-in-input-shape-named-like-iname": pt.make_dict_of_named_arrays(
            {"a": pt.make_placeholder("xs", (4, pt.make_size_param("b_dim0")), np.float64), "b": (x + y) * 2}),
        "size-param-only-in-input-shape-named-like-temp-prefix": pt.make_dict_of_named_arrays(
            {"a": pt.make_placeholder("xs", (4, pt.make_size_param("tmp")), np.float64),
             "b": (x + 1).tagged((PrefixNamed("tmp"), ImplStored())) * y}),
        # a dictionary of arrays used INSIDE the graph (its entries are operands), next to other temporaries
        "inner-dictionary-next-to-stored-temps": pt.make_dict_of_named_arrays(
            {"o": _inner["a"] + (_inner["b"] * 2).tagged(ImplStored()) + (x * 3).tagged(ImplStored())}),
        "inner-dictionary-and-reduction": pt.make_dict_of_named_arrays(
            {"o": _inner["a"] * pt.sum(_inner["b"]) + (y - 1).tagged(ImplStored())}),
        "inner-dictionary-entries-tagged-after-the-fact": pt.make_dict_of_named_arrays(
            {"o": _inner["a"].tagged(_UserTag()) + _inner["a"] + _inner["b"].with_tagged_axis(-1, _UserTag()) * 2,
             "p": _lpcall(x)["out"].tagged(_UserTag()) + (y + 2).tagged(ImplStored())}),
        "inner-dictionary-named-entry-equals-input": pt.make_dict_of_named_arrays(
            {"o": pt.make_dict_of_named_arrays({"a": (y * 2).tagged(Named("x")), "b": x + y})["a"] + x}),
        "two-unnamed-dws": pt.make_dict_of_named_arrays(
            {"o": pt.make_data_wrapper(data) + pt.make_data_wrapper(data * 2) + x}),
        "same-array-two-keys": pt.make_dict_of_named_arrays({"o": x + y, "p": x + y}),
        "output-is-input": pt.make_dict_of_named_arrays({"x": x, "o": x + 1}),
        "reserved-input-name-pt_data": pt.make_dict_of_named_arrays(
            {"o": pt.make_data_wrapper(data) + pt.make_placeholder("_pt_data", (4,), np.float64)}),
        "reserved-input-name-pt_temp": pt.make_dict_of_named_arrays(
            {"o": (pt.make_placeholder("_pt_temp", (4,), np.float64) + 1).tagged(ImplStored()) * 2}),
    }
    inputs = {"x": np.arange(4.0), "y": np.arange(4.0) * 3, "_pt_data": np.arange(4.0) + 7,
              "xs": np.arange(12.0).reshape(4, 3),
              "_pt_temp": np.arange(4.0) - 2, "acc_dim0": np.arange(4.0) * 5 + 1,
              "rowsum_dim0": np.arange(12.0).reshape(4, 3)}
    for nm, expr in scen.items():
        from ..reflect import walk
        from pytato.array import Placeholder
        names = sorted({n.name for n in walk(expr) if isinstance(n, Placeholder)})
        run = {k: inputs[k] for k in names}
        jobs.append(cexec.Job(tag=nm, expr=expr, runs=[run], prep=_prep_dedup, kir_orders=0, post=_post))
        meta.append((nm, expr, run))
    res = cexec.run_jobs(ctx, jobs)
    from ..refeval import close, evaluate
    for (nm, expr, run), r in zip(meta, res):
        cases += 1
        if r.error and not str(r.stage).startswith("c-"):
            if nm in ("dw-named-equals-input", "prefix-then-named-same-name", "named-then-prefix-same-name",
                      "named-temp-equals-output-key", "dw-prefix-equals-temp-named", "prefix-suffixed-then-named",
                      "named-then-prefix-suffixed", "dw-named-next-to-suffixed-prefix",
                      "named-suffixed-and-named-plain", "loopy-call-then-named-equals-output",
                      "loopy-call-named-expression-argument-equals-input",
                      "inner-dictionary-named-entry-equals-input") and r.error_class == "ValueError":
                continue        # "a Named tag yields exactly that name or an error"
            if nm.startswith("reserved-input-name") and r.stage in ("generate", "prep"):
                continue        # rejected: allowed
            if nm == "output-is-input" and _is_conflict_diagnostic(r):
                continue        # explicit diagnostic: allowed
            dis += 1
            ctx.violation(f"names:scenario-fails:{nm}", f"scenario {nm}: {r.stage} failed: {r.error[:300]}",
                          {"scenario": nm, "error": r.error})
            continue
        k = r.kir or {}
        nmz = k.get("names", {})
        space = nmz.get("args", []) + nmz.get("temps", []) + nmz.get("inames", []) + nmz.get("substs", [])
        dups = sorted({a for a in space if space.count(a) > 1} | set(nmz.get("multi_writers", [])))
        if dups:
            dis += 1
            ctx.violation(f"names:duplicate-identifier:{nm}",
                          f"scenario {nm}: kernel has one name for two objects: {dups}", {"scenario": nm, "names": nmz})
            continue
        required = {"named-temp": ["foo"], "prefix-suffixed-then-named": ["tmp"], "named-then-prefix-suffixed": ["tmp"],
                    "dw-named-next-to-suffixed-prefix": ["coef"], "named-suffixed-and-named-plain": ["tmp", "tmp_0"],
                    "named-then-prefix-same-name": ["tmp"], "prefix-then-named-same-name": ["tmp"]}.get(nm, [])
        lacking = [q for q in required if q not in nmz.get("temps", []) + nmz.get("args", [])]
        if lacking and nmz:
            dis += 1
            ctx.violation("names:named-tag-not-honoured",
                          f"scenario {nm}: accepted, but no argument/temporary is called exactly {lacking}: "
                          f"temporaries {nmz.get('temps')}, arguments {nmz.get('args')}", {"scenario": nm, "names": nmz})
        if r.error:
            continue    # executor limitation; names were checked above
        ref = evaluate(expr, run, sizes={"b_dim0": 3, "tmp": 3})
        for key, val in ref.items():
            got = r.outputs[0].get(key) if r.outputs else None
            if got is None or not close(got, val):
                dis += 1
                ctx.violation(f"names:silent-aliasing:{nm}",
                              f"scenario {nm}: output {key} = {None if got is None else np.asarray(got).tolist()}, "
                              f"expected {np.asarray(val).tolist()} (two objects merged under one name?)",
                              {"scenario": nm, "names": nmz})
                break
    ctx.note_batch("naming-scenarios", cases, dis, exhaustive=False, scenarios=sorted(scen))

def batch_numpy_target_names(ctx):
    """the NumPy-like target puts user names into the same Python scope as the identifiers every generated module
    introduces (`np`, the module shorthand, the entry point's name): either a diagnostic at generation time, or a
    program that computes the right values — never a user array that silently shadows a generated identifier"""
    import pytato as pt
    from .. import pytarget
    from ..refeval import close, evaluate
    from pytato.target.python.numpy_like import generate_numpy_like
    tgt = pytarget.numpy_target()
    gen_ids = ["np", "numpy", "knl", "dtype", "float32", "reshape", "_", "e", "where", "sum", "int", "len", "tuple",
               # valid identifiers for Array names that are keywords of the target language
               "lambda", "class", "for", "None", "import", "def", "is"]
    cases = dis = rejected = 0

    def graphs(nm, role):
        a = pt.make_placeholder(nm if role == "placeholder" else "u", (4,), np.float32)
        b = pt.make_placeholder("v", (2, 2), np.float64)
        w = pt.make_data_wrapper(np.arange(4, dtype=np.float32) + 2, tags=frozenset(
            {pt.tags.Named(nm)} if role == "named-data" else ()))
        typed = a * np.float32(1.5) + pt.ones((4,), np.float32) + w           # needs `np.` in the generated text
        other = pt.sum(b.reshape(4) * a) + pt.where(pt.greater(a, 1), a, w)[0]
        keys = (nm, "o2") if role == "output" else ("o1", "o2")
        return pt.make_dict_of_named_arrays({keys[0]: typed, keys[1]: other})
    for nm in gen_ids:
        for role in ("placeholder", "output", "named-data", "function-name"):
            cases += 1
            expr = graphs(nm, role)
            fname = nm if role == "function-name" else "knl"
            if role == "function-name" and nm == "knl":
                continue
            try:
                prog = generate_numpy_like(expr, tgt, fname, False, (), ())
            except (ValueError, pt.diagnostic.NameClashError) as e:
                rejected += 1
                continue
            except Exception as e:   # noqa: BLE001
                dis += 1
                ctx.violation(f"names:numpy-target:{role}:{nm}:crash:{type(e).__name__}",
                              f"NumPy-like target, {role} called {nm!r}: generation failed with {type(e).__name__}: "
                              f"{str(e)[:200]} (neither a naming diagnostic nor a program)", {"name": nm, "role": role})
                continue
            inputs = {(nm if role == "placeholder" else "u"): np.arange(4, dtype=np.float32) - 1,
                      "v": np.arange(4.0).reshape(2, 2) + 0.5}
            ref = evaluate(expr, inputs)
            try:
                got = prog(**inputs)
            except Exception as e:   # noqa: BLE001
                dis += 1
                ctx.violation(f"names:numpy-target:{role}:{nm}:accepted-then-fails",
                              f"NumPy-like target accepted a {role} called {nm!r}, and the generated program fails: "
                              f"{type(e).__name__}: {str(e)[:160]} (the user name merged with a generated identifier)",
                              {"name": nm, "role": role, "program": prog.program})
                continue
            bad = [k for k in ref if k not in got or not close(got[k], ref[k])]
            if bad:
                dis += 1
                ctx.violation(f"names:numpy-target:{role}:{nm}:wrong-values",
                              f"NumPy-like target accepted a {role} called {nm!r}; outputs {bad} differ from the "
                              "reference", {"name": nm, "role": role, "program": prog.program})
    ctx.note_batch("numpy-target-names", cases, dis, exhaustive=False, rejected_with_diagnostic=rejected,
                   identifiers=gen_ids)


try:
    from pytools.tag import Tag as _PTag

    class _UserTag(_PTag):
        pass
except Exception:   # noqa: BLE001
    _UserTag = None


def batch_reserved_index_names(ctx):
    """user names from the reserved patterns of doc/design.rst that are used INSIDE index lambdas (`_<k>` index
    variables — compulsory —, `_r<k>` reduction indices, `_in<k>` binding names): rejected, or kept distinct from
    the generated identifier — never silently merged with it"""
    import pytato as pt
    names = ["_0", "_1", "_2", "_12", "_r0", "_r1", "_in0", "_in1", "_in2"]
    xv, bv = np.arange(4.0) + 1, np.arange(4.0) * 2 - 1
    m = np.arange(12.0).reshape(4, 3)
    jobs, meta, rejected = [], [], 0
    for nm in names:
        for role in ("vector", "matrix", "size-param"):
            try:
                if role == "vector":
                    a = pt.make_placeholder(nm, (4,), np.float64)
                    b = pt.make_placeholder("b", (4,), np.float64)
                    expr = pt.make_dict_of_named_arrays({"o": a * 2 + pt.sum(a * b), "p": (a + b)[::-1]})
                    run, ref = {nm: xv, "b": bv}, {"o": xv * 2 + np.sum(xv * bv), "p": (xv + bv)[::-1]}
                elif role == "matrix":
                    a = pt.make_placeholder(nm, (4, 3), np.float64)
                    expr = pt.make_dict_of_named_arrays({"o": pt.sum(a.T @ a, axis=0) + a[1], "p": pt.roll(a, 1, 0)})
                    run, ref = {nm: m}, {"o": np.sum(m.T @ m, axis=0) + m[1], "p": np.roll(m, 1, 0)}
                else:
                    n = pt.make_size_param(nm)
                    a = pt.make_placeholder("a", (n,), np.float64)
                    expr = pt.make_dict_of_named_arrays({"o": a * 2 + pt.roll(a, 1)})
                    run, ref = {"a": xv, nm: 4}, {"o": xv * 2 + np.roll(xv, 1)}
            except ValueError:
                rejected += 1
                continue
            jobs.append(cexec.Job(tag=f"{role}:{nm}", expr=expr, runs=[run], kir_orders=0))
            meta.append((nm, role, ref))
    dis = 0
    for (nm, role, ref), r in zip(meta, cexec.run_jobs(ctx, jobs)):
        if r.error and r.stage in ("generate", "prep") and r.error_class in ("ValueError", "NameClashError"):
            rejected += 1
            continue
        if r.error and str(r.stage).startswith("c-"):
            continue        # executor limitation (symbolic shapes through the C invoker): names were accepted, see kir
        if r.error:
            dis += 1
            ctx.violation("names:reserved-index-variable-name-accepted",
                          f"{role} called {nm!r} (a reserved identifier of index lambdas) is accepted, and code generation "
                          f"fails at stage {r.stage}: {str(r.error).splitlines()[0][:140]}", {"name": nm, "role": role})
            continue
        from ..refeval import close
        bad = [k for k in ref if not r.outputs or not close(r.outputs[0].get(k), ref[k])]
        if bad:
            dis += 1
            ctx.violation("names:reserved-index-variable-name-accepted",
                          f"{role} called {nm!r} is accepted and silently merged with a generated identifier: outputs {bad} "
                          f"differ from NumPy", {"name": nm, "role": role})
    ctx.note_batch("reserved-index-variable-names", len(names) * 3, dis, exhaustive=False, rejected=rejected, names=names)


def batch_c_keywords(ctx):
    """user names that are keywords of C (the language loopy's targets print): the argument must appear under exactly
    that name in a program that works, or the name must be refused with a diagnostic — a kernel that does not
    compile is neither"""
    import pytato as pt
    names = ["int", "double", "float", "char", "for", "if", "return", "auto", "inline", "restrict", "switch", "long"]
    x = np.arange(4.0)
    jobs = []
    for nm in names:
        a = pt.make_placeholder(nm, (4,), np.float64)
        jobs.append(cexec.Job(tag=f"in:{nm}", expr=pt.make_dict_of_named_arrays({"o": a * 2 + 1}), runs=[{nm: x}], kir_orders=0))
        b = pt.make_placeholder("b", (4,), np.float64)
        jobs.append(cexec.Job(tag=f"out:{nm}", expr=pt.make_dict_of_named_arrays({nm: b * 2 + 1}), runs=[{"b": x}], kir_orders=0))
    dis = 0
    for j, r in zip(jobs, cexec.run_jobs(ctx, jobs)):
        role, nm = j.tag.split(":")
        if r.error and r.stage in ("generate", "prep") and r.error_class in ("ValueError", "NameClashError"):
            continue        # refused with a diagnostic
        if r.error:
            dis += 1
            ctx.violation("names:c-keyword-as-user-name",
                          f"{'input' if role == 'in' else 'output'} called {nm!r} (a C keyword) is accepted, and the generated "
                          f"code fails at stage {r.stage}: {str(r.error).splitlines()[0][:120]}", {"name": nm, "role": role})
            continue
        key = "o" if role == "in" else nm
        if not r.outputs or not np.allclose(r.outputs[0].get(key), x * 2 + 1):
            dis += 1
            ctx.violation("names:c-keyword-as-user-name:wrong-values", f"{role} called {nm!r}: wrong values", {"name": nm})
    ctx.note_batch("c-keywords-as-user-names", len(jobs), dis, exhaustive=False, names=names)


def run(ctx: common.Ctx):
    ctx.assumptions += [
        "pytools' UniqueNameGenerator and loopy's own name generation are modelled / observed, not verified",
        "documented contract: user names outside _pt_*, _[0-9]+, _r[0-9]+, _in[0-9]+",
    ]
    ctx.lean_obligations("PtProofs.C15", THEOREMS)
    batch_namegen(ctx)
    batch_adversarial(ctx)
    batch_adversarial_tags(ctx)
    batch_scenarios(ctx)
    batch_numpy_target_names(ctx)
    batch_c_keywords(ctx)
    batch_reserved_index_names(ctx)
    ctx.broken = sorted(set(ctx.broken))[:50]


def replay(ctx, path):
    print(open(path).read()[:3000])
    run(ctx)
    return ctx.finish()

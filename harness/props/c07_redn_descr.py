"""C07 — reductions built WITH reduction descriptors.

Property clause: "adding ... any tags ... on reduction descriptors ... changes neither the result
nor any computed value".  Descriptors can be attached afterwards (`with_tagged_reduction`, the random
tag stream does that) or handed to the constructor: `axis_to_reduction_descr=` of the reductions,
`index_to_redn_descr=` of einsum.

  family   every reduction (sum, prod, amax, amin, any, all) x which axes are reduced (one, two, all)
           x which of the reduced axes get a descriptor (all of them / every strict subset / none,
           i.e. the empty mapping) x descriptor tagged / untagged;
           einsum with a descriptor for all / some / none of its reduction indices
  oracle   the construction succeeds exactly like the one without the argument, and
           with descriptors == without descriptors == NumPy (generated code, executed).
"""
from __future__ import annotations

import itertools

import numpy as np

from .. import cexec
from ..refeval import close, evaluate
from .c01 import _prep_dedup, _short


def cases(thorough=True):
    import pytato as pt
    from pytato.array import ReductionDescriptor
    from .c07 import UserRednTag
    x = pt.make_placeholder("x", (2, 3, 2), np.float64)
    b = pt.make_placeholder("b", (2, 3, 2), np.bool_)
    m = pt.make_placeholder("m", (3, 3), np.float64)
    reds = {"sum": (pt.sum, x), "prod": (pt.prod, x), "amax": (pt.amax, x), "amin": (pt.amin, x),
            "any": (pt.any, b), "all": (pt.all, b)}
    out = []
    for rname, (fn, arg) in reds.items():
        if not thorough and rname in ("prod", "amin", "all"):
            continue
        for axes in ((1,), (0, 2), (0, 1, 2)):
            subsets = [s for k in range(len(axes) + 1) for s in itertools.combinations(axes, k)]
            for sub in subsets:
                for tagged in (False, True):
                    if not sub and tagged:
                        continue
                    d = ReductionDescriptor(frozenset({UserRednTag()}) if tagged else frozenset())
                    which = "all" if len(sub) == len(axes) else ("none" if not sub else "some")
                    label = f"{rname}:axes={axes}:descr={which}{sub}:{'tagged' if tagged else 'plain'}"
                    out.append((label, (lambda fn=fn, arg=arg, axes=axes: fn(arg, axis=axes)),
                                (lambda fn=fn, arg=arg, axes=axes, sub=sub, d=d:
                                 fn(arg, axis=axes, axis_to_reduction_descr={a: d for a in sub}))))
    for spec, idxs in (("ij,jk->ik", "j"), ("ij,jk->", "ijk"), ("ii->", "i")):
        nops = spec.split("->")[0].count(",") + 1
        for k in range(len(idxs) + 1):
            for sub in itertools.combinations(idxs, k):
                for tagged in (False, True):
                    if not sub and tagged:
                        continue
                    d = ReductionDescriptor(frozenset({UserRednTag()}) if tagged else frozenset())
                    which = "all" if len(sub) == len(idxs) else ("none" if not sub else "some")
                    label = f"einsum:{spec}:descr={which}{sub}:{'tagged' if tagged else 'plain'}"
                    out.append((label, (lambda spec=spec, nops=nops: pt.einsum(spec, *([m] * nops))),
                                (lambda spec=spec, nops=nops, sub=sub, d=d:
                                 pt.einsum(spec, *([m] * nops), index_to_redn_descr={i: d for i in sub}))))
    return out


INPUTS = {"x": (np.arange(12.0).reshape(2, 3, 2) % 5) - 1.5,
          "b": (np.arange(12).reshape(2, 3, 2) % 3 == 0),
          "m": np.arange(9.0).reshape(3, 3) - 2.5}


def batch_reduction_descriptors(ctx):
    import pytato as pt
    jobs, meta = [], []
    n = dis = 0
    reported = set()
    for label, plain, with_descr in cases(ctx.thorough):
        n += 1
        try:
            base = plain()
        except Exception as e:   # noqa: BLE001
            ctx.broken.append(f"c07-redn-descr:plain-build-fails:{label}:{type(e).__name__}")
            continue
        try:
            node = with_descr()
        except Exception as e:   # noqa: BLE001
            dis += 1
            sig = f"tags:reduction-descriptor-argument-refused:{type(e).__name__}"
            if sig not in reported:
                reported.add(sig)
                ctx.violation(sig, f"{label}: the construction without the descriptor argument succeeds, with it it "
                                   f"raises {type(e).__name__}: {e}", {"batch": "redn-descr", "case": label})
            continue
        if node.shape != base.shape or node.dtype != base.dtype:
            dis += 1
            ctx.violation("tags:reduction-descriptor-argument-changes-metadata", f"{label}: shape/dtype differ",
                          {"batch": "redn-descr", "case": label})
            continue
        e = pt.make_dict_of_named_arrays({"o": node})
        jobs.append(cexec.Job(tag=f"redn-descr:{label}", expr=e, runs=[INPUTS], prep=_prep_dedup))
        meta.append((label, e, pt.make_dict_of_named_arrays({"o": base})))
    res = cexec.run_jobs(ctx, jobs)
    for (label, e, base), r in zip(meta, res):
        if r.error:
            if str(r.stage).startswith("c-"):
                continue
            dis += 1
            sig = f"tags:codegen-fails-with-reduction-descriptor:{r.error_class}:{_short(r.error)}"
            if sig not in reported:
                reported.add(sig)
                ctx.violation(sig, f"{label}: {r.stage} failed: {r.error[:300]}", {"batch": "redn-descr", "case": label})
            continue
        ref = evaluate(base, INPUTS)["o"]
        got = r.outputs[0].get("o")
        if got is None or not close(got, ref):
            dis += 1
            ctx.violation("tags:value-differs-from-reference", f"{label}: value differs from NumPy / the plain build",
                          {"batch": "redn-descr", "case": label})
    ctx.note_batch("reductions-built-with-descriptors", n, dis, exhaustive=True, executed=len(jobs))
